"""C05 - in-flight operations never share a message ID; IDs stay within 1..2^31-1.

Decided statically (necessary conditions, DESIGN.md section 6 C05): the shape of the allocator
(single critical section, wrap constants, skip loop, publish/insert/return of the same candidate),
who may touch the ID table, and that the driver never releases an ID that is still routed."""
from facts import walk, callee_of, call_args, loc
import hirq, anchors

EXPLANATION = ("Structural rules over the typed HIR of the ID allocator and of every access to the ID table "
               "(Arc<Mutex<(RequestId, HashSet<RequestId>)>>): N1 one lock, every access through that guard; "
               "N2 candidate starts at the stored counter, is reset to 1 exactly when it equals i32::MAX and is "
               "otherwise incremented by 1, table initialised to (0, empty); N3 the search loop is left only when "
               "the freshly updated candidate is not in the in-use set; N4 the same candidate is stored, inserted and "
               "returned; N5 who-may-touch: counter writes and set inserts only in the allocator, allocator called only "
               "from the operation issue point whose request tuple carries that value, set removals only in the driver "
               "loop; N6 every release in the driver is accompanied by un-routing of the same ID (or is the Abandon "
               "request's own, never-answered ID). Not decided: the arithmetic of 2^31 wrap-around as a runtime fact "
               "beyond this shape; scheduler interleavings (the single Mutex critical section is the argument).")
TRUSTED = ['std::sync::Mutex mutual exclusion', 'std HashSet semantics']
ASSUMPTIONS = ['RequestId = i32 (checked through the resolved field types)']
UNDECIDED = ['runtime wrap-around over 2^31 allocations (decided only as the allocator shape)']

def run(ctx):
    f = ctx.facts
    C = anchors.Conn(f)
    A = C.alloc
    ctx.analysed['bodies'].update([C.alloc_path, C.op_call_path, C.loop_path])
    root = A.root

    # ---- N1 single critical section
    locks = [(n, c) for n, c in walk(root) if n['k'] == 'MethodCall' and (callee_of(n) or '').endswith('Mutex::<T>::lock')]
    ctx.add('N1.single-lock', A.path, loc(root), len(locks) == 1,
            'allocator must take the ID-table lock exactly once (found %d lock calls)' % len(locks))
    guards = {b for b, d in A.defs.items() if anchors.is_idguard(d['pat'].get('ty'))}
    ctx.add('N1.single-guard', A.path, loc(root), len(guards) == 1,
            'exactly one guard binding over the ID table expected, found %d' % len(guards))
    in_loop = [c for _, c in locks if any(a['k'] in ('Loop', 'For', 'While') for a, _ in c)]
    ctx.add('N1.lock-outside-loop', A.path, loc(root), not in_loop, 'the lock is taken inside a loop (released between probes)')
    # guard must not be dropped / re-bound before the end: no call to drop on it
    drops = [n for n, c in walk(root) if n['k'] == 'Call' and (callee_of(n) or '').endswith('mem::drop')]
    ctx.add('N1.no-early-unlock', A.path, loc(root), not drops, 'explicit drop inside the allocator')

    # ---- candidate variable: argument of the insert
    ins = [n for n, c in anchors.method_calls(root, 'HashSet::<T, S, A>::insert', C.is_idset_place)]
    ctx.add('N4.single-insert', A.path, loc(root), len(ins) == 1, 'exactly one insert into the in-use set expected, found %d' % len(ins))
    if len(ins) != 1:
        return
    cand = hirq.local_of(ins[0]['args'][0])
    if cand is None:
        ctx.fail('N4.insert-arg', A.path, loc(ins[0]), 'the inserted value is not a local candidate variable')
        return
    cname = A.defs[cand]['name']

    # ---- the search loop: the loop that contains the `contains` probe
    probes = anchors.method_calls(root, 'HashSet::<T, S, A>::contains', C.is_idset_place)
    ctx.add('N3.single-probe', A.path, loc(root), len(probes) == 1, 'exactly one membership probe expected, found %d' % len(probes))
    if len(probes) != 1:
        return
    probe, pctx = probes[0]
    loop = None
    for a, _ in reversed(pctx):
        if a['k'] == 'Loop':
            loop = a
            break
    if loop is None:
        ctx.fail('N3.loop', A.path, loc(probe), 'membership probe is not inside a loop: no skip of IDs in use')
        return
    ctx.add('N3.probe-arg', A.path, loc(probe), hirq.local_of(probe['args'][0]) == cand,
            'the membership probe tests something other than the candidate `%s`' % cname)

    # ---- N2 initial value and update
    d = A.defs[cand]
    init = hirq.resolve_expr(A, d['src']) if d['src'] is not None else None
    ctx.add('N2.init-from-counter', A.path, loc(root), init is not None and C.is_counter_place(init),
            'candidate must start from the stored counter (guard.0)')
    asg = A.assigns.get(cand, [])
    in_loop_asg = [a for a in asg if any(x is loop for x, _ in A.context(a))]
    out_loop_asg = [a for a in asg if a not in in_loop_asg]
    ctx.add('N4.no-late-update', A.path, loc(root), not out_loop_asg,
            'candidate is modified outside the search loop (after it was found free)')
    updates = []   # (kind, condition-description)
    for a in in_loop_asg:
        conds = [c for c in hirq.conditions(A.context(a)) if c[0] in ('if', 'arm')]
        # conditions inside the loop only
        conds = [c for c in conds if any(x is loop for x, _ in A.context(c[1]))]
        kind = None
        if a['k'] == 'Assign' and hirq.const_eval(f, a['r']) == 1:
            kind = 'reset'
        elif a['k'] == 'AssignOp' and a['op'] == 'AddAssign' and hirq.const_eval(f, a['r']) == 1:
            kind = 'inc'
        elif a['k'] == 'Assign' and a['r']['k'] == 'Binary' and a['r']['op'] == 'Add' and \
                {hirq.local_of(a['r']['l']), hirq.const_eval(f, a['r']['r'])} == {cand, 1}:
            kind = 'inc'
        if kind is None or len(conds) != 1 or conds[0][0] != 'if':
            ctx.fail('N2.update-form', '%s|%s' % (A.path, kind), loc(a),
                     'candidate update is neither `= 1` under the wrap test nor `+= 1` under its negation')
            continue
        iff, branch = conds[0][1], conds[0][2]
        cmpn = iff['cond']
        okc = cmpn['k'] == 'Binary' and cmpn['op'] in ('Eq', 'Ge') and hirq.local_of(cmpn['l']) == cand \
            and hirq.const_eval(f, cmpn['r']) == 2147483647
        ctx.add('N2.wrap-test', '%s|%s' % (A.path, kind), loc(cmpn), okc,
                'wrap test must compare the candidate with i32::MAX (2147483647) using == (or >=)')
        ctx.add('N2.wrap-branch', '%s|%s' % (A.path, kind), loc(a),
                (kind == 'reset' and branch == 'then') or (kind == 'inc' and branch == 'els'),
                'reset to 1 must be on the MAX branch and the increment on the other')
        updates.append(kind)
        ctx.add('N3.update-before-probe', '%s|%s' % (A.path, kind), loc(a), A.before(a, probe),
                'the candidate is updated after it was probed: an unprobed value can be returned')
    ctx.add('N2.updates', A.path, loc(loop), sorted(updates) == ['inc', 'reset'],
            'expected exactly one reset-to-1 and one increment-by-1 of the candidate per iteration, found %s' % sorted(updates))

    # ---- N3 loop exits
    brs, rets = hirq.loop_exits(A, loop)
    ctx.add('N3.no-return-in-loop', A.path, loc(loop), not rets, 'return inside the search loop bypasses publish/insert')
    ctx.add('N3.has-exit', A.path, loc(loop), len(brs) >= 1, 'search loop has no exit')
    for br in brs:
        conds = [c for c in hirq.conditions(A.context(br)) if any(x is loop for x, _ in A.context(c[1]))]
        ok = False
        if len(conds) == 1 and conds[0][0] == 'if':
            cnd, branch = conds[0][1]['cond'], conds[0][2]
            neg = False
            while cnd['k'] == 'Unary' and cnd['op'] == 'Not':
                neg = not neg
                cnd = cnd['e']
            ok = cnd is probe and ((neg and branch == 'then') or (not neg and branch == 'els'))
        ctx.add('N3.exit-only-when-free', A.path, loc(br), ok,
                'the loop is left under a condition other than "candidate not in the in-use set"')

    # ---- N4 publish / insert / return after the loop
    stores = [a for n, c in walk(root) if n['k'] == 'Assign' and C.is_counter_place(n['l']) for a in [n]]
    ctx.add('N4.single-store', A.path, loc(root), len(stores) == 1, 'exactly one store to the counter expected, found %d' % len(stores))
    for s in stores:
        ctx.add('N4.store-candidate', A.path, loc(s), hirq.local_of(s['r']) == cand, 'the stored counter is not the candidate')
        ctx.add('N4.store-after-loop', A.path, loc(s), A.before(loop, s) and not any(x is loop for x, _ in A.context(s)),
                'counter stored before the candidate is final')
    ctx.add('N4.insert-after-loop', A.path, loc(ins[0]), A.before(loop, ins[0]) and not any(x is loop for x, _ in A.context(ins[0])),
            'insert happens before the candidate is final')
    ret = root.get('expr') if root['k'] == 'Block' else root
    rets_all = [n for n, c in walk(root) if n['k'] == 'Ret']
    ok_ret = ret is not None and hirq.local_of(ret) == cand and not rets_all
    ctx.add('N4.return-candidate', A.path, loc(ret or root), ok_ret, 'the returned ID is not the candidate that was inserted')

    # ---- N2 initial table
    inits = []
    for path, h in f.hir.items():
        for n, c in walk(h['body']):
            if n['k'] == 'Call' and n.get('ty') == anchors.T_IDTABLE and (callee_of(n) or '').endswith('Arc::<T>::new'):
                inits.append((path, n))
    ctx.add('N2.table-init.count', 'id table constructions', '', len(inits) == 1, 'expected one construction of the ID table, found %d' % len(inits))
    for path, n in inits:
        inner = n['args'][0]
        ok = inner['k'] == 'Call' and (callee_of(inner) or '').endswith('Mutex::<T>::new')
        tup = inner['args'][0] if ok else None
        ok = ok and tup['k'] == 'Tup' and len(tup['elems']) == 2 and hirq.const_eval(f, tup['elems'][0]) == 0 \
            and tup['elems'][1]['k'] == 'Call' and (callee_of(tup['elems'][1]) or '').endswith('HashSet::<T>::new')
        ctx.add('N2.table-init', path, loc(n), ok, 'the ID table must start as (0, empty set)')

    # ---- N5 who may touch
    for path, h in f.hir.items():
        for n, c in walk(h['body']):
            if n['k'] == 'Assign' or n['k'] == 'AssignOp':
                if C.is_counter_place(n['l']) and path != C.alloc_path:
                    ctx.fail('N5.counter-write', path, loc(n), 'the ID counter is written outside the allocator')
                l = anchors.peel(n['l'])
                if anchors.is_idguard(l.get('ty')) or C.is_idset_place(n['l']):
                    ctx.fail('N5.table-overwrite', path, loc(n), 'the ID table / in-use set is overwritten wholesale')
            if n['k'] == 'MethodCall' and C.is_idset_place(n['recv']):
                m = (callee_of(n) or '').rsplit('::', 1)[-1]
                if m == 'insert':
                    ctx.add('N5.insert-owner', path, loc(n), path == C.alloc_path, 'insert into the in-use set outside the allocator')
                elif m == 'remove':
                    ctx.add('N5.remove-owner', path, loc(n), path == C.loop_path, 'release of an ID outside the driver loop')
                elif m in ('contains', 'len', 'is_empty'):
                    ctx.ok('N5.read', path + '|' + m, loc(n))
                else:
                    ctx.fail('N5.set-method', path + '|' + m, loc(n), 'unexpected method `%s` on the in-use set' % m)
            # guard passed around as a whole (escapes the analysis)
            if n['k'] in ('Call', 'MethodCall'):
                for a in (n['args'] if n['k'] == 'Call' else n['args']):
                    pa = anchors.peel(a)
                    if anchors.is_idguard(pa.get('ty')) or C.is_idset_place(pa):
                        if not (n['k'] == 'MethodCall' and C.is_idset_place(n['recv'])):
                            ctx.fail('N5.guard-escapes', path, loc(n), 'the ID-table guard or set is passed to another function')
    callers = hirq.all_calls(f, lambda c: c == C.alloc_path)
    ctx.add('N5.alloc-callers.count', C.alloc_path, '', len(callers) >= 1, 'allocator is never called')
    for path, n, c in callers:
        ctx.add('N5.alloc-caller', path, loc(n), path == C.op_call_path,
                'the allocator is called from somewhere other than the operation issue point')
    # the request tuple's ID is that call's result
    O = C.op_call
    sends = anchors.method_calls(O.root, 'UnboundedSender::<T>::send', lambda r: hirq.strip_refs(r.get('ty', '')) == anchors.T_REQ_SENDER)
    for s, c in sends:
        tup = hirq.resolve_expr(O, s['args'][0])
        ok = tup['k'] == 'Tup' and len(tup['elems']) == 5
        if ok:
            o = O.origin(tup['elems'][0])
            ok = o[0][0] == 'call' and o[0][1] == C.alloc_path and o[1] == ()
        ctx.add('N5.wire-id-is-allocated', O.path, loc(s), ok, 'the ID placed in the request tuple is not the value returned by the allocator')
    ctx.floor('N5', 'request sends', len(sends), 1)

    # ---- N6 no release of an ID that is still routed
    L = C.loop
    releases = anchors.method_calls(L.root, 'HashSet::<T, S, A>::remove', C.is_idset_place)
    unroutes = [(n, c, w) for w in ('result', 'search')
                for n, c in anchors.method_calls(L.root, 'HashMap::<K, V, S, A>::remove', lambda r, w=w: C.is_map_place(r, w))]
    req = C.arms['request']
    for r, rc in releases:
        key = hirq.strip_casts(L.origin(r['args'][0]))
        acc = [u for u, uc, w in unroutes if hirq.strip_casts(L.origin(u['args'][0])) == key and hirq.accompanies(L, r, u)]
        own_abandon = False
        # the Abandon request's own ID: origin is the request tuple's component 0 and the site is in the Abandon arm
        if any(c[0] == 'arm' and hirq.pat_variant(c[1]['arms'][c[2]]['pat']) == 'LdapOp::Abandon' for c in hirq.conditions(L.context(r))):
            o_req = L.origin_of_bind(req['bindings'][0][0])
            own_id = hirq.project(hirq.project(o_req, ('variant', 'Some', 0)), ('tup', 0))
            own_abandon = key == own_id
        ctx.add('N6.release-implies-unrouted', '%s|%s' % (L.path, hirq.fmt_origin(key)), loc(r), bool(acc) or own_abandon,
                'an ID is released while its routing entry is kept: the allocator can hand it to a second operation')
    ctx.floor('N6', 'ID releases in the driver loop', len(releases), 3)
