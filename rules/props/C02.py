"""C02 - each request on the wire is exactly the RFC 4511 PDU the caller asked for; modifiers are one-shot."""
from facts import walk, callee_of, call_args, loc
import hirq, anchors, absx
from shapes import *

EXPLANATION = ("S1-S12 every request builder is abstractly evaluated (path-sensitive interpretation of its typed HIR, Default impls and "
               "local helpers inlined, so universal tag numbers come out of lber's own tables) and the resulting ASN.1 shape is compared, "
               "on every path that issues the operation, with the RFC 4511 shape transcribed in this module - class, tag number, element "
               "order, optionality condition and *which parameter feeds which slot*; S13 the LDAPMessage envelope SEQUENCE{INTEGER id, op, "
               "[0]{control*} iff controls are Some}; S14 the control SEQUENCE{OCTET ctype, BOOLEAN TRUE only if critical, OCTET value only "
               "if present} - S13 / S14 by interpreting the encoder once per member of the finite partition controls Some / None x crit true / false x val Some / None (fields fixed to variant / literal knowledge) and comparing the emitted component list of each member; S15 each method passes the right LdapOp variant; enumerations Scope/DerefAliases equal RFC 4511; M1 the issue "
               "point takes controls and timeout out of the handle (Option::take), the streaming search moves all three modifiers to the "
               "stream's handle, the search start takes the options; M2/M3 on every path of every public operation method on which the "
               "operation is issued - and on every path on which it is rejected locally - all three modifiers have been consumed; M5 the "
               "requests the library issues on its own (follow-up pages of the paging adapter) carry exactly the saved controls plus the "
               "paging control and leave the saved controls as they were (C16's rules); S16 the Filter inside a SearchRequest / an Assertion or "
               "MatchedValues control value is what the filter string says (C08's P3 / P4 shapes, P1.entry whole input, P8 every text slot "
               "holds exactly the bytes its grammar rule consumed - attribute description with all its options, matching rule name); S17 the BER writer (C07's rules); S18 the requestValue of an extended operation built from a typed request (C19's X.value for the `From<..> for Exop` encoders, once per member of each encoder's input partition). "
               "Not decided: that lber serialises a shape into the right bytes (C07); values of arbitrary size.")
TRUSTED = ['lber serialises shapes faithfully (C07)', 'RFC 4511 shapes transcribed in rules/props/C02.py']
UNDECIDED = ['byte-level serialisation (C07)', 'arbitrary value sizes']
ASSUMPTIONS = []
SHARED = [# S16 stands for the clause "... reads back exactly the requested operation: ... filter ... and the attached controls with their
          # ... value": the Filter of a SearchRequest (and the value of the Assertion / MatchedValues controls) is built by the filter
          # compiler's semantic actions: P3 / P4 the shape built from the parse results, P1.entry the whole string is parsed, P8 the
          # octets of the text slots (attribute description with its options, matching rule) are exactly the bytes the caller wrote
          # there - what each leaf parser RETURNS is what it CONSUMED (seed C02i: attributedescription() still consumed `cn;lang-en`
          # but returned `cn`)
          ('C08', ('P3.', 'P4.', 'P1.entry', 'P8.'), 'S16.filter'), ('C07', ('B1.', 'B2m.', 'B4.encoder', 'B5.'), 'S17.ber-writer'),
          # the one place where the library itself attaches controls to requests the caller did not spell out: every follow-up Search of
          # the paging adapter carries exactly the controls saved when the search started plus one paging control, and issuing it leaves
          # the saved controls / options as they were (nothing leaks from one exchange into the next)
          ('C16', ('A2.follow-up-controls', 'A2.saved-state-unchanged'), 'M5.paged-follow-up-carries-the-saved-controls'),
          # S18 stands for the clause "the bytes written ... read back as exactly the requested operation" for `extended`: S.request-shape
          # decides that the ExtendedRequest carries `exop.val` as requestValue [1]; what the caller asked for is the typed request
          # (`extended<E: Into<Exop>>(PasswordModify {..})`), and the octets of the requestValue are built by E's `From<E> for Exop`: for every
          # member of the input partition of every Exop encoder (each Option field Some / None x each bool field true / false) the
          # emitted value is the one the defining RFC prescribes for that member - component order, tag numbers, which field feeds
          # which component (seed C02l: PasswordModify components numbered by their position among the PRESENT fields)
          ('C19', ('X.value.exop',), 'S18.extended-request-value')]

SELF = ('param', 'self')
LDAP = 'ldap3::ldap::Ldap::'

def inline_policy(c):
    return c.endswith('core::default::Default>::default') or c in (
        'ldap3::ldap::sasl_bind_req', 'ldap3::exop_impl::construct_exop', 'ldap3::controls_impl::build_tag', 'ldap3::ldap::Ldap::discard_modifiers')

def empty_vec(t, env): return t == ('vec', ())
def some_payload(pred):
    return lambda t, env: t[0] == 'variant' and t[2] == 'Some' and t[3] == 0 and pred(t[1], env)
def is_some(pred):
    def f(pc):
        for a, t in pc:
            if a[0] == 'is' and a[2] == 'Some' and pred(a[1], {}):
                return t
            if a[0] == 'is' and a[2] == 'None' and pred(a[1], {}):
                return not t
        return None
    return f

def opts_field(name):
    def f(t, env):
        t = strip(t)
        if t[0] != 'field' or t[2] != name:
            return False
        b = t[1]
        taken = b[0] == 'variant' and b[2] == 'Some' and b[1][0] == 'call' and b[1][1].endswith('Option::<T>::take') and b[1][2][0] == ('field', ('field', SELF, 'ldap'), 'search_opts')
        fresh = b[0] == 'call' and b[1] == 'ldap3::search::SearchOptions::new'
        return taken or fresh
    return f

def mod_op(t, env):
    table = {'Mod::Add': 0, 'Mod::Delete': 1, 'Mod::Replace': 2, 'Mod::Increment': 3}     # RFC 4511 4.6, RFC 4525
    el = env['elems'][-1]
    excluded = set()
    for a, tr in env['pc']:
        if a[0] == 'is' and a[1] == el and a[2] in table:
            if tr:
                return t == ('lit', table[a[2]])
            excluded.add(a[2])
    rest = set(table) - excluded
    return len(rest) == 1 and t == ('lit', table[rest.pop()])
def mod_part(i):
    def f(t, env):
        el = env['elems'][-1] if i == 0 else env['elems'][-2]
        base = t
        if i == 1 and t[0] == 'call' and t[1].endswith('::from') and t[2] and t[2][0][0] == 'array' and len(t[2][0][1]) == 1:
            base = t[2][0][1][0]       # HashSet::from([val]) for Increment
        return base[0] == 'variant' and base[1] == (el if i == 0 else env['elems'][0]) and base[2].startswith('Mod::') and base[3] == i
    return f
def mod_set(t, env):
    el = env['elems'][-1]
    base = t
    if t[0] == 'call' and t[1].endswith('::from') and t[2] and t[2][0][0] == 'array' and len(t[2][0][1]) == 1:
        base = t[2][0][1][0]
    return base[0] == 'variant' and base[1] == el and base[2].startswith('Mod::') and base[3] == 1

REQUESTS = {
    'simple_bind': ('LdapOp::Single', C('A', 0, INT(lit(3)), OCT(param('bind_dn')), P('OCT', 'C', 0, param('bind_pw')))),
    'sasl_external_bind': ('LdapOp::Single', C('A', 0, INT(lit(3)), OCT(empty_vec), C('C', 3, OCT(lit('EXTERNAL')), OCT(lit(b''))))),
    'add': ('LdapOp::Single', C('A', 8, OCT(param('dn')), SEQ(MANY(param('attrs'), SEQ(OCT(elem('0')), SET(MANY(elem('1'), OCT(elem())))))))),
    'compare': ('LdapOp::Single', C('A', 14, OCT(param('dn')), SEQ(OCT(param('attr')), OCT(param('val'))))),
    'delete': ('LdapOp::Single', P('OCT', 'A', 10, param('dn'))),
    'modify': ('LdapOp::Single', C('A', 6, OCT(param('dn')), SEQ(MANY(param('mods'), SEQ(ENUM(mod_op), SEQ(OCT(mod_part(0)), SET(MANY(mod_set, OCT(elem()))))))))),
    'modifydn': ('LdapOp::Single', C('A', 12, OCT(param('dn')), OCT(param('rdn')), BOOL(param('delete_old')),
                                     OPT(is_some(param('new_sup')), P('OCT', 'C', 0, some_payload(param('new_sup'))), 'newSuperior'))),
    'extended': ('LdapOp::Single', C('A', 23, P('OCT', 'C', 0, some_payload(field_of(param('exop'), 'name'))),
                                     OPT(is_some(field_of(param('exop'), 'val')), P('OCT', 'C', 1, some_payload(field_of(param('exop'), 'val'))), 'requestValue'))),
    'unbind': ('LdapOp::Unbind', P('NULL', 'A', 2, None)),
    'abandon': ('LdapOp::Abandon', P('INT', 'A', 16, param('msgid'))),
}
def filter_src(t, env):
    return t[0] == 'variant' and t[2] == 'Ok' and t[1][0] == 'call' and t[1][1] == 'ldap3::filter::parse' and t[1][2][0] == ('param', 'filter')
SEARCH = C('A', 3, OCT(param('base')), ENUM(param('scope')), ENUM(opts_field('deref')), INT(opts_field('sizelimit')), INT(opts_field('timelimit')),
           BOOL(opts_field('typesonly')), ANY(filter_src), SEQ(MANY(param('attrs'), OCT(elem()))))

RFC_ENUMS = {
    'ldap3::search::Scope': {'Base': 0, 'OneLevel': 1, 'Subtree': 2},
    'ldap3::search::DerefAliases': {'Never': 0, 'Searching': 1, 'Finding': 2, 'Always': 3},
}

def async_root(B):
    return B.root['body'] if B.root['k'] == 'Closure' else B.root

def modifiers_consumed(st, base):
    res = {}
    for m in ('controls', 'timeout', 'search_opts'):
        v = st.heap.get(('field', base, m))
        res[m] = v == ('ctor', 'None', ())
    return res

RAW_CONTROL = 'ldap3::controls_impl::RawControl'       # public item, anchored by def-path

def many_nodes(sh):
    """the repeated-element items of a shape, at any depth"""
    out = []
    def rec(x):
        if x[0] == 'MANY':
            out.append(x); rec(x[3])
        elif x[0] == 'C':
            for y in x[3]:
                rec(y)
    rec(sh)
    return out

def check_envelope(ctx, f, R='S'):
    """The LDAPMessage envelope and control encoder (shared by C02 S13/S14 and C19's envelope clause).

    RFC 4511 4.1.1 / 4.1.11:  LDAPMessage ::= SEQUENCE { messageID, protocolOp, controls [0] Controls OPTIONAL }
                              Control ::= SEQUENCE { controlType LDAPOID, criticality BOOLEAN DEFAULT FALSE, controlValue OCTET STRING OPTIONAL }
    with the DER-style default the library uses on the wire: criticality is present exactly when it is TRUE.  What the encoder
    emits can depend on the message only through the presence conditions: the control list Some / None and, per control, crit
    true / false x val Some / None (the bool / Option fields of RawControl, read off the struct's definition).  The encoder -
    LdapCodec::encode with the per-control builder evaluated interprocedurally on one generic member of the list - is interpreted once
    per member of that finite partition, with the list's presence and the generic control's fields fixed to variant / literal
    knowledge; S13 compares the whole message of every path of every member with the envelope shape, S14 states per member of the
    control partition that there is a path and that the control's component list on it is the RFC's for that member.  Conditional
    pushes, a `match` on the pair, `vec![..]` literals per arm or an `insert` are the same thing here: every test of a fixed field
    is decided by the interpreter, nothing is read off the spelling of a path condition."""
    enc = [p for p in f.hir if p.startswith('<ldap3::protocol::LdapCodec as tokio_util::codec::encoder::Encoder<') and p.endswith('>::encode')]
    rec = f.body(anchors.one('Encoder::encode', enc))
    E = hirq.Body(f, rec)
    ctx.analysed['bodies'].add(E.path)
    # the item being encoded: the parameter of tuple type (id, protocolOp, controls), whatever it is called
    items = [(i, q) for i, q in enumerate(rec['params']) if (q.get('ty') or '').startswith('(')]
    fields = partition_fields(f, RAW_CONTROL)
    if len(items) != 1 or fields is None:
        ctx.fail('anchor-missing', 'Encoder::encode item / RawControl', loc(E.root), 'expected one tuple-typed parameter of the encoder and the struct %s' % RAW_CONTROL); return
    idx, q = items[0]
    msg = ('param', q['name']) if q.get('k') == 'Bind' and 'sub' not in q else ('param', '#%d' % idx)
    msg2 = ('field', msg, '2')
    is_val = lambda t, env: t[0] == 'field' and t[2] == 'val'
    ctl = SEQ(OCT(field_of(elem(), 'ctype')),
              OPT(lambda pc: next((t for a, t in pc if a[0] == 'field' and a[2] == 'crit'), None), BOOL(lit(True)), 'criticality'),
              OPT(is_some(is_val), OCT(some_payload(is_val)), 'controlValue'))
    is_msg2 = lambda t, env: t == msg2
    ENVELOPE = SEQ(INT(lambda t, env: strip(t) == ('field', msg, '0')), ANY(lambda t, env: t == ('field', msg, '1')),
                   OPT(is_some(is_msg2), C('C', 0, MANY(some_payload(is_msg2), ctl)), 'controls'))
    is_ctl = lambda b: b[0] == 'elem' and bool(absx.leaves(b, lambda x: x == msg2))      # a member of the message's control list
    n = 0
    for has in (False, True):
        for case in (partition_cases(fields) if has else [()]):
            hook = CaseHook(is_ctl, case)
            I = absx.Interp(f, E, unroll=1, inline=inline_policy, combinators=True, field_hook=hook)
            env = {}
            for bnd, t in I.param_env().items():
                # the item as a tuple whose third component is fixed; a signature that takes the tuple apart binds that component directly
                env[bnd] = ('tuple', (('field', msg, '0'), ('field', msg, '1'), case_value(msg, '2', 'option', has))) if t == msg \
                    else case_value(msg, '2', 'option', has) if t == msg2 else t
            outs = I.run(env=env)
            what = 'controls=None' if not has else 'controls=Some, ' + case_name(case)
            found, bad = 0, []
            for o in outs:
                wr = [e for e in o.st.ev if e[0] == 'call' and e[1].endswith('::maybe_wrap')]
                if not wr:
                    continue
                n += 1
                found += 1
                sh = to_shape(wr[0][2][1])
                # the member of the partition as path-condition atoms: about the list, and about the generic control - the term the
                # encoder read the fixed fields of and the element the repeated item runs over (an encoder that never looks at a
                # field is judged for every value of it all the same)
                ctls = hook.bases + [m[2] for m in many_nodes(sh) if m[2] not in hook.bases]
                pc = case_atoms(msg, (('2', 'option', has),)) + tuple(a for b in ctls for a in case_atoms(b, case)) + o.st.pc
                env2 = {'elems': [], 'pc': pc}
                mism = compare(sh, ENVELOPE, pc, env2)
                und = undecided_optionals(ENVELOPE, pc) if has and many_nodes(sh) else []
                if und:
                    mism = mism + ['the presence of %s is not decided for this member of the partition' % ', '.join(und)]      # (fail closed)
                ctx.add(R + '13.envelope-shape', what, loc(E.root), not mism, ('for a message with %s: ' % what) + ('; '.join(mism)[:400] or 'matches RFC 4511'))
                if has:
                    rep = many_nodes(sh)
                    if len(rep) != 1:
                        bad.append('the message does not hold one repeated element (the controls): %s' % fmt_shape(sh)[:200])
                    else:
                        bad += compare(rep[0][3], ctl, pc, {'elems': [rep[0][2]], 'pc': pc}, 'Control')
                elif many_nodes(sh):
                    bad.append('controls are encoded although the list is None: %s' % fmt_shape(sh)[:200])
            if not found:
                bad.append('no encoder path')
            want = 'no [0]' if not has else 'SEQUENCE { controlType%s%s }' % (', criticality TRUE' if dict((k, v) for k, _t, v in case).get('crit') else '',
                                                                              ', controlValue' if dict((k, v) for k, _t, v in case).get('val') else '')
            ctx.add(R + '14.control-optionality', what, loc(E.root), not bad,
                    '%s: RFC 4511 (criticality BOOLEAN DEFAULT FALSE, controlValue OPTIONAL) wants %s; %s' % (what, want, '; '.join(sorted(set(bad)))[:400]))
    ctx.floor(R + '13', 'encoder paths over the (controls, criticality, value) partition', n, 5)



def check_clone_resets(ctx, f, handle_struct):
    """M4: the per-operation modifiers belong to one handle and to its next operation.  A clone of a handle is another handle: whatever
    was staged on the original must not also go out with the clone's next operation (it would be sent twice, and on an operation
    nobody attached it to).  On every path of the handle's Clone::clone the three modifier fields of the result are None.  (The
    library's own cloning sites - streaming_search_with, the paging adapter - copy what they need explicitly and are checked as such.)"""
    cl = [p for p in f.hir if p.startswith('<' + handle_struct + ' as core::clone::Clone>::clone')]
    if len(cl) != 1:
        ctx.fail('anchor-missing', 'Clone for the handle', '', 'expected one Clone::clone for %s, found %s' % (handle_struct, cl)); return
    B = hirq.Body(f, f.hir[cl[0]])
    ctx.analysed['bodies'].add(cl[0])
    n = 0
    for o in absx.Interp(f, B, unroll=1, combinators=True, inline=lambda c: inline_policy(c) or c.startswith(handle_struct + '::')).run():
        if o.kind not in ('val', 'ret'):
            continue
        n += 1
        v = o.val
        fl = dict(v[2]) if v[0] == 'struct' else {}
        for m in ('controls', 'timeout', 'search_opts'):
            got = o.st.heap.get(('field', v, m), fl.get(m, ('unk',)))
            ctx.add('M4.cloned-handle-starts-without-modifiers', m, loc(B.root), got == ('ctor', 'None', ()),
                    'a clone of a handle inherits its pending `%s` (%s): a modifier staged for one operation also goes out with the clone\'s next operation' % (m, absx.fmt(got)[:60]))
    ctx.floor('M4', 'paths of the handle\'s Clone::clone', n, 1)

def run(ctx):
    f = ctx.facts
    Cn = anchors.Conn(f)
    OPC = Cn.op_call_path
    check_clone_resets(ctx, f, Cn.handle_struct)

    # ------------------------------------------------------------------ S1-S12, S15, M2/M3 per method
    for m, (op_variant, ref) in REQUESTS.items():
        B = hirq.Body(f, f.body(LDAP + m))
        ctx.analysed['bodies'].add(B.path)
        outs = absx.Interp(f, B, unroll=1, inline=inline_policy, combinators=True).run(root=async_root(B))
        issued = 0
        seen_opt = set()
        for o in outs:
            calls = [e for e in o.st.ev if e[0] == 'call' and e[1] == OPC]
            if o.kind not in ('val', 'ret'):
                continue
            if not calls:
                cons = modifiers_consumed(o.st, SELF)
                ctx.add('M3.rejected-operation-consumes-modifiers', '%s|%s' % (m, absx.fmt(o.val)[:40]), loc(B.root), all(cons.values()),
                        'Ldap::%s returns %s without issuing the operation and leaves modifiers set: %s' % (m, absx.fmt(o.val)[:40], [k for k, v in cons.items() if not v]))
                continue
            issued += 1
            c = calls[0]
            recv, opv, req = c[2][0], c[2][1], c[2][2]
            ctx.add('S15.op-kind', m, loc(c[3]), opv[0] == 'ctor' and opv[1] == op_variant and recv == SELF,
                    'Ldap::%s issues %s, expected %s' % (m, absx.fmt(opv)[:40], op_variant))
            if op_variant == 'LdapOp::Abandon':
                ctx.add('S15.abandon-payload', m, loc(c[3]), opv[2] == (('param', 'msgid'),), 'LdapOp::Abandon does not carry the msgid parameter')
            env = {'elems': [], 'pc': o.st.pc}
            mism = compare(to_shape(req), ref, o.st.pc, env)
            sig = ','.join(a[2].split('::')[-1] + ('' if t else '!') for a, t in o.st.pc if a[0] == 'is' and (a[2].startswith('Mod::') or a[2] in ('Some',)) and 'op_call' not in str(a))[:60]
            ctx.add('S.request-shape', '%s|%s' % (m, sig or 'plain'), loc(c[3]), not mism, '; '.join(mism)[:400] or 'matches RFC 4511')
            for r in ref[3] if ref[0] == 'C' else []:
                if r[0] == 'OPT':
                    seen_opt.add((r[3], r[1](o.st.pc)))
        ctx.add('S.request-issued', m, loc(B.root), issued >= 1, 'no path of Ldap::%s issues the operation' % m)
        for r in (ref[3] if ref[0] == 'C' else []):
            if r[0] == 'OPT':
                ctx.add('S.optional-both-ways', '%s|%s' % (m, r[3]), loc(B.root), (r[3], True) in seen_opt and (r[3], False) in seen_opt,
                        'optional element %s is not both present and absent depending on its argument' % r[3])

    # search request (start_inner)
    SI = hirq.Body(f, anchors.one('SearchStream::start_inner', [h for p, h in f.hir.items() if p.startswith('ldap3::search::SearchStream::<') and p.endswith('::start_inner')]))
    ctx.analysed['bodies'].add(SI.path)
    outs = absx.Interp(f, SI, unroll=1, inline=inline_policy, combinators=True, for_once=True).run(root=async_root(SI))
    n = 0
    for o in outs:
        calls = [e for e in o.st.ev if e[0] == 'call' and e[1] == OPC]
        if not calls or o.kind not in ('val', 'ret'):
            continue
        n += 1
        c = calls[0]
        recv, opv, req = c[2][0], c[2][1], c[2][2]
        env = {'elems': [], 'pc': o.st.pc}
        mism = compare(to_shape(req), SEARCH, o.st.pc, env)
        ctx.add('S.request-shape', 'search|%d' % n, loc(c[3]), not mism, '; '.join(mism)[:400] or 'matches RFC 4511')
        ok = opv[0] == 'ctor' and opv[1] == 'LdapOp::Search' and recv == ('field', SELF, 'ldap')
        rx = o.st.heap.get(('field', SELF, 'rx'))
        ok = ok and rx is not None and rx[0] == 'ctor' and rx[1] == 'Some' and opv[2][0][0] == 'field' and rx[2][0][0] == 'field' \
            and opv[2][0][1] == rx[2][0][1] and (opv[2][0][2], rx[2][0][2]) == ('0', '1') and opv[2][0][1][0] == 'call' and opv[2][0][1][1].endswith('unbounded_channel')
        ctx.add('S15.op-kind', 'search', loc(c[3]), ok, 'the search is not issued as LdapOp::Search(tx) with the paired rx kept in the stream')
        so = o.st.heap.get(('field', ('field', SELF, 'ldap'), 'search_opts'))
        ctx.add('M1.search-takes-options', 'search|%d' % n, loc(c[3]), so == ('ctor', 'None', ()), 'the search options are not taken out of the handle')
    ctx.floor('S', 'search request paths', n, 2)

    # enumerations
    for path, table in RFC_ENUMS.items():
        got = f.discr(path)
        ctx.add('S.enumeration', path, '', got == table, '%s = %s, RFC 4511: %s' % (path, got, table))

    check_envelope(ctx, f, 'S')

    # ------------------------------------------------------------------ M1/M2 issue point and streaming search
    O = Cn.op_call
    outs = absx.Interp(f, O, unroll=1, inline=inline_policy, combinators=True).run(root=async_root(O))
    n = 0
    for o in outs:
        sends = [e for e in o.st.ev if e[0] == 'call' and e[1].endswith('UnboundedSender::<T>::send') and e[2][0] == ('field', SELF, 'tx')]
        if not sends:
            continue
        tup = sends[0][2][1]
        ctr = tup[1][3] if tup[0] == 'tuple' and len(tup[1]) == 5 else None
        ok = ctr is not None and ctr[0] == 'call' and ctr[1].endswith('Option::<T>::take') and ctr[2][0] == ('field', SELF, 'controls')
        ctx.add('M1.controls-taken', 'op_call', loc(sends[0][3]), ok, 'the controls put on the wire are not taken (Option::take) from the handle: they would be sent again with the next operation')
        sent_ok = next((t for a, t in o.st.pc if a[0] == 'is' and a[2] == 'Ok' and a[1][0] == 'call' and a[1][1].endswith('UnboundedSender::<T>::send')), None)
        if sent_ok is not True or o.kind not in ('val', 'ret'):
            continue
        n += 1
        cons = modifiers_consumed(o.st, SELF)
        ctx.add('M2.issued-operation-consumes-modifiers', 'op_call|%s' % absx.fmt(o.val)[:30], loc(O.root), all(cons.values()),
                'after an operation was issued these modifiers are still set on the handle: %s' % [k for k, v in cons.items() if not v])
    ctx.floor('M2', 'issued paths of the operation issue point', n, 2)
    SW = hirq.Body(f, f.body(LDAP + 'streaming_search_with'))
    ctx.analysed['bodies'].add(SW.path)
    outs = absx.Interp(f, SW, unroll=1, inline=inline_policy, combinators=True).run(root=async_root(SW))
    n = 0
    for o in outs:
        if o.kind not in ('val', 'ret'):
            continue
        n += 1
        cons = modifiers_consumed(o.st, SELF)
        ctx.add('M2.streaming-search-consumes-modifiers', absx.fmt(o.val)[:30], loc(SW.root), all(cons.values()),
                'streaming_search_with leaves modifiers on the caller\'s handle: %s' % [k for k, v in cons.items() if not v])
        news = [e for e in o.st.ev if e[0] == 'call' and e[1].endswith('SearchStream::<\'a, S, A>::new')]
        ok = len(news) == 1
        if ok:
            h = news[0][2][0]      # the cloned handle value given to the stream: its fields were stored in the heap
            for mname in ('controls', 'timeout', 'search_opts'):
                v = o.st.heap.get(('field', h, mname))
                ok = ok and v is not None and v[0] == 'call' and v[1].endswith('Option::<T>::take') and v[2][0] == ('field', SELF, mname)
        ctx.add('M1.modifiers-moved-to-stream', absx.fmt(o.val)[:30], loc(SW.root), ok, 'the stream\'s handle does not receive exactly the caller\'s three modifiers')
    ctx.floor('M2', 'streaming_search_with paths', n, 1)
    for m in ('search', 'streaming_search'):
        B = hirq.Body(f, f.body(LDAP + m))
        ctx.analysed['bodies'].add(B.path)
        d = [x for x, c in walk(B.root) if x['k'] == 'MethodCall' and callee_of(x) == LDAP + 'streaming_search_with' and B.origin(x['recv']) == (SELF, ())]
        ctx.add('M2.delegates-to-streaming-search', m, loc(B.root), len(d) == 1, 'Ldap::%s does not go through streaming_search_with on the same handle' % m)
