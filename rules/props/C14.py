"""C14 - the synchronous API is observationally identical to the asynchronous one (F6 sibling delegation).

Every clause is decided on the enumerated paths of the abstract interpreter (path condition, ordered call / store / await events,
returned term), with `Runtime::block_on(fut)` and `tokio::spawn(fut)` modelled as "the future is run": an `async move { .. }`
block is evaluated where it is driven, any other future value is awaited there.  Local names, statement order of independent
`let`s, `?` versus an explicit `match`, `Result::map`, named futures and helper functions (plain or `async fn`, awaited in place or handed to block_on as a future) therefore
do not matter.  A `clone()` is its receiver only where the workspace's Clone impls make it a faithful copy (cloneid).  D is about the public
surface: a private helper of LdapConn has no sibling and is judged through its callers."""
import re
from facts import walk, callee_of, loc
import hirq, absx, sem, cloneid

EXPLANATION = ("For every LdapConn method with a same-named Ldap method, on every path: either (A) exactly one call of Ldap::<same name> on the "
               "connection's own handle with the method's own parameters in order (through at most the transparent IntoAdapterVec::into), "
               "driven by block_on on the connection's own runtime, its value returned unmodified (or wrapped "
               "into EntryStream { stream, conn: self } for the two streaming searches), nothing else done; or (B) the method has the same effects as the Ldap method's body modulo self.ldap -> self: both sides' paths are enumerated, and in every case "
               "the two have in common (every pair of paths whose conditions do not contradict each other - every prior state of the handle's fields, every argument) the ordered calls / stores / awaits, "
               "the returned value and what is left in the handle's fields are the same, where a call of a "
               "synchronous sibling LdapConn::x stands for the awaited Ldap::x; how a field is written is not read (`= Some(v)`, Option::replace / insert, mem::replace are one store; get_or_insert(v) "
               "stores only where the field was None, so with a modifier already pending the first value wins on one side and the last on the other: reported). (A) also requires that the handle's fields are left as they were (a modifier taken out before delegating). Signatures agree modulo async / SearchStream -> EntryStream. "
               "Constructors: new / with_settings / from_url (both families) amount to from_url_with_settings(settings or LdapConnSettings::new(), "
               "url or Url::parse(url)?) and return its result unmodified; LdapConn::from_url_with_settings builds a current-thread runtime with all "
               "drivers enabled, runs LdapConnAsync::from_url_with_settings(settings, url) on it - with the caller's own settings value: moved, or moved out of a `&mut` to it "
               "by mem::take / mem::replace; a clone() of it only if the crate's Clone impls make that clone a faithful copy, field by field (a hand-written Clone that answers a constant, "
               "as StdStream's, does not) -, on success spawns conn.drive() inside that runtime "
               "and keeps that runtime and the returned handle, on failure returns the error unmodified and spawns nothing. "
               "EntryStream::next/result/last_id delegate to SearchStream::next/finish/ldap_handle().last_id(); the two stream wrappers are evaluated from every value of the stream's state "
               "(the stream's `&self` accessors evaluated), and a path that answers by itself is accepted exactly when the asynchronous method, entered with the same state under the same tests, returns the same value "
               "on every path and does nothing. Decided completely for what the type "
               "checker cannot see: swapped same-typed arguments, a wrong same-typed method, a dropped or altered modifier.")
TRUSTED = ['tokio current-thread runtime block_on returns the future\'s output',
           'Clone::clone of a type defined outside the workspace is a faithful copy when the clones of its type arguments are (std\'s Clone contract); Clone impls of the workspace are evaluated (rules/cloneid.py)']
UNDECIDED = ['behaviour of the private current-thread runtime (tokio)']
ASSUMPTIONS = []
CONFIGS = ['default', 'rustls', 'gssapi']      # the `sync` feature is off in the no-default-features configuration

SYNC = 'ldap3::sync::LdapConn::'
ASYNC = 'ldap3::ldap::Ldap::'
AC = 'ldap3::conn::LdapConnAsync::'
CTORS = ('new', 'with_settings', 'from_url', 'from_url_with_settings')
SETTINGS_NEW = 'ldap3::conn::LdapConnSettings::new'
URL_PARSE = 'url::Url::parse'
BUILDER = 'tokio::runtime::builder::Builder::'
SPAWN = 'tokio::task::spawn::spawn'
SELF = ('param', 'self')
LDAP = ('field', SELF, 'ldap')


# ---------------------------------------------------------------------------------------
# library models: driving a future

def run_future(I, fut, st, node):
    """Driving a future to completion: an `async move { .. }` block (wherever it was created and however it was named) is evaluated
    where it is driven; any other future value - the value of an `async fn` call - is awaited there."""
    if fut[0] == 'closure':
        return I.apply_closure(fut, [('unk', 'cx')], st, node)
    return [absx.Out('val', ('await', fut), st.event(('await', fut, node)))]

def block_on_summary(I, cal, args, node, st):
    """Runtime::block_on(fut) runs the future on the runtime; the value is what an asynchronous caller would get from `.await`.
    What happens between the `block_on` and `block_on-end` events happens inside the runtime context."""
    if cal.endswith('Runtime::block_on') and len(args) == 2:
        s1 = st.event(('block_on', args[0], node))
        return [absx.Out('val', o.val, o.st.event(('block_on-end', args[0], node))) if o.kind == 'val' else o for o in run_future(I, args[1], s1, node)]
    return None

def spawn_summary(I, cal, args, node, st):
    """tokio::spawn(fut): the task runs the future concurrently; what it does is recorded, per path of the future, in one `spawn` event."""
    if cal == SPAWN and len(args) == 1:
        n0 = len(st.ev)
        rec = tuple((o.kind, o.val, o.st.ev[n0:]) for o in run_future(I, args[0], st, node))
        return [absx.Out('val', ('call', cal, tuple(args), node.get('id')), st.event(('spawn', rec, node)))]
    return None

SUMMARIES = [block_on_summary, spawn_summary]


# ---------------------------------------------------------------------------------------
# terms

def call_term(c):
    """The term the interpreter gave to the call event c = (index, callee, args, node)."""
    i, cal, args, node = c
    return ('call', cal, tuple(args), None if cal.rsplit('::', 1)[-1] in absx.PURE_OBSERVERS else node.get('id'))

def map_term(t, fn):
    if isinstance(t, tuple):
        if t and isinstance(t[0], str):
            r = fn(t)
            if r is not None:
                return r
        return tuple(map_term(x, fn) for x in t)
    return t

FROM_IMPL = re.compile(r'^<.+ as core::convert::(From|Into)<.+>>::(from|into)$')

def canon_result(v):
    """A Result-valued term as ('ok', payload) / ('err', payload) / ('res', term).  The error conversion of `?` is not shown: `x?` on a
    failed x, `Err(e) => return Err(e)`, `Err(e) => Err(From::from(e))` and `Err(e) => Err(e.into())` all give ('err', x.Err#0) - the types
    of the two ends determine the (unique) From impl, so spelling it out or not is the same conversion."""
    if v[0] == 'ctor' and v[1] == 'Ok' and len(v[2]) == 1:
        return ('ok', v[2][0])
    if v[0] == 'ctor' and v[1] == 'Err' and len(v[2]) == 1:
        return ('err', err_payload(v[2][0]))
    if v[0] == 'tryerr':
        c = canon_result(v[1])
        if c[0] == 'err':
            return c
        if c[0] == 'res':
            return ('err', ('variant', c[1], 'Err', 0))
    return ('res', v)

def err_payload(p):
    while p[0] == 'call' and len(p[2]) == 1 and (FROM_IMPL.match(p[1]) or p[1] in hirq.TRANSPARENT_CALLS):
        p = p[2][0]
    if p[0] == 'variant' and p[2] == 'Err' and p[3] == 0:
        c = canon_result(p[1])
        if c[0] == 'err':
            return c[1]
    return p

def unmodified(v, o, base):
    """The path returns the Result `base` as it is: the term itself, or taken apart and put together again with the same payload
    (`Ok(x) => Ok(x)`, `Err(e) => Err(e)`, the propagation of its error by `?`) on a path that tested it accordingly."""
    if v == base:
        return True
    c = canon_result(v)
    is_base = lambda x: x == base
    if c == ('ok', ('variant', base, 'Ok', 0)):
        return sem.succeeded(o, is_base)
    if c == ('err', ('variant', base, 'Err', 0)):
        return sem.failed(o, is_base)
    return False

def wraps_stream(v, o, res):
    """v is Ok(EntryStream { stream: <Ok payload of res>, conn: self }) on a path where res succeeded."""
    c = canon_result(v)
    if c[0] == 'ok' and c[1][0] == 'struct' and c[1][1] == 'sync::EntryStream' and c[1][3] is None:
        fl = dict(c[1][2])
        return set(fl) == {'stream', 'conn'} and fl['stream'] == ('variant', res, 'Ok', 0) and fl['conn'] == SELF and sem.succeeded(o, lambda x: x == res)
    return False

def not_the_value(f, o, a, want):
    """Why the argument term `a` is not the caller's value `want`, when it is a clone of it: the clone of a type is that value only
    if every Clone impl involved is a faithful copy, which cloneid decides from the crate's Clone impls.  (A move, or the value moved
    out of a `&mut` to it by mem::take / mem::replace, *is* the value: the interpreter yields `want` itself for those.)"""
    for i, cal, args, node in sem.calls(o, lambda c: c.rsplit('::', 1)[-1] in cloneid.CLONING_METHODS):
        if call_term((i, cal, args, node)) == a and tuple(args) == (want,):
            return '; it receives %s.%s(), and %s' % (absx.fmt(want), cal.rsplit('::', 1)[-1], cloneid.why(f, node.get('ty') or '') or 'that clone is not shown to be the identity')
    return ''

def own_params(B):
    return [t for i, t in sorted((d['idx'], ('param', d['name'])) for b, d in B.defs.items() if d['kind'] == 'param' and not d['proj'])]

def is_async_fn(f, p):
    return f.hir[p]['body'].get('k') == 'Closure' and 'async fn body' in (f.hir[p]['body'].get('ty') or '')

def builds_a_value_only(f, cal, _busy=()):
    """The crate function `cal` takes no argument and, on every path, does nothing but put a value together: no store, no task, no
    call other than of functions of the same kind (`Default::default()` of the primitive types and of Option is a constant).  Calling
    it is not an effect (`LdapConnSettings::new()` as the value left behind by a mem::replace).  Decided on its body, on every run."""
    cache = f.__dict__.setdefault('_c14_value_only', {})
    if cal in cache:
        return cache[cal]
    it = f.items.get(cal) or {}
    if cal in _busy or cal not in f.hir or it.get('inputs') or it.get('asyncness'):
        return False
    try:
        outs, _I = sem.paths(f, hirq.Body(f, f.hir[cal]), summaries=[sem.primitive_defaults], combinators=True)
    except absx.TooManyPaths:
        return False
    ok = bool(outs)
    for o in outs:
        ok = ok and o.kind in ('val', 'ret')
        for e in o.st.ev:
            if e[0] in SKIP_EVENTS:
                continue
            ok = ok and e[0] == 'call' and not e[2] and builds_a_value_only(f, e[1], _busy + (cal,))
    if not _busy:
        cache[cal] = ok
    return ok

def effects(o, allowed=(), f=None, heap0=None):
    """What a path does besides the allowed calls: stores, spawned tasks, calls into the crate (other than of a function that only
    puts a value together, when the facts are given) - and whatever else it leaves changed in a field (a modifier taken out of the
    handle by Option::take / mem::take before delegating is not a `store`, but the handle is not what it was: left_behind)."""
    ex = [absx.fmt(e[1])[:40] for e in o.st.ev if e[0] in ('store', 'store-unknown')]
    ex += ['%s := %s' % (absx.fmt(k)[:40], absx.fmt(v)[:30]) for k, v in sorted(left_behind(o, heap0=heap0), key=str) if absx.fmt(k)[:40] not in ex]
    ex += ['spawn'] * len([e for e in o.st.ev if e[0] == 'spawn' and 'spawn' not in allowed])
    ex += [c[1] for c in sem.calls(o, lambda c: (c.startswith('ldap3::') or c.startswith('<ldap3::')) and c not in allowed and not hirq.is_transparent(c)
                                           and not FROM_IMPL.match(c))      # the conversion `?` applies, spelled out
           if not (f is not None and not c[2] and builds_a_value_only(f, c[1]))]
    return ex


# ---------------------------------------------------------------------------------------

def run(ctx):
    f = ctx.facts
    sync_methods = sorted(p[len(SYNC):] for p in f.hir if p.startswith(SYNC) and '::' not in p[len(SYNC):])
    n_deleg = 0
    for m in sync_methods:
        if m in CTORS:
            continue
        sp = SYNC + m
        ap = ASYNC + m
        B = hirq.Body(f, f.hir[sp])
        ctx.analysed['bodies'].add(sp)
        if ap not in f.hir and (f.items.get(sp) or {}).get('vis') != 'pub':
            # D is about the public LdapConn surface.  A private helper of the synchronous module has no sibling to agree with: what it
            # does is judged where it is used - expanded into its callers at fact load when it is new, and otherwise an effect of its
            # own (`effects`: a call into the crate that is not the sibling) in every public method that calls it
            ctx.note('private LdapConn::%s has no asynchronous sibling: judged through its callers' % m)
            continue
        if ap not in f.hir:
            ctx.fail('D.sibling-exists', m, loc(B.root), 'LdapConn::%s has no same-named Ldap method' % m)
            continue
        n_deleg += 1
        check_signature(ctx, f, m, sp, ap)
        # either of the two (sound) criteria suffices: a body that calls the sibling is held to (A); any other body to (B), and if
        # that fails for a body that drives a future, (A) says what is wrong with it as a delegation
        blocks = any(n['k'] in ('Call', 'MethodCall') and (callee_of(n) or '').endswith('Runtime::block_on') for n, c in walk(B.root))
        calls_sibling = any(n['k'] in ('Call', 'MethodCall') and callee_of(n) == ap for n, c in walk(B.root))
        if calls_sibling:
            check_delegation(ctx, f, B, m, ap, LDAP, ('field', SELF, 'rt'))
        elif not check_same_behaviour(ctx, f, B, m, sp, ap, report=not blocks) and blocks:
            check_delegation(ctx, f, B, m, ap, LDAP, ('field', SELF, 'rt'))
    ctx.floor('D', 'LdapConn operation/accessor/modifier methods', n_deleg, 19)

    # ---- constructors
    check_ctors(ctx, f)

    # ---- EntryStream
    es = {q.rsplit('::', 1)[-1]: q for q in f.hir if re.match(r'^ldap3::sync::EntryStream::<[^<>]*>::\w+$', q)}
    pairs = {'next': 'next', 'result': 'finish'}
    n_es = 0
    for m, target in pairs.items():
        p = es.get(m)
        if p is None:
            ctx.fail('anchor-missing', 'EntryStream::' + m, '', 'public method not found'); continue
        B = hirq.Body(f, f.hir[p])
        ctx.analysed['bodies'].add(p)
        n_es += 1
        tp = [q for q in f.hir if q.startswith('ldap3::search::SearchStream::<') and q.endswith('::' + target)]
        if len(tp) != 1:
            ctx.fail('anchor-missing', 'SearchStream::' + target, '', 'async sibling not found'); continue
        check_delegation(ctx, f, B, m, tp[0], ('field', SELF, 'stream'), ('field', ('field', SELF, 'conn'), 'rt'), rule='E')
    p = es.get('last_id')
    if p is not None:
        B = hirq.Body(f, f.hir[p])
        ctx.analysed['bodies'].add(p)
        n_es += 1
        louts, _I = sem.paths(f, B, summaries=SUMMARIES, combinators=True)
        ok = bool(louts)
        for o in louts:
            v = sem.strip_site(o.val) if o.kind in ('val', 'ret') else ('unk',)
            ok = ok and v[0] == 'call' and v[1] == ASYNC + 'last_id' and len(v[2]) == 1 and v[2][0][0] == 'call' and v[2][0][1].endswith('::ldap_handle') \
                and v[2][0][2] == (('field', SELF, 'stream'),) and not [e for e in o.st.ev if e[0] in ('store', 'store-unknown', 'spawn', 'block_on')]
        ctx.add('E.delegates', 'last_id', loc(B.root), ok, 'EntryStream::last_id is not self.stream.ldap_handle().last_id()')
    ctx.floor('E', 'EntryStream delegations', n_es, 3)


def check_delegation(ctx, f, B, m, ap, recv_place, rt_place, rule='D'):
    """Path-level: every path makes exactly one call of the asynchronous sibling, on the right receiver, with the method's own
    parameters in order, drives it on the right runtime, and returns what that call produced (unmodified, or wrapped as
    EntryStream { stream, conn: self } for the streaming searches), with no other effect."""
    # (E) the stream wrappers: the sibling's receiver has a finite state (the field of the stream whose type is a fieldless enum), so
    # the wrapper is evaluated once from each value of it - a test of the state is then decided, however it is spelled - with the
    # stream's own `&self` accessors evaluated (state() is a read of that field, not an effect)
    dom = sem.finite_state_field(f, ap) if rule == 'E' else None
    if dom is not None:
        own_ty = (f.items.get(ap) or {}).get('impl_self')
        def accessor(cal):
            it = f.items.get(cal) or {}
            return cal != ap and cal in f.hir and it.get('impl_self') == own_ty and not it.get('asyncness') and bool(it.get('inputs')) and it['inputs'][0].startswith('&') and not it['inputs'][0].startswith('&mut ')
        outs = []
        for val in dom[1]:
            I = absx.Interp(f, B, summaries=SUMMARIES, combinators=True, inline=accessor)
            outs += [(val, o) for o in I.run(root=sem.entry(B), heap={('field', recv_place, dom[0]): val}) if o.kind in ('val', 'ret', 'div', 'loop')]
    else:
        outs = [(None, o) for o in sem.paths(f, B, summaries=SUMMARIES, combinators=True)[0]]
    params = own_params(B)[1:]
    is_async = is_async_fn(f, ap)
    short = ap.rsplit('::', 1)[-1]
    family = ap.rsplit('::', 1)[0] + '::'
    n = 0
    for state, o in outs:
        heap0 = {('field', recv_place, dom[0]): state} if state is not None else None       # (the state the evaluation was entered with)
        if o.kind not in ('val', 'ret'):
            ctx.fail(rule + '.delegates', m, loc(B.root), 'a path of %s does not return (%s)' % (m, o.kind)); continue
        n += 1
        cs = sem.calls(o, lambda c: c == ap)
        if not cs and state is not None and not sem.calls(o, lambda c: c.startswith(family) and not accessor(c)):
            # a path of the wrapper that answers by itself.  Acceptable exactly when the sibling, entered in the case the path
            # selects - this value of the state, and whatever else the path tested, carried over as assumptions about the sibling's
            # own receiver -, returns the same value on every path and does nothing: then the test is the sibling's own first test
            # made early.  Otherwise the wrapper answers where the asynchronous method would have gone on
            same, diff = pretest_agrees(f, ap, recv_place, dom[0], state, o)
            extra = effects(o, heap0=heap0)
            ctx.add(rule + '.pre-test-agrees-with-sibling', '%s|%s' % (m, state[1].rsplit('::', 1)[-1]), loc(B.root), same and not extra,
                    '%s answers %s by itself, without calling its sibling %s, on a path with state %s%s; %s' % (
                        m, absx.fmt(o.val)[:40], short, state[1].rsplit('::', 1)[-1],
                        ''.join(' and %s%s' % ('' if t else 'not ', absx.fmt(a)[:60]) for a, t in o.st.pc),
                        ('entered in that case the sibling ' + diff) if not same else 'the wrapper does something else besides: %s' % extra[:3]))
            continue
        if len(cs) != 1:
            others = sorted({c[1] for c in sem.calls(o, lambda c: c.startswith(family) and c != ap)})
            if not cs and others:
                ctx.fail(rule + '.callee', m, loc(B.root), '%s runs %s instead of its sibling %s' % (m, ', '.join(x.rsplit('::', 1)[-1] for x in others), short))
            else:
                ctx.fail(rule + '.delegates', m, loc(B.root), 'a path of %s calls %s %d times' % (m, short, len(cs)))
            continue
        i, cal, args, node = cs[0]
        ctx.add(rule + '.callee', m, loc(node), True, '')
        ctx.add(rule + '.receiver', m, loc(node), args[0] == recv_place, 'the delegate call is made on %s, not on %s' % (absx.fmt(args[0])[:60], absx.fmt(recv_place)))
        ctx.add(rule + '.arguments-in-order', m, loc(node), list(args[1:]) == params,
                'arguments passed to %s are %s, expected the parameters in order %s' % (short, [absx.fmt(a)[:30] for a in args[1:]], [absx.fmt(p) for p in params]))
        bos = [(j, e) for j, e in enumerate(o.st.ev) if e[0] == 'block_on']
        ends = [j for j, e in enumerate(o.st.ev) if e[0] == 'block_on-end']
        call_t = call_term(cs[0])
        if is_async:
            aws = [j for j, t, nd in sem.awaits(o) if t == call_t]
            ok = len(bos) == 1 and bos[0][1][1] == rt_place and len(aws) == 1 and len(ends) == 1 and bos[0][0] < aws[0] < ends[0]
            ctx.add(rule + '.own-runtime', m, loc(node), ok, 'the future is not driven (exactly once) on %s' % absx.fmt(rt_place))
            res = ('await', call_t)
        else:
            ctx.add(rule + '.own-runtime', m, loc(node), not bos, 'a synchronous sibling needs no runtime')
            res = call_t
        v = o.val
        ok = unmodified(v, o, res) or (not is_async and v == SELF and recv_place[0] == 'field') or wraps_stream(v, o, res)
        ctx.add(rule + '.returns-result', m, loc(B.root), ok, 'the value of the delegate call is not returned unmodified (or wrapped as EntryStream { stream, conn: self }): %s' % absx.fmt(v)[:100])
        extra = effects(o, allowed=(ap,), heap0=heap0)
        ctx.add(rule + '.no-extra-effects', m, loc(B.root), not extra, '%s does something besides delegating: %s' % (m, extra[:3]))
    ctx.add(rule + '.delegates', m + '|paths', loc(B.root), n >= 1, 'no path of %s returns' % m)


def pretest_agrees(f, ap, recv_place, state_field, state, o):
    """Does the sibling `ap`, entered with its receiver in `state` and under the wrapper path's condition (atoms about the wrapper's
    stream carried over to the sibling's `self`), return the wrapper path's value on every path, with no effect?  -> (bool, why not)"""
    AB = hirq.Body(f, f.hir[ap])
    to_callee = lambda t: map_term(t, lambda x: SELF if x == recv_place else None)
    pc = tuple((to_callee(a), t) for a, t in o.st.pc)
    I = absx.Interp(f, AB, summaries=SUMMARIES, combinators=True)
    st = absx.St(I.param_env(), {('field', SELF, state_field): state}, (), pc)
    want = to_callee(o.val)
    n = 0
    for c in I.ev(sem.entry(AB), st):
        n += 1
        did = [e for e in c.st.ev if e[0] not in SKIP_EVENTS and not (e[0] == 'call' and e[1].rsplit('::', 1)[-1] in absx.PURE_OBSERVERS)]      # (reading a length is not doing something)
        if did:
            e = did[0]
            return False, 'goes on: %s %s' % (e[0], (e[1] if isinstance(e[1], str) else absx.fmt(e[1]))[:70])
        if c.kind not in ('val', 'ret') or sem.strip_site(c.val) != sem.strip_site(want):
            return False, 'ends with %s %s' % (c.kind, absx.fmt(c.val)[:60])
    return n > 0, 'has no path'

# ---------------------------------------------------------------------------------------
# (B) same behaviour as the asynchronous body

SKIP_EVENTS = ('log', 'try-err', 'assign-local', 'loop-carried')

def norm_paths(f, B, side):
    """The paths of a body as comparable records (kind, condition, events, value).
    side 'async': `self` is written as the synchronous side sees it (`self.ldap`).
    side 'sync' : a call of a synchronous sibling LdapConn::x(self, ..) stands for what that sibling is (separately) shown to be, the
    awaited Ldap::x(self.ldap, ..); block_on markers are dropped (the runtime must be the connection's own)."""
    outs, _I = sem.paths(f, B, summaries=SUMMARIES, combinators=True)
    def tr(t):
        t = sem.strip_site(t)
        if side == 'async':
            return map_term(t, lambda x: LDAP if x == SELF else None)
        def sib(x):
            if x[0] == 'call' and x[1].startswith(SYNC) and ASYNC + x[1][len(SYNC):] in f.hir and x[2] and x[2][0] == SELF:
                ap = ASYNC + x[1][len(SYNC):]
                c = ('call', ap, (LDAP,) + tuple(map_term(a, sib) for a in x[2][1:]), None)
                return ('await', c) if is_async_fn(f, ap) else c
            return None
        return map_term(t, sib)
    recs = []
    for o in outs:
        evs = []
        foreign = False
        for e in o.st.ev:
            if e[0] in SKIP_EVENTS or e[0] == 'block_on-end':
                continue
            if e[0] == 'block_on':
                foreign = foreign or e[1] != ('field', SELF, 'rt')
                continue
            if e[0] == 'call' and e[1].startswith('core::mem::') and any(e2[0] == 'store' and e2[-1] is e[-1] for e2 in o.st.ev):
                continue        # mem::replace(&mut place, v): all it does is the store the interpreter recorded for it (the next event)
            if e[0] == 'call':
                t = tr(('call', e[1], tuple(e[2]), None))
                if t[0] == 'await':
                    evs.append(('call', t[1][1], t[1][2])); evs.append(('await', t[1]))
                else:
                    evs.append(('call', t[1], t[2]))
            elif e[0] == 'spawn':
                evs.append(('spawn', tuple((k, tr(v)) for k, v, _ev in e[1])))
            else:
                evs.append((e[0],) + tuple(tr(x) for x in e[1:-1] if isinstance(x, tuple)))
        if foreign:
            evs.append(('foreign-runtime',))
        kind = 'return' if o.kind in ('val', 'ret') else o.kind
        v = o.val
        if kind == 'return':
            # a Result handed on piecewise is the Result itself; so is (on the synchronous side) the Result of a stream whose Ok payload
            # is wrapped as EntryStream { stream, conn: self } - the signatures say where that wrapping is due
            for b in absx.leaves(v, lambda x: x[0] in ('await', 'call')):
                if unmodified(v, o, b) or (side == 'sync' and wraps_stream(v, o, b)):
                    v = b; break
        pc = frozenset((tr(a), t) for a, t in o.st.pc)
        recs.append((kind, pc, tuple(evs), tr(v), left_behind(o, tr)))
    # two paths that differ only in the outcome of one test and do the same thing are one path without that test
    changed = True
    while changed:
        changed = False
        for i in range(len(recs)):
            for j in range(i + 1, len(recs)):
                a, b = recs[i], recs[j]
                if a[0] == b[0] and a[2] == b[2] and a[3] == b[3] and a[4] == b[4]:
                    d = a[1] ^ b[1]
                    if len(d) == 2 and len({x[0] for x in d}) == 1:
                        recs[i] = (a[0], a[1] & b[1], a[2], a[3], a[4])
                        del recs[j]
                        changed = True
                        break
            if changed:
                break
    return recs

def left_behind(o, tr=lambda t: t, heap0=None):
    """What a path leaves in the places it wrote: {place: value} for every field place whose value at the end of the path is not
    what it was at its start (heap0: the places the evaluation was entered with).  However the write is spelled - an assignment,
    Option::replace / insert / get_or_insert / take, mem::replace / mem::take - the interpreter's heap holds the outcome."""
    heap0 = heap0 or {}
    return frozenset((tr(k), tr(v)) for k, v in o.st.heap.items() if k[0] == 'field' and v != k and heap0.get(k) != v)

def fmt_rec(r):
    kind, pc, evs, v = r[:4]
    return '%s %s after [%s]%s' % (kind, absx.fmt(v)[:80], '; '.join('%s %s' % (e[0], ' '.join(absx.fmt(x)[:50] if isinstance(x, tuple) else str(x).rsplit('::', 1)[-1] for x in e[1:])) for e in evs)[:160],
                                  (' if ' + ', '.join(('' if t else 'not ') + absx.fmt(a)[:40] for a, t in sorted(pc, key=str))) if pc else '')

def explain_difference(m, r, x):
    """One case in which the synchronous path r and the asynchronous path x differ, in words: the prior state (what the two paths
    tested), then what differs - what is left in a field of the handle first, as that is what the next operation will see."""
    if r is None or x is None:
        return ('sync only: ' + fmt_rec(r)) if x is None else ('async only: ' + fmt_rec(x))
    def case_text(pc):
        out = []
        for at, t in sorted(pc, key=str):
            if at[0] == 'is' and at[2] == 'Some':
                out.append('%s %s' % (absx.fmt(at[1])[:50], 'already set (Some)' if t else 'not set (None)'))
            else:
                out.append(('' if t else 'not ') + absx.fmt(at)[:50])
        return ('with ' + ' and '.join(out) + ' ') if out else ''
    case = case_text(r[1] | x[1])
    ls, la = dict(r[4]), dict(x[4])
    for P in sorted(set(ls) | set(la), key=str):
        if ls.get(P) != la.get(P):
            say = lambda v, who: ('%s keeps the earlier value of %s' % (who, absx.fmt(P)) if any(at == ('is', P, 'Some') and t for at, t in r[1] | x[1]) else '%s leaves %s as it was' % (who, absx.fmt(P))) if v is None \
                else '%s leaves %s = %s' % (who, absx.fmt(P), absx.fmt(v)[:60])
            return '%s%s, %s: after the call the two handles are not in the same state (the next operation runs with different %s)' % (
                case, say(ls.get(P), 'the sync method'), say(la.get(P), 'the async one'), P[2] if P[0] == 'field' else 'settings')
    return '%ssync: %s | async: %s' % (case, fmt_rec(r), fmt_rec(x))

def check_same_behaviour(ctx, f, B, m, sp, ap, report=True):
    """(B) the synchronous method does, path by path, what the asynchronous body does on the connection's handle."""
    try:
        s = norm_paths(f, B, 'sync')
        a = norm_paths(f, hirq.Body(f, f.hir[ap]), 'async')
    except absx.TooManyPaths:
        if report:
            ctx.fail('D.same-body', m, loc(B.root), 'LdapConn::%s / Ldap::%s have too many paths to compare' % (m, m))
        return False
    ctx.analysed['bodies'].add(ap)
    def rel(sv, av):
        # `&mut Self` is returned by both: the connection here, its handle there
        return sv == av or (sv == SELF and av == LDAP)
    # Both sides enumerate *all* their paths, so each side's path conditions cover every prior state of the handle and every
    # argument.  A synchronous path and an asynchronous one whose conditions do not contradict each other (no atom taken one way
    # here and the other way there) describe a common case, and in that case they must do the same: the same ordered events, the same
    # value returned, the same values left in the handle's fields.  (A side that does not test what the other tests is compatible
    # with both outcomes and has to agree with both: `replace(v)` - no test - agrees with `= Some(v)`; `get_or_insert(v)` - one
    # path per case of the field - agrees with it only where the field was None.)
    def compatible(p, q):
        return not any((at, not t) in q for at, t in p)
    def same(r, x):
        return r[0] == x[0] and r[2] == x[2] and rel(r[3], x[3]) and r[4] == x[4]
    diffs = []
    for r in s:
        cands = [x for x in a if compatible(r[1], x[1])]
        if not cands:
            diffs.append((r, None))
        diffs.extend((r, x) for x in cands if not same(r, x))
    for x in a:
        if not any(compatible(r[1], x[1]) for r in s):
            diffs.append((None, x))
    ok = bool(s) and bool(a) and not diffs
    detail = ''
    if not ok:
        detail = 'LdapConn::%s is neither a delegation to Ldap::%s nor does it do the same as its body (modulo self.ldap): ' % (m, m)
        if diffs:
            detail += explain_difference(m, *diffs[0])
        else:
            detail += 'one of the two has no path'
    if ok or report:
        ctx.add('D.same-body', m, loc(B.root), ok, detail[:600])
    return ok


# ---------------------------------------------------------------------------------------

def norm_ty(t):
    t = re.sub(r"ldap3::search::SearchStream<[^<>]*>", 'STREAM', t)
    t = re.sub(r"ldap3::sync::EntryStream<[^<>]*>", 'STREAM', t)
    t = re.sub(r"&'[a-z_0-9]+ ", '&', t)
    t = t.replace('ldap3::sync::LdapConn', 'SELF').replace('ldap3::ldap::Ldap', 'SELF')
    m = re.match(r'impl core::future::future::Future<Output = (.*)>$', t)
    if m:
        t = m.group(1)
    return t

def check_signature(ctx, f, m, sp, ap):
    si, ai = f.items.get(sp), f.items.get(ap)
    if not si or not ai:
        ctx.fail('D.signature', m, '', 'signature facts missing'); return
    ok = [norm_ty(x) for x in si['inputs']] == [norm_ty(x) for x in ai['inputs']] and norm_ty(si['output']) == norm_ty(ai['output']) \
        and si['vis'] == 'pub'
    ctx.add('D.signature', m, '', ok, 'LdapConn::%s%s -> %s differs from Ldap::%s%s -> %s' % (m, si['inputs'], si['output'], m, ai['inputs'], ai['output']))


# ---------------------------------------------------------------------------------------
# constructors

def ctor_spec(f, p):
    """What a constructor of either family amounts to, read off its signature: from_url_with_settings(S, U) with
    S = its settings parameter, or LdapConnSettings::new() if it has none; U = its url parameter, parsed if it is a string."""
    it = f.items.get(p)
    B = hirq.Body(f, f.body(p))
    ps = own_params(B)
    S, U = ('call', SETTINGS_NEW, (), None), None
    if it is None or len(it['inputs']) != len(ps):
        return None
    for ty, t in zip(it['inputs'], ps):
        ty = re.sub(r"&'[a-z_0-9]+ ", '&', ty)
        if ty == 'ldap3::conn::LdapConnSettings':
            S = t
        elif ty == '&url::Url':
            U = t
        elif ty == '&str':
            U = ('parsed', t)
        else:
            return None
    return (S, U) if U is not None else None

def check_delegating_ctor(ctx, f, kind, prefix, name):
    """new / with_settings / from_url: on every path the url string (if the constructor takes one) is parsed once; if that fails its error
    is returned (through `?`'s conversion) and nothing else happens; otherwise exactly one constructor of the same family that is nearer
    to from_url_with_settings is called with arguments that make it amount to the same from_url_with_settings(S, U), and its result is
    returned unmodified."""
    rule = 'T.' + name
    p = prefix + name
    B = hirq.Body(f, f.body(p))
    ctx.analysed['bodies'].add(p)
    spec = ctor_spec(f, p)
    if spec is None:
        ctx.fail(rule, kind, loc(B.root), 'the signature of %s is not (settings?, url)' % name); return
    rank = {'new': 0, 'with_settings': 1, 'from_url': 1, 'from_url_with_settings': 2}
    outs, _I = sem.paths(f, B, summaries=SUMMARIES, combinators=True)
    bad = []
    n = 0
    for o in outs:
        if o.kind not in ('val', 'ret'):
            bad.append('a path does not return (%s)' % o.kind); continue
        n += 1
        parses = sem.calls(o, lambda c: c == URL_PARSE)
        dels = sem.calls(o, lambda c: c.startswith(prefix) and c[len(prefix):] in rank)
        extra = effects(o, allowed=tuple(prefix + x for x in rank) + (SETTINGS_NEW,))
        if extra:
            bad.append('does something besides delegating: %s' % extra[:3])
        parsed = {}
        failed_parse = None
        for c in parses:
            t = call_term(c)
            if len(c[2]) != 1 or sem.strip_site(c[2][0]) in [sem.strip_site(x) for x in parsed.values()]:
                bad.append('the url is parsed more than once')
            if sem.succeeded(o, lambda x: x == t):
                parsed[('variant', t, 'Ok', 0)] = c[2][0]
            elif sem.failed(o, lambda x: x == t):
                failed_parse = t
            else:
                bad.append('the result of Url::parse is used without being examined')
        if failed_parse is not None:
            if dels:
                bad.append('a constructor is called although the url did not parse')
            if not unmodified(o.val, o, failed_parse):
                bad.append('the error of Url::parse is not returned as it is: %s' % absx.fmt(o.val)[:60])
            continue
        if len(dels) != 1:
            bad.append('a path calls %d constructors of its family' % len(dels)); continue
        i, cal, args, node = dels[0]
        dname = cal[len(prefix):]
        dspec = ctor_spec(f, cal)
        if rank[dname] <= rank[name] or dspec is None:
            bad.append('delegates to %s, which is not nearer to from_url_with_settings' % dname); continue
        # instantiate the delegate's (S, U) with the actual arguments
        dB = hirq.Body(f, f.body(cal))
        actual = dict(zip(own_params(dB), args))
        def inst(t):
            t = map_term(t, lambda x: actual.get(x))
            t = map_term(t, lambda x: ('parsed', parsed[x]) if x in parsed else None)
            return sem.strip_site(t)
        got = (inst(dspec[0]), inst(dspec[1]))
        if got != spec:
            bad.append('%s(%s) amounts to from_url_with_settings(%s, %s), expected (%s, %s)%s' % (dname, ', '.join(absx.fmt(a)[:30] for a in args), absx.fmt(got[0])[:40], absx.fmt(got[1])[:40],
                                                                                              absx.fmt(spec[0]), absx.fmt(spec[1]),
                                                                                              ''.join(not_the_value(f, o, a, x) for a in args for x in spec if isinstance(x, tuple) and a != x)))
        call_t = call_term(dels[0])
        if is_async_fn(f, cal):
            if len([1 for j, t, nd in sem.awaits(o) if t == call_t]) != 1:
                bad.append('the future of %s is not awaited (once)' % dname)
            res = ('await', call_t)
        else:
            res = call_t
        if not unmodified(o.val, o, res):
            bad.append('the result of %s is not returned unmodified: %s' % (dname, absx.fmt(o.val)[:80]))
    if not n:
        bad.append('no path returns')
    text = {'new': 'new(url) is not with_settings(LdapConnSettings::new(), url)', 'from_url': 'from_url(url) is not from_url_with_settings(LdapConnSettings::new(), url)',
            'with_settings': 'with_settings(settings, url) is not from_url_with_settings(settings, &Url::parse(url)?)'}[name]
    ctx.add(rule, kind, loc(B.root), not bad, '%s: %s' % (text, '; '.join(sorted(set(bad)))[:500]))

def builder_root(t):
    """The Builder a term denotes: the configuration methods of tokio's runtime Builder return the builder they are called on."""
    while t[0] == 'call' and t[1].startswith(BUILDER) and t[1] != BUILDER + 'new_current_thread' and t[2]:
        t = t[2][0]
    return t

def check_sync_from_url_with_settings(ctx, f):
    p, dp = SYNC + 'from_url_with_settings', AC + 'from_url_with_settings'
    B = hirq.Body(f, f.body(p))
    ctx.analysed['bodies'].add(p)
    outs, _I = sem.paths(f, B, summaries=SUMMARIES, combinators=True)
    params = own_params(B)
    rules = ('runtime', 'delegates', 'drives', 'keeps-handle', 'error-unmodified', 'no-extra-effects')
    bad = {r: [] for r in rules}
    n_ok = 0
    for o in outs:
        if o.kind not in ('val', 'ret'):
            bad['delegates'].append('a path of the constructor does not return (%s)' % o.kind); continue
        ev, v = o.st.ev, o.val
        extra = effects(o, allowed=(dp, 'spawn', AC + 'drive'), f=f)
        # creating the future of drive() is inert; it has to be the future the spawned task awaits (checked below on the success path)
        spawned_awaits = [e2[1] for e in ev if e[0] == 'spawn' for k_, v_, sev in e[1] for e2 in sev if e2[0] == 'await']
        extra += [c[1] for c in sem.calls(o, lambda c: c == AC + 'drive') if call_term(c) not in spawned_awaits]
        if extra:
            bad['no-extra-effects'].append('the constructor does something besides connecting: %s' % extra[:3])
        # ---- the runtime: a current-thread runtime with the I/O and time drivers, built here
        nct = sem.calls(o, lambda c: c == BUILDER + 'new_current_thread')
        blds = sem.calls(o, lambda c: c == BUILDER + 'build')
        cfg = sem.calls(o, lambda c: c.startswith(BUILDER) and c not in (BUILDER + 'new_current_thread', BUILDER + 'build'))
        rt_res = None
        if len(nct) == 1 and len(blds) == 1 and len(blds[0][2]) == 1:
            root = call_term(nct[0])
            on = {c[1][len(BUILDER):] for c in cfg if c[0] < blds[0][0] and c[2] and builder_root(c[2][0]) == root}
            stray = [c for c in cfg if not (c[0] < blds[0][0] and c[2] and builder_root(c[2][0]) == root)]
            if builder_root(blds[0][2][0]) == root and not stray and (on == {'enable_all'} or on == {'enable_io', 'enable_time'}):
                rt_res = call_term(blds[0])
        if rt_res is None:
            bad['runtime'].append('the runtime is not built as Builder::new_current_thread() with all drivers enabled (once, on every path)'); continue
        is_rt = lambda x: x == rt_res
        bos = [(j, e) for j, e in enumerate(ev) if e[0] == 'block_on']
        ends = [j for j, e in enumerate(ev) if e[0] == 'block_on-end']
        dcalls = sem.calls(o, lambda c: c == dp)
        spawns = [(j, e) for j, e in enumerate(ev) if e[0] == 'spawn']
        if sem.failed(o, is_rt):
            if bos or dcalls or spawns:
                bad['delegates'].append('something is run although the runtime could not be built')
            if not unmodified(v, o, rt_res):
                bad['error-unmodified'].append('the error of building the runtime is not returned as it is: %s' % absx.fmt(v)[:60])
            continue
        if not sem.succeeded(o, is_rt):
            bad['runtime'].append('the result of building the runtime is used without being examined'); continue
        rt = ('variant', rt_res, 'Ok', 0)
        if len(bos) != 1 or bos[0][1][1] != rt or len(ends) != 1:
            bad['runtime'].append('the connection is not set up by exactly one block_on on the runtime built here'); continue
        lo, hi = bos[0][0], ends[0]
        # ---- the asynchronous constructor, with the own parameters in order, awaited inside block_on
        if len(dcalls) != 1:
            bad['delegates'].append('a path calls LdapConnAsync::from_url_with_settings %d times' % len(dcalls)); continue
        i, cal, args, node = dcalls[0]
        if list(args) != params:
            bad['delegates'].append('LdapConnAsync::from_url_with_settings is called with %s, expected the caller\'s own values in order %s%s' % (
                [absx.fmt(a)[:30] for a in args], [absx.fmt(x) for x in params], ''.join(not_the_value(f, o, a, x) for a, x in zip(args, params) if a != x)))
        call_t = call_term(dcalls[0])
        aw = ('await', call_t)
        aws = [j for j, t, nd in sem.awaits(o) if t == call_t]
        if len(aws) != 1 or not (lo < aws[0] < hi):          # calling an `async fn` is inert: where its future is awaited is what counts
            bad['delegates'].append('the future of the asynchronous constructor is not awaited (once) inside block_on'); continue
        is_aw = lambda x: x == aw
        if sem.succeeded(o, is_aw):
            pair = ('variant', aw, 'Ok', 0)
            conn, handle = absx.tuple_elem(pair, 0), absx.tuple_elem(pair, 1)
            # ---- the connection half is driven by a task spawned inside the runtime, after the connection is there
            if len(spawns) != 1 or not (aws[0] < spawns[0][0] < hi):
                bad['drives'].append('on success, not exactly one task is spawned inside block_on after the connection was established')
            else:
                rec = spawns[0][1][1]
                if not rec:
                    bad['drives'].append('the spawned future has no path')
                for kind, val, sev in rec:
                    # the drive() future is created by the task, or created (inert) before and handed to it
                    dr = [(j, e) for j, e in enumerate(sev) if e[0] == 'call' and e[1] == AC + 'drive'] or \
                         [(-1, ('call', c[1], c[2], c[3])) for c in sem.calls(o, lambda c: c == AC + 'drive') if c[0] < spawns[0][0] and ('await', call_term(c)) in [e[:2] for e in sev]]
                    other = [e[1] for e in sev if e[0] == 'call' and (e[1].startswith('ldap3::') or e[1].startswith('<ldap3::')) and e[1] != AC + 'drive' and not hirq.is_transparent(e[1])]
                    if kind != 'val' or len(dr) != 1 or tuple(dr[0][1][2]) != (conn,) or other or [e for e in sev if e[0] in ('store', 'store-unknown', 'spawn')]:
                        bad['drives'].append('the spawned task is not (only) drive() of the connection returned by the asynchronous constructor'); continue
                    dt = ('call', dr[0][1][1], tuple(dr[0][1][2]), dr[0][1][3].get('id'))
                    if len([1 for e in sev if e[0] == 'await' and e[1] == dt]) != 1:
                        bad['drives'].append('the future of drive() is not awaited by the spawned task')
            # ---- the value: the runtime that was used and the handle that was returned
            c = canon_result(v)
            okv = c[0] == 'ok' and c[1][0] == 'struct' and c[1][1] == 'sync::LdapConn' and c[1][3] is None and dict(c[1][2]) == {'ldap': handle, 'rt': rt} and len(c[1][2]) == 2
            if not okv:
                bad['keeps-handle'].append('on success the value is not Ok(LdapConn { ldap: <handle returned by the asynchronous constructor>, rt: <the runtime it was driven on> }): %s' % absx.fmt(v)[:120])
            else:
                n_ok += 1
        elif sem.failed(o, is_aw):
            if spawns:
                bad['drives'].append('a task is spawned although the asynchronous constructor failed')
            if not unmodified(v, o, aw):
                bad['error-unmodified'].append('the error of the asynchronous constructor is not returned as it is: %s' % absx.fmt(v)[:80])
        else:
            bad['delegates'].append('the result of the asynchronous constructor is used without being examined')
    if not n_ok and not any(bad.values()):
        bad['keeps-handle'].append('no path returns a connection')
    text = {'runtime': '', 'delegates': 'LdapConn::from_url_with_settings does not call the async constructor with (settings, url): ',
            'drives': 'the connection returned by the async constructor is not spawned with drive(): ',
            'keeps-handle': 'LdapConn does not keep the handle returned by the async constructor and the runtime that drives it: ',
            'error-unmodified': '', 'no-extra-effects': ''}
    for r in rules:
        ctx.add('T.from_url_with_settings.' + r, 'sync', loc(B.root), not bad[r], text[r] + '; '.join(sorted(set(bad[r])))[:600])
    return len(rules)

def check_ctor_signature(ctx, f, name):
    si, ai = f.items.get(SYNC + name), f.items.get(AC + name)
    if not si or not ai:
        ctx.fail('T.signature', name, '', 'signature facts missing'); return
    strip = lambda t: re.sub(r"&'[a-z_0-9]+ ", '&', t)
    ok = [strip(x) for x in si['inputs']] == [strip(x) for x in ai['inputs']] and si['vis'] == 'pub' and ai['vis'] == 'pub' \
        and si['output'] == 'core::result::Result<ldap3::sync::LdapConn, ldap3::result::LdapError>' \
        and ai['output'] == 'impl core::future::future::Future<Output = core::result::Result<(ldap3::conn::LdapConnAsync, ldap3::ldap::Ldap), ldap3::result::LdapError>>'
    ctx.add('T.signature', name, '', ok, 'LdapConn::%s%s -> %s does not mirror LdapConnAsync::%s%s -> %s' % (name, si['inputs'], si['output'], name, ai['inputs'], ai['output']))

def check_ctors(ctx, f):
    n = 0
    for name in CTORS:
        check_ctor_signature(ctx, f, name); n += 1
    for kind, prefix in (('sync', SYNC), ('async', AC)):
        for name in ('new', 'from_url', 'with_settings'):
            check_delegating_ctor(ctx, f, kind, prefix, name); n += 1
    n += check_sync_from_url_with_settings(ctx, f)
    ctx.floor('T', 'constructor obligations', n, 16)
