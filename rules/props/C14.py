"""C14 - the synchronous API is observationally identical to the asynchronous one (F6 sibling delegation)."""
import json, re
from facts import walk, callee_of, call_args, loc
import hirq, anchors, absx, sem

EXPLANATION = ("For every LdapConn method with a same-named Ldap method: the body is either (A) one call of Ldap::<same name> on the "
               "connection's own handle with the method's own parameters in order (through at most the transparent IntoAdapterVec::into), "
               "inside rt.block_on(async move { .. .await }) on the connection's own runtime, its value returned unmodified (or wrapped "
               "into EntryStream for the two streaming searches); or (B) structurally equal to the Ldap method's body modulo self.ldap -> "
               "self. Signatures agree modulo async / SearchStream -> EntryStream. Constructors delegate to their async siblings with "
               "parameters in order, spawn conn.drive() and keep the returned handle. EntryStream::next/result/last_id delegate to "
               "SearchStream::next/finish/ldap_handle().last_id(). Decided completely for what the type checker cannot see: swapped "
               "same-typed arguments, a wrong same-typed method, a dropped or altered modifier.")
TRUSTED = ['tokio current-thread runtime block_on returns the future\'s output']
UNDECIDED = ['behaviour of the private current-thread runtime (tokio)']
ASSUMPTIONS = []
CONFIGS = ['default', 'rustls', 'gssapi']      # the `sync` feature is off in the no-default-features configuration

SYNC = 'ldap3::sync::LdapConn::'
ASYNC = 'ldap3::ldap::Ldap::'
CTORS = ('new', 'with_settings', 'from_url', 'from_url_with_settings')

def canon(n, selfmap):
    """Structure of an expression without ids, spans and types; `self.ldap` normalised to `self`."""
    if isinstance(n, list):
        return [canon(x, selfmap) for x in n]
    if not isinstance(n, dict):
        return n
    if n.get('k') == 'Field' and n.get('name') == 'ldap' and n['e'].get('k') == 'Path' and n['e'].get('name') == 'self' and selfmap:
        return {'k': 'Path', 'name': 'self', 'res': 'local'}
    out = {}
    for k, v in n.items():
        if k in ('id', 'sp', 'ty', 'bind', 'adj_ty', 'text', 'targs', 'inst'):
            continue
        out[k] = canon(v, selfmap)
    return out

def tail_expr(b):
    while b['k'] == 'Block' and b.get('expr') is not None and not b['stmts']:
        b = b['expr']
    return b

def final_expr(b):
    while b['k'] == 'Block' and b.get('expr') is not None:
        b = b['expr']
    return b

def run(ctx):
    f = ctx.facts
    sync_methods = sorted(p[len(SYNC):] for p in f.hir if p.startswith(SYNC) and '::' not in p[len(SYNC):])
    n_deleg = 0
    for m in sync_methods:
        if m in CTORS:
            continue
        sp = SYNC + m
        ap = ASYNC + m
        B = hirq.Body(f, f.hir[sp])
        ctx.analysed['bodies'].add(sp)
        if ap not in f.hir:
            ctx.fail('D.sibling-exists', m, loc(B.root), 'LdapConn::%s has no same-named Ldap method' % m)
            continue
        n_deleg += 1
        check_signature(ctx, f, m, sp, ap)
        blocks = [n for n, c in walk(B.root) if n['k'] == 'MethodCall' and (callee_of(n) or '').endswith('Runtime::block_on')]
        direct = [n for n, c in walk(B.root) if n['k'] == 'MethodCall' and (callee_of(n) or '') == ap]
        calls_sibling = any(n['k'] in ('Call', 'MethodCall') and callee_of(n) == ap for n, c in walk(B.root))
        if blocks or direct or calls_sibling:
            check_delegation(ctx, f, B, m, ap, ('field', SELF, 'ldap'), ('field', SELF, 'rt'))
        else:
            a = canon(f.hir[ap]['body'], False)
            s = canon(f.hir[sp]['body'], True)
            ctx.add('D.same-body', m, loc(B.root), json.dumps(a, sort_keys=True) == json.dumps(s, sort_keys=True),
                    'LdapConn::%s is neither a delegation nor structurally equal to Ldap::%s (modulo self.ldap)' % (m, m))
    ctx.floor('D', 'LdapConn operation/accessor/modifier methods', n_deleg, 19)

    # ---- constructors
    check_ctors(ctx, f)

    # ---- EntryStream
    ES = 'ldap3::sync::EntryStream::<\'a, \'b, S, A>::'
    pairs = {'next': 'next', 'result': 'finish'}
    n_es = 0
    for m, target in pairs.items():
        p = ES + m
        if p not in f.hir:
            ctx.fail('anchor-missing', 'EntryStream::' + m, '', 'public method not found'); continue
        B = hirq.Body(f, f.hir[p])
        ctx.analysed['bodies'].add(p)
        n_es += 1
        tp = [q for q in f.hir if q.startswith('ldap3::search::SearchStream::<') and q.endswith('::' + target)]
        if len(tp) != 1:
            ctx.fail('anchor-missing', 'SearchStream::' + target, '', 'async sibling not found'); continue
        check_delegation(ctx, f, B, m, tp[0], ('field', SELF, 'stream'), ('field', ('field', SELF, 'conn'), 'rt'), rule='E')
    p = ES + 'last_id'
    if p in f.hir:
        B = hirq.Body(f, f.hir[p])
        n_es += 1
        ok = False
        louts, _I = sem.paths(f, B)
        for o in louts:
            v = sem.strip_site(o.val) if o.kind in ('val', 'ret') else ('unk',)
            ok = v[0] == 'call' and v[1] == ASYNC + 'last_id' and len(v[2]) == 1 and v[2][0][0] == 'call' and v[2][0][1].endswith('::ldap_handle') \
                and v[2][0][2] == (('field', SELF, 'stream'),)
        ctx.add('E.delegates', 'last_id', loc(B.root), ok, 'EntryStream::last_id is not self.stream.ldap_handle().last_id()')
    ctx.floor('E', 'EntryStream delegations', n_es, 3)


SELF = ('param', 'self')

def block_on_summary(I, cal, args, node, st):
    """Runtime::block_on(fut) evaluates the future: an `async move { .. }` block is run in place, any other future value is
    awaited.  The value is what an asynchronous caller would get from `.await`."""
    if cal.endswith('Runtime::block_on') and len(args) == 2:
        fut = args[1]
        s1 = st.event(('block_on', args[0], node))
        if fut[0] == 'closure':
            outs = []
            for o in I.apply_closure(fut, [('unk', 'cx')], s1, node):
                outs.append(o)
            return outs
        return [absx.Out('val', ('await', fut), s1.event(('await', fut, node)))]
    return None

def check_delegation(ctx, f, B, m, ap, recv_place, rt_place, rule='D'):
    """Path-level: every path makes exactly one call of the asynchronous sibling, on the right receiver, with the method's own
    parameters in order, drives it on the right runtime, and returns what that call produced (unmodified, or wrapped as
    EntryStream { stream, conn: self } for the streaming searches), with no other effect."""
    outs, _I = sem.paths(f, B, summaries=[block_on_summary], combinators=True)
    params = [t for i, t in sorted((d['idx'], ('param', d['name'])) for b, d in B.defs.items() if d['kind'] == 'param' and not d['proj'])][1:]
    n = 0
    for o in outs:
        if o.kind not in ('val', 'ret'):
            continue
        n += 1
        cs = sem.calls(o, lambda c: c == ap)
        if len(cs) != 1:
            ctx.fail(rule + '.delegates', m, loc(B.root), 'a path of %s calls %s %d times' % (m, ap.rsplit('::', 1)[-1], len(cs))); continue
        i, cal, args, node = cs[0]
        ctx.add(rule + '.callee', m, loc(node), True, '')
        ctx.add(rule + '.receiver', m, loc(node), args[0] == recv_place, 'the delegate call is made on %s, not on %s' % (absx.fmt(args[0])[:60], absx.fmt(recv_place)))
        ctx.add(rule + '.arguments-in-order', m, loc(node), list(args[1:]) == params,
                'arguments passed to %s are %s, expected the parameters in order %s' % (ap.rsplit('::', 1)[-1], [absx.fmt(a)[:30] for a in args[1:]], [absx.fmt(p) for p in params]))
        bos = [e for e in o.st.ev if e[0] == 'block_on']
        call_t = ('call', cal, args, node.get('id'))
        is_async = 'async fn body' in ((f.hir[ap]['body'].get('ty') or '') if f.hir[ap]['body'].get('k') == 'Closure' else '')
        if is_async:
            ctx.add(rule + '.own-runtime', m, loc(node), len(bos) == 1 and bos[0][1] == rt_place, 'the future is not driven (exactly once) on %s' % absx.fmt(rt_place))
            res = ('await', call_t)
        else:
            res = call_t
        v = o.val
        ok = v == res or (not is_async and v == SELF and recv_place[0] == 'field')
        if not ok and v[0] == 'ctor' and v[1] == 'Ok' and v[2] and v[2][0][0] == 'struct' and v[2][0][1].endswith('EntryStream'):
            fl = dict(v[2][0][2])
            ok = fl.get('stream') == ('variant', res, 'Ok', 0) and fl.get('conn') == SELF
        if not ok and sem.is_err_result(v):
            ok = sem.has(v, lambda x: x == res) and sem.failed(o, lambda x: x == res)
        ctx.add(rule + '.returns-result', m, loc(B.root), ok, 'the value of the delegate call is not returned unmodified (or wrapped as EntryStream { stream, conn: self }): %s' % absx.fmt(v)[:100])
        extra = [e for e in o.st.ev if e[0] == 'store'] + [c for c in sem.calls(o, lambda c: (c.startswith('ldap3::') or c.startswith('<ldap3::')) and c != ap and not hirq.is_transparent(c))]
        ctx.add(rule + '.no-extra-effects', m, loc(B.root), not extra, '%s does something besides delegating: %s' % (m, [absx.fmt(e[1])[:40] if e[0] == 'store' else e[1] for e in extra][:3]))
    ctx.add(rule + '.delegates', m + '|paths', loc(B.root), n >= 1, 'no path of %s returns' % m)

def param_origins(B):
    ps = sorted(((d['idx'], d['name']) for b, d in B.defs.items() if d['kind'] == 'param' and not d['proj']))
    return [(('param', n), ()) for i, n in ps]

def async_block_call(block_on):
    """The single awaited call inside `async move { <call>.await }`."""
    if not block_on['args'] or block_on['args'][0]['k'] != 'Closure':
        return None
    b = block_on['args'][0]['body']
    t = tail_expr(b)
    if b['k'] == 'Block' and b['stmts']:
        return None
    if t['k'] == 'Await' and t['e']['k'] == 'MethodCall':
        return t['e']
    return None

def check_form_a(ctx, f, B, m, ap, blocks):
    if len(blocks) != 1:
        ctx.fail('D.single-block-on', m, loc(B.root), 'expected one block_on, found %d' % len(blocks)); return
    bo = blocks[0]
    ctx.add('D.own-runtime', m, loc(bo), B.origin(bo['recv']) == (('param', 'self'), (('field', 'rt'),)), 'block_on is not called on the connection\'s own runtime')
    inner = async_block_call(bo)
    if inner is None:
        ctx.fail('D.delegates', m, loc(bo), 'the blocked-on future is not `async move { ldap.%s(..).await }`' % m); return
    ctx.add('D.callee', m, loc(inner), callee_of(inner) == ap, 'LdapConn::%s blocks on %s instead of Ldap::%s' % (m, callee_of(inner), m))
    ctx.add('D.receiver', m, loc(inner), B.origin(inner['recv']) == (('param', 'self'), (('field', 'ldap'),)), 'the delegate call is not made on the connection\'s own handle')
    want = param_origins(B)[1:]
    got = []
    for a in inner['args']:
        x = a
        if x['k'] == 'MethodCall' and (callee_of(x) or '').endswith('IntoAdapterVec<\'a, S, A>>::into'):
            x = x['recv']
        got.append(B.origin(x))
    ctx.add('D.arguments-in-order', m, loc(inner), got == want,
            'arguments passed to Ldap::%s are %s, expected the parameters in order %s' % (m, [hirq.fmt_origin(o) for o in got], [hirq.fmt_origin(o) for o in want]))
    # value returned unmodified, or wrapped into EntryStream
    t = final_expr(B.root)
    if t is bo:
        ctx.ok('D.returns-result', m, loc(bo))
    else:
        ok = False
        if t['k'] == 'Call' and hirq.short_def(t['f'].get('def', '')) == 'Ok' and t['args'][0]['k'] == 'Struct' and t['args'][0].get('def') == 'ldap3::sync::EntryStream':
            fl = {x['name']: x['e'] for x in t['args'][0]['fields']}
            os = B.origin(fl.get('stream')) if 'stream' in fl else None
            ok = os is not None and os[0][0] == 'call' and os[0][2] == bo.get('id') and os[1] == (('try',),) \
                and B.origin(fl.get('conn')) == (('param', 'self'), ())
        ctx.add('D.returns-result', m, loc(t), ok, 'the value of the delegate call is not returned unmodified (or wrapped as EntryStream { stream, conn: self })')
    # no other effectful statements: only `let rt = &mut self.rt; let ldap = &mut self.ldap;`
    others = [n for n, c in walk(B.root) if n['k'] in ('Assign', 'AssignOp') and not any(a['k'] == 'Closure' for a, _ in c)]
    ctx.add('D.no-extra-effects', m, loc(B.root), not others, 'LdapConn::%s modifies state besides delegating' % m)

def norm_ty(t):
    t = re.sub(r"ldap3::search::SearchStream<'a, S, A>", 'STREAM', t)
    t = re.sub(r"ldap3::sync::EntryStream<'a, 'b, S, A>", 'STREAM', t)
    t = re.sub(r"&'[a-z_0-9]+ ", '&', t)
    t = t.replace('ldap3::sync::LdapConn', 'SELF').replace('ldap3::ldap::Ldap', 'SELF')
    m = re.match(r'impl core::future::future::Future<Output = (.*)>$', t)
    if m:
        t = m.group(1)
    return t

def check_signature(ctx, f, m, sp, ap):
    si, ai = f.items.get(sp), f.items.get(ap)
    if not si or not ai:
        ctx.fail('D.signature', m, '', 'signature facts missing'); return
    ok = [norm_ty(x) for x in si['inputs']] == [norm_ty(x) for x in ai['inputs']] and norm_ty(si['output']) == norm_ty(ai['output']) \
        and si['vis'] == 'pub'
    ctx.add('D.signature', m, '', ok, 'LdapConn::%s%s -> %s differs from Ldap::%s%s -> %s' % (m, si['inputs'], si['output'], m, ai['inputs'], ai['output']))

def check_ctors(ctx, f):
    AC = 'ldap3::conn::LdapConnAsync::'
    n = 0
    def body(p):
        ctx.analysed['bodies'].add(p)
        return hirq.Body(f, f.body(p))
    def single_call(B, callee):
        cs = [x for x, c in walk(B.root) if x['k'] in ('Call', 'MethodCall') and callee_of(x) == callee]
        return cs[0] if len(cs) == 1 else None
    # new -> with_settings(LdapConnSettings::new(), url)
    for kind, prefix in (('sync', SYNC), ('async', AC)):
        B = body(prefix + 'new')
        c = single_call(B, prefix + 'with_settings')
        ok = c is not None and len(c['args']) == 2 and c['args'][0]['k'] == 'Call' and callee_of(c['args'][0]) == 'ldap3::conn::LdapConnSettings::new' \
            and B.origin(c['args'][1]) == (('param', 'url'), ())
        ctx.add('T.new', kind, loc(B.root), ok, 'new(url) is not with_settings(LdapConnSettings::new(), url)'); n += 1
        B = body(prefix + 'from_url')
        c = single_call(B, prefix + 'from_url_with_settings')
        ok = c is not None and len(c['args']) == 2 and c['args'][0]['k'] == 'Call' and callee_of(c['args'][0]) == 'ldap3::conn::LdapConnSettings::new' \
            and B.origin(c['args'][1]) == (('param', 'url'), ())
        ctx.add('T.from_url', kind, loc(B.root), ok, 'from_url(url) is not from_url_with_settings(LdapConnSettings::new(), url)'); n += 1
        B = body(prefix + 'with_settings')
        c = single_call(B, prefix + 'from_url_with_settings')
        ok = c is not None and len(c['args']) == 2 and B.origin(c['args'][0]) == (('param', 'settings'), ())
        if ok:
            o = B.origin(c['args'][1])
            ok = o[0][0] == 'call' and o[0][1] == 'url::Url::parse' and o[1] == (('try',),)
            pn = B.by_id.get(o[0][2])
            ok = ok and pn is not None and B.origin(pn['args'][0]) == (('param', 'url'), ())
        ctx.add('T.with_settings', kind, loc(B.root), ok, 'with_settings(settings, url) is not from_url_with_settings(settings, &Url::parse(url)?)'); n += 1
    B = body(SYNC + 'from_url_with_settings')
    c = single_call(B, AC + 'from_url_with_settings')
    ok = c is not None and [B.origin(a) for a in c['args']] == [(('param', 'settings'), ()), (('param', 'url'), ())]
    ctx.add('T.from_url_with_settings.delegates', 'sync', loc(B.root), ok, 'LdapConn::from_url_with_settings does not call the async constructor with (settings, url)')
    n += 1
    drives = [x for x, cc in walk(B.root) if x['k'] == 'MethodCall' and callee_of(x) == AC + 'drive']
    spawns = [x for x, cc in walk(B.root) if x['k'] == 'Call' and (callee_of(x) or '') == 'tokio::task::spawn::spawn']
    ok = len(drives) == 1 and len(spawns) == 1 and c is not None
    if ok:
        o = B.origin(drives[0]['recv'])
        ok = c.get('id') in str(o) and any(x is drives[0] for x, _ in walk(spawns[0]))
    ctx.add('T.from_url_with_settings.drives', 'sync', loc(B.root), ok, 'the connection returned by the async constructor is not spawned with drive()')
    st = [x for x, cc in walk(B.root) if x['k'] == 'Struct' and x.get('def') == 'ldap3::sync::LdapConn']
    ok = len(st) == 1 and c is not None
    if ok:
        fl = {x['name']: x['e'] for x in st[0]['fields']}
        bo = [x for x, cc in walk(B.root) if x['k'] == 'MethodCall' and (callee_of(x) or '').endswith('Runtime::block_on')]
        ok = len(bo) == 1 and hirq.local_of(bo[0]['recv']) == hirq.local_of(fl['rt'])
        if ok:
            o = B.origin(fl['ldap'])
            ok = o[0][0] == 'call' and o[0][2] == bo[0].get('id') and o[1] == (('try',),)
            cl = bo[0]['args'][0]
            t = final_expr(cl['body']) if cl['k'] == 'Closure' else None
            ok = ok and t is not None and t['k'] == 'Call' and hirq.short_def(t['f'].get('def', '')) == 'Ok'
            if ok:
                oi = B.origin(t['args'][0])
                ok = oi[0][0] == 'call' and oi[0][2] == c.get('id') and oi[1] == (('await',), ('variant', 'Ok', 0), ('tup', 1))
    ctx.add('T.from_url_with_settings.keeps-handle', 'sync', loc(B.root), ok, 'LdapConn does not keep the handle returned by the async constructor and the runtime that drives it')
    ctx.floor('T', 'constructor obligations', n, 7)
