"""C20 - LDAP URL parameters are extracted as RFC 4516 defines them."""
from facts import loc
import hirq, absx, strdom
from strdom import S, atom, parts, mk

EXPLANATION = ("get_url_params is decided as a pure function of a structured symbolic input: the abstract interpreter evaluates its whole body "
               "once per class of a finite partition of (url.path(), url.query()) and the returned LdapUrlParams (fields base, attrs, scope, "
               "filter, extensions - read by the public field names) or error is compared with a reference function of the same structured "
               "input written in this module from RFC 4516 and the property text. A string is a sequence of literal chunks and opaque atoms "
               "(rules/strdom.py); an atom is a non-empty ASCII text that contains none of the separators that matter at its position "
               "('?' in every query atom, ',' in attribute names and extensions, '=' in extension ids and value pieces) and does not begin "
               "with '!' (extension id) or '/' (DN). The partition: path = '' | '/' | '/'+dn | dn | '//'+dn | '//'; query = absent | 1..4 fields "
               "joined by '?'; attributes '' | a | a,a; scope '' | base | one | sub | other word; filter '' | f; extension field '' | one "
               "extension built from optional '!' + id (three OIDs, bindname / x-bindpw in lower and mixed case, an unknown id, the empty id) + "
               "optional '=' + value ('' | v | v=v) | two or three extensions (nothing but the set is carried from one to the next: "
               "criticality is per extension) | a fourth field that itself contains '?'. Reference: base = path minus ONE leading '/', "
               "percent-decoded; fields = query split at its first three '?'; attributes default [\"*\"], else split on ','; scope words "
               "base/one/sub -> Base/OneLevel/Subtree, default Subtree, any other word InvalidScopeString(word); filter default "
               "(objectClass=*), percent-decoded; each ','-separated extension: leading '!' = critical, id up to the first '=', value after "
               "it percent-decoded; recognition table 1.3.6.1.4.1.10094.1.5.1 -> Credentials, ...5.2 -> SaslMech, 1.3.6.1.4.1.1466.20037 -> "
               "StartTLS, case-insensitive bindname / x-bindpw; unknown critical -> UnrecognizedCriticalExtension, unknown non-critical "
               "dropped. percent_decode_str(X).decode_utf8() is an opaque function of X with two outcomes, Ok(decoded X) / Err, the latter "
               "must surface as DecodingUTF8 (a literal without '%' cannot fail and decodes to itself). Which error wins when several apply "
               "is not constrained. std str / Option / iterator / HashSet functions are modelled once each over the symbolic strings; a "
               "whole-string comparison of an atom with a literal is answered 'different' and recorded, and every recorded literal outside "
               "the partition's constants gets a literal class of its own (the function depends on its input only through these "
               "comparisons). Anything the models cannot evaluate stays an opaque term and fails the class. The set's equality is the "
               "enum's own PartialEq (evaluated; decided to be 'same variant' for all 36 variant pairs, and its Hash feeds the hasher nothing but the variant); a limit (splitn(n), take(n)) that no class reaches is reported; a workspace comparison helper "
               "(ascii_lc_equal, found by role) is decided by literal evaluation against 'equal up to ASCII case' on the partition of words "
               "relative to each name it is called with. Not decided: the url crate's own parsing of exotic strings.")
TRUSTED = ['url crate (path(), query()): ASCII-only, percent-encoded text', 'percent_encoding crate', 'std str / iterator / HashSet functions as modelled in rules/strdom.py']
UNDECIDED = ['behaviour of the url crate on exotic strings']
ASSUMPTIONS = ['the extension classes are crossed with two settings of the other fields (all defaulted / all given) and one path; the other fields, the number of fields and the path classes are crossed fully with three extension fields',
               'extension lists of one, two and three elements stand for all lists: one iteration reads nothing of the earlier ones but the set (checked: lists whose second element would show a carried flag)',
               'a comparison helper is evaluated on every word that deviates from the name in one position (all 128 ASCII bytes), on the upper-cased name and on shorter / longer words; words deviating in several positions at once are represented by these']

P = 'ldap3::util::get_url_params'

# ---------------------------------------------------------------------------------------------------- reference (RFC 4516 + property text)
OIDS = {'1.3.6.1.4.1.10094.1.5.1': 'Credentials', '1.3.6.1.4.1.10094.1.5.2': 'SaslMech', '1.3.6.1.4.1.1466.20037': 'StartTLS'}
NAMES = {'bindname': 'Bindname', 'x-bindpw': 'XBindpw'}
VALUELESS = ('StartTLS',)
SCOPES = {'base': 'Scope::Base', 'one': 'Scope::OneLevel', 'sub': 'Scope::Subtree'}
DEFAULT_FILTER = '(objectClass=*)'

def ref_ext_kind(idt):
    """which extension an id names; an atom is, by what it stands for, none of the known ids"""
    if idt[0] != 'lit':
        return None
    if idt[1] in OIDS:
        return OIDS[idt[1]]
    return NAMES.get(idt[1].lower())

def decoded(x):
    """(the decoded text as a term, the source whose decoding must have succeeded or None when it cannot fail)"""
    if x[0] == 'lit' and '%' not in x[1]:
        return x, None
    return ('variant', ('utf8', x), 'Ok', 0), x

def ref_base_src(path):
    ps = parts(path)
    if ps and isinstance(ps[0], str) and ps[0].startswith('/'):
        return mk([ps[0][1:]] + ps[1:])           # exactly one leading '/' separates the DN from the host part
    return path

def reference(c):
    r = {}
    r['base'] = decoded(ref_base_src(c['path'][1]))
    r['attrs'] = list(c['attrs'][1]) if c['attrs'] is not None and c['attrs'][1] else [('lit', '*')]
    sc = c['scope'][1] if c['scope'] is not None else ('lit', '')
    if sc == ('lit', ''):
        r['scope'] = ('ok', 'Scope::Subtree')
    elif sc[0] == 'lit' and sc[1] in SCOPES:
        r['scope'] = ('ok', SCOPES[sc[1]])
    else:
        r['scope'] = ('invalid', sc)
    fl = c['filter'][1] if c['filter'] is not None else ('lit', '')
    r['filter'] = decoded(fl if fl != ('lit', '') else ('lit', DEFAULT_FILTER))
    exts = []
    for crit, idt, val in (c['ext'][1] if c['ext'] is not None else []):
        kind = ref_ext_kind(idt)
        exts.append({'kind': kind, 'crit': crit, 'id': idt, 'val': decoded(val if val is not None else ('lit', ''))})
    r['exts'] = exts
    return r

# ---------------------------------------------------------------------------------------------------- the partition
A1, A2 = atom('attr1', '?,'), atom('attr2', '?,')
W = atom('scopeword', '?')
F = atom('filter', '?')
DN = atom('dn', '', '/')
U, UB = atom('extid', '?,=', '!'), atom('extid2', '?,=', '!')
V, V2 = atom('val', '?,='), atom('val2', '?,=')
COVERED = {'scopeword': set(SCOPES), 'extid': set(OIDS) | set(NAMES), 'extid2': set(OIDS) | set(NAMES)}
ATOMS = {a[1]: a for a in (A1, A2, W, F, DN, U, UB, V, V2)}

PATHS = [("''", S('')), ("'/'", S('/')), ('/dn', S('/', DN)), ('dn', S(DN)), ('//dn', S('//', DN)), ("'//'", S('//'))]
ATTRS = [("''", []), ('a', [S(A1)]), ('a,a', [S(A1), S(A2)])]
SCOPEF = [("''", S('')), ('base', S('base')), ('one', S('one')), ('sub', S('sub')), ('other', S(W))]
FILTERS = [("''", S('')), ('f', S(F))]

def ext_label(items):
    def one(it):
        crit, idt, val = it
        i = idt[1] if idt[0] == 'lit' else '+'.join(p if isinstance(p, str) else '<%s>' % p[1] for p in parts(idt))
        v = '' if val is None else '=' + (val[1] if val[0] == 'lit' else '+'.join(p if isinstance(p, str) else '<%s>' % p[1] for p in parts(val)))
        return ('!' if crit else '') + i + v
    return ','.join(one(it) for it in items) or "''"

def ext_classes():
    out = []
    ids = [S(x) for x in OIDS] + [S('bindname'), S('BindName'), S('x-bindpw'), S('X-BINDPW'), S(U), S('')]
    vals = [None, S(''), S(V), S(V, '=', V2)]
    for crit in (False, True):
        for i in ids:
            for v in vals:
                out.append([(crit, i, v)])
    firsts = [(True, S('bindname'), S(V)), (False, S('x-bindpw'), S(V)), (False, S(U), None), (True, S('1.3.6.1.4.1.1466.20037'), None)]
    seconds = [(False, S(UB), None), (True, S(UB), None), (False, S('1.3.6.1.4.1.10094.1.5.2'), S(V2)), (False, S('bindname'), S(V2)), (False, S(''), None), (False, S(UB), S(V2))]
    for a in firsts:
        for b in seconds:
            out.append([a, b])
    out.append([(True, S(U), None), (False, S('bindname'), S(V))])
    out.append([(True, S('bindname'), S(V)), (False, S(U), None), (False, S('x-bindpw'), S(V2))])
    out.append([(False, S(U), S(V)), (True, S('1.3.6.1.4.1.10094.1.5.1'), S(V2)), (False, S(UB), None)])
    # an id that still begins with '!' once the marker is taken off is just an unknown id (one '!' is the marker, not all of them)
    out.append([(True, S('!bindname'), S(V))])
    out.append([(True, S('!', U), None)])
    # a fourth field that itself contains '?'
    out.append([(False, S('bindname'), S(V, '?', V2))])
    out.append([(False, S(U, '?', UB), None)])
    out.append([(True, S('x-bindpw'), S(V)), (False, S(U, '?', UB), S(V2))])
    return [(ext_label(x), x) for x in out]

def classes():
    E = ext_classes()
    e_small = [("''", [])] + [e for e in E if e[0] in ('bindname=<val>', '!<extid>')]
    assert len(e_small) == 3
    out = []
    def add(path, attrs, scope, flt, ext):
        out.append({'path': path, 'attrs': attrs, 'scope': scope, 'filter': flt, 'ext': ext})
    for p in PATHS:
        add(p, None, None, None, None)
        for a in ATTRS:
            add(p, a, None, None, None)
            for s in SCOPEF:
                add(p, a, s, None, None)
                for f in FILTERS:
                    add(p, a, s, f, None)
                    for e in e_small:
                        add(p, a, s, f, e)
    for e in E:
        add(PATHS[2], ATTRS[0], SCOPEF[0], FILTERS[0], e)
        add(PATHS[2], ATTRS[2], SCOPEF[1], FILTERS[1], e)
    return out

def query_of(c):
    if c['attrs'] is None:
        return absx_none()
    fields = [_join(c['attrs'][1], ',')]
    if c['scope'] is not None:
        fields.append(c['scope'][1])
        if c['filter'] is not None:
            fields.append(c['filter'][1])
            if c['ext'] is not None:
                items = []
                for crit, idt, val in c['ext'][1]:
                    items.append(S(*((['!'] if crit else []) + [idt] + ([] if val is None else ['=', val]))))
                fields.append(_join(items, ','))
    return ('ctor', 'Some', (_join(fields, '?'),))

def absx_none():
    return ('ctor', 'None', ())

def _join(xs, sep):
    ps = []
    for i, x in enumerate(xs):
        if i:
            ps.append(sep)
        ps.append(x)
    return S(*ps)

def label(c):
    return 'path=%s query=%s' % (c['path'][0], 'absent' if c['attrs'] is None else '?'.join(x[0] for x in (c['attrs'], c['scope'], c['filter'], c['ext']) if x is not None))

def substitute(c, name, text):
    """the class with the atom `name` replaced by a literal"""
    def sub(t):
        if isinstance(t, tuple) and t and t[0] == 'sstr':
            return mk([text if (isinstance(p, tuple) and p[0] == 'atom' and p[1] == name) else p for p in t[1]])
        return t
    def lab(l, changed):
        return l + '[%s:=%s]' % (name, text) if changed else l
    def fld(x, f):
        if x is None:
            return None
        y = f(x[1])
        return (lab(x[0], y != x[1]), y)
    return {'path': fld(c['path'], sub), 'attrs': fld(c['attrs'], lambda xs: [sub(x) for x in xs]), 'scope': fld(c['scope'], sub), 'filter': fld(c['filter'], sub),
            'ext': fld(c['ext'], lambda its: [(cr, sub(i), None if v is None else sub(v)) for cr, i, v in its])}

def mentions(c, name):
    return any(isinstance(p, tuple) and p[0] == 'atom' and p[1] == name for t in absx.leaves(('x', c['path'][1], query_of(c)), lambda z: z[0] == 'sstr') for p in t[1])

# ---------------------------------------------------------------------------------------------------- judging one class
F6_ALL = ('F6.no-extensions', 'F6.recognition-table', 'F6.extension-value-decoded', 'F6.unknown-critical-is-error', 'F6.unknown-noncritical-dropped',
          'F6.split-on-comma', 'F6.split-id-value', 'F6.criticality-marker', 'F6.case-insensitive-names')

def short(t):
    return absx.fmt(t)[:110]

def strip_tryerr(v):
    while v[0] == 'tryerr':
        v = v[1]
    return v

class Judge:
    def __init__(self):
        self.groups = {}       # (rule, instance) -> [ok count, bad count, first bad detail]
        self.npaths = 0
        self.q4_pending = []
        self.ext_failed = False

    def finish(self):
        for r, einst, f2inst, msg in self.q4_pending:
            if self.ext_failed:
                self.note(r, einst, False, msg)
            else:
                self.note('F2.query-split', f2inst, False, msg + ' - the fourth field is everything after the third "?", further "?" included')
        self.q4_pending = []

    def note(self, rule, inst, ok, detail=''):
        g = self.groups.setdefault((rule, inst), [0, 0, ''])
        if ok:
            g[0] += 1
        else:
            g[1] += 1
            g[2] = g[2] or detail

    def ext_rules(self, c):
        """the extension clauses a class exercises (what a deviation of the extension set is reported under)"""
        items = c['ext'][1] if c['ext'] is not None else []
        rules = []
        if not items:
            rules.append('F6.no-extensions')
        if len(items) > 1:
            rules.append('F6.split-on-comma')
        for crit, idt, val in items:
            kind = ref_ext_kind(idt)
            if val is not None and '=' in [p for p in parts(val) if isinstance(p, str)]:
                rules.append('F6.split-id-value')
            if kind is not None and idt[0] == 'lit' and idt[1] not in OIDS and idt[1] != idt[1].lower():
                rules.append('F6.case-insensitive-names')
            if crit and kind is not None:
                rules.append('F6.criticality-marker')
            if kind is None:
                rules.append('F6.unknown-critical-is-error' if crit else 'F6.unknown-noncritical-dropped')
            if kind is not None:
                rules.append('F6.recognition-table')
                if kind not in VALUELESS:
                    rules.append('F6.extension-value-decoded')
        seen = []
        for r in rules:
            if r not in seen:
                seen.append(r)
        return seen

    def judge(self, c, outs, heap_of=lambda o: o.st.heap):
        exp = reference(c)
        lab = label(c)
        k = sum(1 for x in (c['attrs'], c['scope'], c['filter'], c['ext']) if x is not None)
        inst = {'F1.base': 'path ' + c['path'][0], 'F2.query-split': '%d fields%s' % (k, ' (4th contains ?)' if c['ext'] is not None and '?' in c['ext'][0] else ''),
                'F3.attributes': 'field %s' % (c['attrs'][0] if c['attrs'] is not None else 'absent'),
                'F4.scope': 'field %s' % (c['scope'][0] if c['scope'] is not None else 'absent'),
                'F4.invalid-scope-is-error': 'field %s' % (c['scope'][0] if c['scope'] is not None else 'absent'),
                'F5.filter': 'field %s' % (c['filter'][0] if c['filter'] is not None else 'absent')}
        einst = 'extensions %s' % (c['ext'][0] if c['ext'] is not None else 'absent')
        erules = self.ext_rules(c)
        q4 = c['ext'] is not None and '?' in c['ext'][0]
        unknown_crit = [x for x in exp['exts'] if x['kind'] is None and x['crit']]
        mandatory = {'base': exp['base'][1], 'filter': exp['filter'][1]}
        ext_srcs = [x['val'][1] for x in exp['exts'] if x['kind'] is not None and x['kind'] not in VALUELESS and x['val'][1] is not None]
        optional = [x['val'][1] for x in exp['exts'] if x['val'][1] is not None]
        if not outs:
            self.note('F.evaluated', lab, False, 'no path of get_url_params was evaluated for this class')
        for o in outs:
            self.npaths += 1
            dec, und = {}, []
            for a, t in o.st.pc:
                if a[0] == 'is' and a[2] == 'Ok' and a[1][0] == 'utf8':
                    dec[a[1][1]] = t
                else:
                    und.append(a)
            if o.kind == 'div':
                pan = [e for e in o.st.ev if e[0] in ('panic', 'overflow')]
                self.note('F.no-panic', lab, False, 'get_url_params panics on %s: %s' % (lab, short(pan[-1][1:3]) if pan else '?'))
                continue
            if o.kind not in ('val', 'ret') or und:
                rule = 'F6.extension-list-evaluated' if (c['ext'] is not None and c['ext'][1]) else 'F.evaluated'
                self.note(rule, einst if rule.startswith('F6') else lab, False,
                          'on %s the function could not be evaluated to a result (%s): a test depends on something the models do not decide for this class (e.g. the extension '
                          'list is not walked as the \',\'-separated items of field 3, two unknown texts are compared, or a construct has no model) - the class fails closed' %
                          (lab, 'undecided: ' + short(und[0]) if und else 'path ends as ' + o.kind))
                if rule.startswith('F6') and not q4:
                    self.ext_failed = True
                continue
            self.note('F.no-panic', 'all classes', True)
            v = strip_tryerr(o.val)
            if v[0] == 'ctor' and v[1] == 'Err' and v[2] and v[2][0][0] == 'ctor':
                self.judge_err(c, exp, v[2][0], dec, mandatory, ext_srcs, optional, unknown_crit, inst, einst, lab)
                continue
            if not (v[0] == 'ctor' and v[1] == 'Ok' and v[2] and v[2][0][0] == 'struct'):
                self.note('F.evaluated', lab, False, 'on %s the result is neither Ok(LdapUrlParams{..}) nor Err(LdapError): %s' % (lab, short(v)))
                continue
            fl = dict(v[2][0][2])
            # ---- errors that must not be swallowed
            if exp['scope'][0] == 'invalid':
                self.note('F4.invalid-scope-is-error', inst['F4.invalid-scope-is-error'], False, 'on %s the unknown scope word is accepted (scope %s); it must be InvalidScopeString(word)' % (lab, short(fl.get('scope', ('unk',)))))
            if unknown_crit:
                self.note('F6.unknown-critical-is-error', einst, False, 'on %s an unrecognised extension marked "!" does not yield UnrecognizedCriticalExtension' % lab)
            for what in ('base', 'filter'):
                src = mandatory[what]
                if src is not None and dec.get(src) is False:
                    self.note('F1.decode-failure-is-DecodingUTF8', what, False, 'on %s the %s is not valid UTF-8 after percent-decoding, yet Ok is returned' % (lab, what))
                elif src is not None:
                    self.note('F1.decode-failure-is-DecodingUTF8', what, True)
            for src in ext_srcs:
                if dec.get(src) is False:
                    self.note('F6.extension-value-decoded', einst, False, 'on %s an extension value is not valid UTF-8 after percent-decoding, yet Ok is returned (the failure must be DecodingUTF8)' % lab)
            # ---- fields
            bad = []
            okb = fl.get('base') == exp['base'][0]
            self.note('F1.base', inst['F1.base'], okb, 'on %s the base is %s, expected the percent-decoded path without one leading "/": %s' % (lab, short(fl.get('base', ('unk',))), short(exp['base'][0])))
            oka = fl.get('attrs') == ('vec', tuple(exp['attrs']))
            self.note('F3.attributes', inst['F3.attributes'], oka, 'on %s the attributes are %s, expected %s' % (lab, short(fl.get('attrs', ('unk',))), short(('vec', tuple(exp['attrs'])))))
            if exp['scope'][0] == 'ok':
                oks = fl.get('scope') == ('ctor', exp['scope'][1], ())
                self.note('F4.scope', inst['F4.scope'], oks, 'on %s the scope is %s, RFC 4516: %s' % (lab, short(fl.get('scope', ('unk',))), exp['scope'][1]))
            else:
                oks = True
            okf = fl.get('filter') == exp['filter'][0]
            self.note('F5.filter', inst['F5.filter'], okf, 'on %s the filter is %s, expected %s' % (lab, short(fl.get('filter', ('unk',))), short(exp['filter'][0])))
            oke, why = self.ext_ok(exp, fl.get('extensions', ('unk',)), heap_of(o))
            wrong = [n for n, x in (('base', okb), ('attributes', oka), ('scope', oks), ('filter', okf), ('extensions', oke)) if not x]
            # the split itself: a query with k fields fills exactly those k components (several at once off: the split is off)
            self.note('F2.query-split', inst['F2.query-split'], len(wrong) < 2,
                      'on %s the components %s deviate: the query is not split into at most four fields at its first three "?"' % (lab, wrong))
            if oke:
                for r in erules:
                    self.note(r, einst, True)
            else:
                r = self.ext_rule(c, exp, why, erules)
                msg = 'on %s the extension set is %s' % (lab, why)
                if q4:
                    # a deviation on a fourth field that contains '?': the split's fault unless the same clause also fails without the '?'
                    self.q4_pending.append((r, einst, inst['F2.query-split'], msg))
                else:
                    self.ext_failed = True
                    self.note(r, einst, False, msg)

    def ext_ok(self, exp, t, heap):
        if t[0] != 'hset' or t not in heap:
            return False, 'not a set built from the extension list: %s' % short(t)
        got = heap[t]
        want = [x for x in exp['exts'] if x['kind'] is not None]
        if any(not (g[0] == 'ctor' and g[1].startswith('LdapUrlExt::')) for g in got):
            return False, 'unreadable: %s' % short(got)
        gk = sorted(g[1].split('::')[-1] for g in got)
        wk = sorted(set(x['kind'] for x in want))
        self._kinds = (gk, wk)
        if gk != wk:
            return False, 'kinds %s, expected %s' % (gk, wk)
        for g in got:
            kind = g[1].split('::')[-1]
            cands = [x['val'][0] for x in want if x['kind'] == kind]      # a repeated extension: either occurrence may stay
            if kind in VALUELESS:
                if g[2]:
                    return False, 'value for %s' % kind
            elif not (len(g[2]) == 1 and g[2][0] in cands):
                return False, 'value of %s is %s, expected the percent-decoded text after "=": %s' % (kind, short(g[2][0]) if g[2] else '-', short(cands[0]))
        return True, ''

    def ext_rule(self, c, exp, why, erules):
        if why.startswith('value of') or why.startswith('value for'):
            return 'F6.split-id-value' if 'F6.split-id-value' in erules else 'F6.extension-value-decoded'
        if why.startswith('kinds'):
            got, want = self._kinds
            extra, missing = [k for k in got if k not in want], [k for k in want if k not in got]
            if 'Unknown' in extra:
                return 'F6.unknown-noncritical-dropped'
            if extra:
                return 'F6.no-extensions' if 'F6.no-extensions' in erules else 'F6.recognition-table'
            items = [x for x in exp['exts'] if x['kind'] in missing]
            if items and all(x['id'][0] == 'lit' and x['id'][1] not in OIDS and x['id'][1] != x['id'][1].lower() for x in items):
                return 'F6.case-insensitive-names'
            if items and all(x['crit'] for x in items):
                return 'F6.criticality-marker'
            return 'F6.recognition-table'
        return 'F6.split-on-comma'

    def judge_err(self, c, exp, err, dec, mandatory, ext_srcs, optional, unknown_crit, inst, einst, lab):
        kind = err[1]
        if kind == 'LdapError::DecodingUTF8':
            failing = [x for x, t in dec.items() if not t]
            allowed = [x for x in (mandatory['base'], mandatory['filter']) if x is not None] + optional
            if not failing:
                self.note('F1.decode-failure-is-DecodingUTF8', 'no failure', False, 'on %s DecodingUTF8 is returned although no percent-decoding failed' % lab)
            for x in failing:
                if x == mandatory['base'] or x == mandatory['filter']:
                    self.note('F1.decode-failure-is-DecodingUTF8', 'base' if x == mandatory['base'] else 'filter', True)
                elif x in optional:
                    self.note('F6.extension-value-decoded', einst, True)
                else:
                    names = {p[1] for t in absx.leaves(('x', x), lambda z: z[0] == 'sstr') for p in t[1] if isinstance(p, tuple)}
                    rule = 'F1.base' if 'dn' in names else 'F5.filter' if 'filter' in names else 'F6.extension-value-decoded' if c['ext'] is not None and c['ext'][1] else 'F1.decode-failure-is-DecodingUTF8'
                    self.note(rule, inst.get(rule, einst if rule.startswith('F6') else 'other text'), False,
                              'on %s percent-decoding is applied to %s, which is not the base, the filter or an extension value' % (lab, short(x)))
        elif kind == 'LdapError::InvalidScopeString':
            ok = exp['scope'][0] == 'invalid' and len(err[2]) == 1 and err[2][0] == exp['scope'][1]
            rule = 'F4.invalid-scope-is-error' if exp['scope'][0] == 'invalid' else 'F4.scope'
            self.note(rule, inst[rule], ok, 'on %s InvalidScopeString(%s) is returned; an unknown scope word - and only that - must be InvalidScopeString(<word>)' % (lab, short(err[2][0]) if err[2] else ''))
        elif kind == 'LdapError::UnrecognizedCriticalExtension':
            if unknown_crit or any(x['kind'] is None for x in exp['exts']) or not exp['exts']:
                self.note('F6.unknown-critical-is-error', einst, bool(unknown_crit),
                          'on %s UnrecognizedCriticalExtension is returned; it must be returned exactly for an unrecognised extension marked with "!"' % lab)
            else:
                # every extension of the class is a recognised one: the "!" of a recognised extension is not part of its id
                marked = [x for x in exp['exts'] if x['crit']]
                mixed = marked and all(x['id'][0] == 'lit' and x['id'][1] not in OIDS and x['id'][1] != x['id'][1].lower() for x in marked)
                for r in (('F6.case-insensitive-names',) if mixed else ('F6.criticality-marker', 'F6.recognition-table')):
                    self.note(r, einst, False, 'on %s UnrecognizedCriticalExtension is returned although every extension is a recognised one: the recognition table holds for an '
                              'extension marked "!" as for an unmarked one (the marker is stripped before the id is looked up)' % lab)
        else:
            self.note('F.error-kind', lab, False, 'on %s the error %s is returned; C20 knows DecodingUTF8, InvalidScopeString, UnrecognizedCriticalExtension' % (lab, short(err)))


# ---------------------------------------------------------------------------------------------------- the check
def run(ctx):
    f = ctx.facts
    B = hirq.Body(f, f.body(P))
    ctx.analysed['bodies'].add(P)
    root = B.root
    dom = strdom.StrDomain(f)
    cur = {}
    def inputs(I, cal, args, node, st):
        # the two accessors of the url crate the function reads its input through
        if cal == 'url::Url::path' and args == [('param', 'url')]:
            return [absx.Out('val', cur['path'], st)]
        if cal == 'url::Url::query' and args == [('param', 'url')]:
            return [absx.Out('val', cur['query'], st)]
        return None
    J = Judge()
    def evaluate(c):
        cur['path'], cur['query'] = c['path'][1], query_of(c)
        I = absx.Interp(f, B, summaries=[inputs, dom.summary], unroll=1, combinators=True, result_combinators=True, domain=dom, local_try=True)
        try:
            outs = I.run()
        except absx.TooManyPaths:
            J.note('F.evaluated', label(c), False, 'too many paths on %s' % label(c))
            return
        J.judge(c, outs)
    cls = classes()
    for c in cls:
        evaluate(c)
    n_cls = len(cls)
    # every literal an atom was compared with (and answered "different") must be a class of the partition: evaluate the missing ones
    done, extra = set(), 0
    for _round in range(3):
        todo = []
        for name, text, mode in sorted(dom.compared):
            lits = {text} | ({text.upper(), text.lower()} if mode == 'ci' else set())
            for L in sorted(lits):
                if (name, L) in done or L in COVERED.get(name, ()) or (mode == 'ci' and L.lower() in COVERED.get(name, ()) and name.startswith('extid')):
                    continue
                done.add((name, L))
                todo.append((name, L))
        if not todo:
            break
        for name, L in todo:
            hosts = [c for c in cls if mentions(c, name)][:40]
            for c in hosts:
                evaluate(substitute(c, name, L)); extra += 1
    J.finish()
    loose = sorted(n for (site, n), binding in dom.bounds.items() if not binding)
    ctx.add('F.bounds-exercised', 'splitn / take limits', loc(root), not loose,
            'a limit of %s pieces / elements is never reached by a class of the partition: what the function does with a longer input is not decided' % loose)
    ctx.add('F.partition-closed', 'literals compared with atoms', loc(root), len(done) <= 24,
            'the function compares its input with %d literals outside the partition (%s); each was evaluated as a class of its own (%d classes)' % (len(done), sorted(done)[:6], extra))
    for (rule, inst), (nok, nbad, detail) in sorted(J.groups.items()):
        ctx.add(rule, inst, loc(root), nbad == 0, detail if nbad else '%d paths' % nok)
    ctx.floor('F', 'classes of the input partition evaluated', n_cls, 1042)
    ctx.floor('F', 'paths judged (at least one per class)', J.npaths, 1042)
    for r in F6_ALL:
        ctx.floor(r, 'classes of the partition that exercise the clause', sum(1 for c in cls if r in J.ext_rules(c)), 1)

    # ---- a workspace comparison helper the function calls (found by role: called with a name literal and the extension id)
    for cal, uses in sorted(dom.predicates.items()):
        H = hirq.Body(f, f.body(cal))
        ctx.analysed['bodies'].add(cal)
        for pos, name in sorted(uses):
            words = {name, name.upper(), name.capitalize(), '', name[:-1], name[1:], name + 'x', name + name, 'x' + name, name + '\0'}
            for i in range(len(name)):
                for b in range(128):
                    words.add(name[:i] + chr(b) + name[i + 1:])
            wrong = []
            for w in sorted(words):
                IH = absx.Interp(f, H, summaries=[dom.summary], combinators=True, domain=dom)
                args = [('lit', w), ('lit', name)] if pos == 0 else [('lit', name), ('lit', w)]
                binds = [b for b, d in sorted(H.defs.items(), key=lambda kv: kv[1].get('idx', 0)) if d['kind'] == 'param']
                vals = {o.val for o in IH.run(env=dict(zip(binds, args))) if o.kind in ('val', 'ret')}
                if vals != {('lit', w.lower() == name.lower())}:
                    wrong.append((w, sorted(map(str, vals))))
            ctx.add('F6.case-insensitive-compare', '%s(%s)' % (cal.rsplit('::', 1)[-1], ', '.join(['<id>', repr(name)] if pos == 0 else [repr(name), '<id>'])), loc(H.root), not wrong,
                    'the helper deviates from "equal to %r up to ASCII case" on %d of %d words, e.g. %s' % (name, len(wrong), len(words), wrong[:3]))

    # ---- equality of extensions is by variant only (so a value-bearing probe finds its entry, and the set keeps one entry per kind)
    eqp = [h for h in f.hir if h.startswith('<ldap3::util::LdapUrlExt<') and h.endswith(' as core::cmp::PartialEq>::eq')]
    if len(eqp) != 1:
        ctx.fail('anchor-missing', 'PartialEq for LdapUrlExt', '', 'the hand-written equality of LdapUrlExt was not found'); return
    eqp = eqp[0]
    E = hirq.Body(f, f.body(eqp))
    ctx.analysed['bodies'].add(eqp)
    variants = [v['name'] for v in f.adt('ldap3::util::LdapUrlExt')['variants']]
    IE = absx.Interp(f, E, result_combinators=False)
    binds = {d['name']: b for b, d in E.defs.items() if d['kind'] == 'param'}
    wrong = []
    for a in variants:
        for b in variants:
            ta = ('ctor', 'LdapUrlExt::' + a, () if a == 'StartTLS' else (('param', 'x'),))
            tb = ('ctor', 'LdapUrlExt::' + b, () if b == 'StartTLS' else (('param', 'y'),))
            vals = {o.val for o in IE.run(env={binds['self']: ta, binds['other']: tb}) if o.kind in ('val', 'ret')}
            if vals != {('lit', a == b)}:
                wrong.append((a, b, sorted(map(str, vals))))
    # ---- and the hash agrees with it: what is fed to the hasher does not depend on the payload (equal values hash alike)
    hp = [h for h in f.hir if h.startswith('<ldap3::util::LdapUrlExt<') and h.endswith(' as core::hash::Hash>::hash')]
    if len(hp) != 1:
        ctx.fail('anchor-missing', 'Hash for LdapUrlExt', '', 'the hand-written Hash of LdapUrlExt was not found'); return
    HB = hirq.Body(f, f.body(hp[0]))
    ctx.analysed['bodies'].add(hp[0])
    IH = absx.Interp(f, HB, result_combinators=False)
    hb = {d['name']: b for b, d in HB.defs.items() if d['kind'] == 'param'}
    badh = []
    for a in variants:
        ta = ('ctor', 'LdapUrlExt::' + a, () if a == 'StartTLS' else (('param', 'x'),))
        env = {hb['self']: ta}
        env.update({b: ('param', n) for n, b in hb.items() if n != 'self'})
        fed = set()
        for o in IH.run(env=env):
            calls = [e for e in o.st.ev if e[0] == 'call']
            if o.kind not in ('val', 'ret') or any(absx.leaves(('x',) + tuple(e[2]), lambda z: z == ('param', 'x') or z[0] in ('variant', 'vfield', 'unk')) for e in calls):
                badh.append(a)
            fed.add(tuple(absx.fmt(e[2][0]) for e in calls if e[1].endswith('::hash')))
        if len(fed) != 1:
            badh.append(a)
    ctx.add('F6.hash-agrees-with-equality', 'LdapUrlExt::hash', loc(HB.root), not badh, 'what hash() feeds to the hasher depends on more than the variant for %s: values that are equal would hash differently' % sorted(set(badh)))
    ctx.add('F6.set-equality-by-variant', 'LdapUrlExt::eq', loc(E.root), not wrong and len(variants) == 6, 'eq() over all variant pairs deviates from "same variant": %s' % wrong[:4])
