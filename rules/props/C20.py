"""C20 - LDAP URL parameters are extracted as RFC 4516 defines them."""
from facts import walk, callee_of, call_args, loc
import hirq, anchors, absx

EXPLANATION = ("get_url_params is abstractly evaluated on all paths (field prefix and extension loop separately, the loop on a generic "
               "extension): the query is split with splitn(4, '?'); field 0 -> attribute list (split on ','), default [\"*\"]; field 1 -> "
               "scope words base/one/sub -> Base/OneLevel/Subtree, default Subtree, anything else InvalidScopeString; field 2 -> filter, "
               "default (objectClass=*); field 3 -> extensions; the base is the path without its leading '/'; base, filter and every "
               "extension value go through percent_decode_str + decode_utf8 and a failure there is DecodingUTF8; extensions are split on "
               "',' then splitn(2, '='), a leading '!' is stripped and sets criticality; the recognition table (1.3.6.1.4.1.10094.1.5.1 -> "
               "Credentials, ...5.2 -> SaslMech, 1.3.6.1.4.1.1466.20037 -> StartTLS, case-insensitive bindname / x-bindpw) carries the "
               "decoded value; unknown critical -> UnrecognizedCriticalExtension, unknown non-critical dropped; the set's equality is by "
               "variant only (evaluated for all 36 variant pairs). Not decided: the url crate's own parsing of exotic strings.")
TRUSTED = ['url crate (path(), query())', 'percent_encoding crate', 'str::split / splitn']
UNDECIDED = ['behaviour of the url crate on exotic strings']
ASSUMPTIONS = ['a generic extension stands for every element of the extension list']

P = 'ldap3::util::get_url_params'
URL = ('param', 'url')

def strip_site(t):
    if isinstance(t, tuple):
        if t and t[0] == 'call' and len(t) == 4:
            return ('call', t[1], tuple(strip_site(x) for x in t[2]), None)
        return tuple(strip_site(x) for x in t)
    return t

def calls_in(t):
    return [x[1].rsplit('::', 1)[-1] for x in absx.leaves(t, lambda x: x[0] == 'call')]

def decoded(pred):
    """term is the Ok payload of map_err(decode_utf8(percent_decode_str(X))) with pred(X)"""
    def f(t):
        if not (t[0] == 'variant' and t[2] == 'Ok'):
            return False
        c = t[1]
        if not (c[0] == 'call' and c[1].endswith('::map_err')):
            return False
        d = c[2][0]
        if not (d[0] == 'call' and d[1].endswith('::decode_utf8')):
            return False
        p = d[2][0]
        return p[0] == 'call' and p[1].endswith('percent_decode_str') and pred(p[2][0])
    return f

def run(ctx):
    f = ctx.facts
    B = hirq.Body(f, f.body(P))
    ctx.analysed['bodies'].add(P)
    root = B.root
    lets = [s for s in root['stmts'] if s['k'] == 'Let']
    names = {}
    ext_idx = None
    for i, s in enumerate(root['stmts']):
        if s['k'] == 'Let':
            for b, name, proj, pn in hirq.pat_bindings(s['pat']):
                names[name] = b
                if name == 'extensions':
                    ext_idx = i
    if ext_idx is None:
        ctx.fail('anchor-missing', 'extensions binding', '', 'unexpected shape of get_url_params'); return
    prefix = dict(root)
    prefix['stmts'] = root['stmts'][:ext_idx]
    prefix['expr'] = None
    I = absx.Interp(f, B, unroll=1, result_combinators=False)
    pouts = I.ev(prefix, absx.St(I.param_env()))
    q = ('call', 'core::str::<impl str>::splitn', (('call', 'core::option::Option::<T>::unwrap_or', (('call', 'url::Url::query', (URL,), None), ('lit', '')), None), ('lit', 4), ('lit', '?')), None)
    def fld(n):
        return ('nth', q, 'next', n)
    n_ok = 0
    seen = {'attrs': set(), 'scope': set(), 'filter': set(), 'base': set()}
    for o in pouts:
        pcs = [(strip_site(a), t) for a, t in o.st.pc]
        def field_state(n):
            """'absent' (None), 'empty' (Some("")), 'given'"""
            some = next((t for a, t in pcs if a == ('is', fld(n), 'Some')), None)
            none = next((t for a, t in pcs if a == ('is', fld(n), 'None')), None)
            if none is True or some is False:
                return 'absent'
            emp = next((t for a, t in pcs if a == ('bin', 'Eq', ('variant', fld(n), 'Some', 0), ('lit', ''))), None)
            if emp is True:
                return 'empty'
            return 'given'
        if o.kind == 'ret':
            v = strip_site(o.val)
            if v[0] == 'ctor' and v[1] == 'Err' and v[2][0][0] == 'ctor' and v[2][0][1] == 'LdapError::InvalidScopeString':
                seen['scope'].add('invalid')
                words = [a[3][1] for a, t in pcs if not t and a[0] == 'bin' and a[1] == 'Eq' and a[2] == ('variant', fld(1), 'Some', 0)]
                ok = set(words) >= {'base', 'one', 'sub'} and absx.leaves(v, lambda x: x == ('variant', fld(1), 'Some', 0)) != []
                ctx.add('F4.invalid-scope-is-error', 'other word', loc(root), ok, 'an unknown scope word must be InvalidScopeString(<word>) (rejected words seen: %s)' % sorted(words))
            elif v[0] == 'tryerr':
                me = v[1]
                seen['filter' if 'objectClass' in str(me) or str(fld(2)) in str(me) else 'base'].add('decode-error')
            continue
        if o.kind != 'val':
            continue
        n_ok += 1
        env = {n: strip_site(o.st.env.get(b, ('unk',))) for n, b in names.items()}
        # query splitting
        qv = env.get('query', ('unk',))
        ctx.add('F2.query-split', 'splitn(4, ?)', loc(root), qv == q or absx.leaves(qv, lambda x: x == q) != [] or strip_site(qv) == q, 'the query is not split with splitn(4, \'?\') of url.query().unwrap_or("")')
        # base
        lead = next((t for a, t in pcs if a[0] == 'bin' and a[1] == 'Eq' and a[3] == ('lit', '/')), None)
        path = ('call', 'url::Url::path', (URL,), None)
        def base_src(x):
            if lead:
                return x[0] == 'index' and x[1] == path and x[2][0] == 'struct' and x[2][1].endswith('RangeFrom') and dict(x[2][2]).get('start') == ('lit', 1)
            return x == path
        seen['base'].add('slash' if lead else 'noslash')
        ctx.add('F1.base', 'leading slash=%s' % lead, loc(root), decoded(base_src)(env.get('base', ('unk',))), 'the base is not the percent-decoded path %s: %s' % ('without its leading /' if lead else '', absx.fmt(env.get('base', ('unk',)))[:100]))
        # attrs
        st = field_state(0)
        a = env.get('attrs', ('unk',))
        seen['attrs'].add(st)
        if st in ('absent', 'empty'):
            ok = a == ('vec', (('lit', '*'),))
        else:
            ok = a[0] == 'call' and a[1].endswith('::split') and a[2] == (('variant', fld(0), 'Some', 0), ('lit', ','))
        ctx.add('F3.attributes', st, loc(root), ok, 'field 0 %s gives attributes %s' % (st, absx.fmt(a)[:80]))
        # scope
        st = field_state(1)
        s = env.get('scope', ('unk',))
        if st in ('absent', 'empty'):
            exp = 'Scope::Subtree'
            seen['scope'].add(st)
        else:
            w = [a2[3][1] for a2, t in pcs if t and a2[0] == 'bin' and a2[1] == 'Eq' and a2[2] == ('variant', fld(1), 'Some', 0)]
            word = w[-1] if w else None
            exp = {'base': 'Scope::Base', 'one': 'Scope::OneLevel', 'sub': 'Scope::Subtree'}.get(word)      # RFC 4516
            seen['scope'].add(word)
        ctx.add('F4.scope', '%s' % (st if st != 'given' else word), loc(root), exp is not None and s == ('ctor', exp, ()), 'scope field %s gives %s, RFC 4516: %s' % (st, absx.fmt(s), exp))
        # filter
        st = field_state(2)
        seen['filter'].add(st)
        fsrc = (lambda x: x == ('lit', '(objectClass=*)')) if st in ('absent', 'empty') else (lambda x: x == ('variant', fld(2), 'Some', 0))
        ctx.add('F5.filter', st, loc(root), decoded(fsrc)(env.get('filter', ('unk',))), 'field 2 %s gives filter %s' % (st, absx.fmt(env.get('filter', ('unk',)))[:100]))
    ctx.floor('F', 'prefix paths', n_ok, 12)
    for k, need in (('attrs', {'absent', 'empty', 'given'}), ('scope', {'absent', 'empty', 'base', 'one', 'sub', 'invalid'}), ('filter', {'absent', 'empty', 'given', 'decode-error'}), ('base', {'slash', 'noslash', 'decode-error'})):
        ctx.add('F.coverage', k, loc(root), seen[k] >= need, '%s cases seen %s, expected %s' % (k, sorted(map(str, seen[k])), sorted(need)))
    # map_err closures give DecodingUTF8
    mes = [n for n, c in walk(root) if n['k'] == 'MethodCall' and n['name'] == 'map_err' and n['args'] and n['args'][0]['k'] == 'Closure']
    ok = len(mes) >= 3 and all(any(x['k'] == 'Path' and (x.get('ctor_of') or x.get('def') or '').endswith('LdapError::DecodingUTF8') for x, _ in walk(m['args'][0]['body'])) for m in mes)
    ctx.add('F1.decode-failure-is-DecodingUTF8', 'map_err', loc(root), ok, 'a percent sequence that is not UTF-8 must become LdapError::DecodingUTF8 (%d conversion sites)' % len(mes))

    # ------------------------------------------------------------------ extensions
    ext_let = root['stmts'][ext_idx]
    def ext_eq(I, cal, args, node, st):
        # LdapUrlExt's PartialEq compares variants only (decided below by F6.set-equality-by-variant)
        if '#' in cal and cal.split('#')[0] in ('core::cmp::PartialEq::ne', 'core::cmp::PartialEq::eq') and all(a[0] == 'ctor' and a[1].startswith('LdapUrlExt::') for a in args):
            same = args[0][1] == args[1][1]
            return [absx.Out('val', ('lit', same if cal.endswith('#Eq') else not same), st)]
        return None
    I2 = absx.Interp(f, B, unroll=1, for_once=True, summaries=[ext_eq], result_combinators=False)
    env0 = dict(I2.param_env())
    env0[names['query']] = q
    eouts = I2.ev(ext_let['init'], absx.St(env0, {('cursor', q): 3}))
    table = {}
    seen = set()
    val_ok = decoded(lambda x: x[0] == 'call' and x[1].endswith('::unwrap_or') and x[2][0][0] == 'nth' and x[2][0][3] == 1 and x[2][1] == ('lit', ''))
    for o in eouts:
        pcs = [(strip_site(a), t) for a, t in o.st.pc]
        st3_some = next((t for a, t in pcs if a == ('is', fld(3), 'Some')), None)
        st3_none = next((t for a, t in pcs if a == ('is', fld(3), 'None')), None)
        has_ext = (st3_some is True or st3_none is False) and not any(a == ('bin', 'Eq', ('variant', fld(3), 'Some', 0), ('lit', '')) and t for a, t in pcs)
        if not has_ext:
            ok = o.kind == 'val' and o.val[0] == 'call' and 'HashSet::<' in o.val[1] and o.val[1].endswith('::new') and not [e for e in o.st.ev if e[0] == 'call' and e[1].endswith('::insert')]
            seen.add('none')
            ctx.add('F6.no-extensions', 'absent/empty', loc(root), ok, 'an absent or empty field 3 must give an empty extension set')
            continue
        ins = [strip_site(e[2][1]) for e in o.st.ev if e[0] == 'call' and e[1].endswith('HashSet::<T, S, A>::insert')]
        crit = any(e[0] == 'assign-local' and e[2] == ('lit', True) for e in o.st.ev)
        ids = [a[3][1] for a, t in pcs if t and a[0] == 'bin' and a[1] == 'Eq' and a[3][0] == 'lit' and isinstance(a[3][1], str) and a[3][1].startswith('1.3.6')]
        lc = [(a[2][0], t) for a, t in pcs if a[0] == 'call' and a[1] == 'ldap3::util::ascii_lc_equal']
        if o.kind == 'ret':
            v = strip_site(o.val)
            if v[0] == 'ctor' and v[1] == 'Err' and v[2][0][0] == 'ctor' and v[2][0][1] == 'LdapError::UnrecognizedCriticalExtension':
                seen.add('unknown-critical')
                ok = crit and not ids and all(not t for _, t in lc) and len(lc) == 2
                ctx.add('F6.unknown-critical-is-error', '!unknown', loc(root), ok, 'UnrecognizedCriticalExtension must be returned exactly for an unrecognised extension marked with "!"')
            continue
        if o.kind not in ('val',):
            continue
        if ids:
            key = ids[-1]
        elif any(t for _, t in lc):
            key = [x[1] for x, t in lc if t][-1] if False else [a0 for a0, t in lc if t][-1][1]
        else:
            key = 'unknown'
        if key == 'unknown':
            seen.add('unknown-noncritical')
            ok = not ins and not crit
            ctx.add('F6.unknown-noncritical-dropped', 'unknown', loc(root), ok, 'an unrecognised non-critical extension must be ignored (inserted: %s)' % [absx.fmt(x)[:40] for x in ins])
            continue
        if len(ins) != 1 or ins[0][0] != 'ctor':
            ctx.fail('F6.recognised-extension-inserted', str(key), loc(root), 'a recognised extension is not inserted exactly once'); continue
        v = ins[0]
        table.setdefault(key, set()).add(v[1])
        if v[2]:
            ctx.add('F6.extension-value-decoded', '%s|crit=%s' % (key, crit), loc(root), val_ok(v[2][0]), 'the extension value is not the percent-decoded text after "=": %s' % absx.fmt(v[2][0])[:100])
    want = {'1.3.6.1.4.1.10094.1.5.1': {'LdapUrlExt::Credentials'}, '1.3.6.1.4.1.10094.1.5.2': {'LdapUrlExt::SaslMech'}, '1.3.6.1.4.1.1466.20037': {'LdapUrlExt::StartTLS'},
            'bindname': {'LdapUrlExt::Bindname'}, 'x-bindpw': {'LdapUrlExt::XBindpw'}}
    ctx.add('F6.recognition-table', 'extensions', loc(root), table == want, 'extension table %s, expected %s' % (table, want))
    for need in ('none', 'unknown-critical', 'unknown-noncritical'):
        ctx.add('F6.coverage', need, loc(root), need in seen, 'no extension path for ' + need)
    # structure of the per-extension prologue
    fors = [n for n, c in walk(ext_let['init']) if n['k'] == 'For']
    ok = len(fors) == 1 and fors[0]['iter']['k'] == 'MethodCall' and fors[0]['iter']['name'] == 'split' and hirq.const_eval(f, fors[0]['iter']['args'][0]) == ','
    ctx.add('F6.split-on-comma', 'extensions', loc(root), ok, 'the extension list is not split on ","')
    sp = [n for n, c in walk(ext_let['init']) if n['k'] == 'MethodCall' and n['name'] == 'splitn']
    ok = len(sp) == 1 and hirq.const_eval(f, sp[0]['args'][0]) == 2 and hirq.const_eval(f, sp[0]['args'][1]) == '='
    ctx.add('F6.split-id-value', 'extensions', loc(root), ok, 'an extension is not split into id and value with splitn(2, "=")')
    bang = [n for n, c in walk(ext_let['init']) if n['k'] == 'Binary' and n['op'] == 'Eq' and hirq.const_eval(f, n['r']) == '!']
    okb = False
    for b in bang:
        for n, c in walk(ext_let['init']):
            if n['k'] == 'If' and any(x is b for x, _ in walk(n['cond'])):
                asg = [x for x, _ in walk(n['then']) if x['k'] == 'Assign']
                okb = len(asg) == 2 and any(hirq.const_eval(f, x['r']) is True for x in asg) and \
                    any(x['r']['k'] == 'AddrOf' and x['r']['e']['k'] == 'Index' and dict((fl['name'], hirq.const_eval(f, fl['e'])) for fl in x['r']['e']['idx'].get('fields', [])).get('start') == 1 for x in asg)
    ctx.add('F6.criticality-marker', '!', loc(root), okb, 'a leading "!" must be stripped from the id and set the criticality flag')
    # case-insensitive names: ascii_lc_equal(<lower-case literal>, input)
    L = hirq.Body(f, f.body('ldap3::util::ascii_lc_equal'))
    ctx.analysed['bodies'].add(L.path)
    lowers = [n for n, c in walk(L.root) if n['k'] == 'Path' and (n.get('inst') or n.get('def') or '').endswith('to_ascii_lowercase')]
    zips = [n for n, c in walk(L.root) if n['k'] == 'MethodCall' and n['name'] == 'zip']
    okz = len(zips) == 1 and len(lowers) == 1 and L.roots(L.origin(zips[0]['recv'])) == {('param', 's')} and any(x is lowers[0] for x, _ in walk(zips[0]['args'][0])) \
        and L.roots(L.origin(zips[0]['args'][0]['recv'])) == {('param', 't')} if zips and zips[0]['args'][0]['k'] == 'MethodCall' else False
    lens = [n for n, c in walk(L.root) if n['k'] == 'Binary' and n['op'] == 'Ne' and all(x['k'] == 'MethodCall' and x['name'] == 'len' for x in (n['l'], n['r']))]
    ctx.add('F6.case-insensitive-compare', 'ascii_lc_equal', loc(L.root), okz and len(lens) == 1, 'ascii_lc_equal must compare s with the ASCII-lower-cased t, length first')
    callsites = [n for n, c in walk(ext_let['init']) if n['k'] == 'Call' and callee_of(n) == 'ldap3::util::ascii_lc_equal']
    okc = len(callsites) == 2 and sorted(hirq.const_eval(f, n['args'][0]) for n in callsites) == ['bindname', 'x-bindpw'] and all(n['args'][1]['k'] == 'Path' and n['args'][1].get('res') == 'local' for n in callsites)
    ctx.add('F6.case-insensitive-names', 'bindname/x-bindpw', loc(root), okc, 'bindname / x-bindpw must be compared as (lower-case literal, extension id)')
    # equality of extensions is by variant only (so a value-bearing probe finds its entry)
    eqp = '<ldap3::util::LdapUrlExt<\'a> as core::cmp::PartialEq>::eq'
    E = hirq.Body(f, f.body(eqp))
    ctx.analysed['bodies'].add(eqp)
    variants = [v['name'] for v in f.adt('ldap3::util::LdapUrlExt')['variants']]
    IE = absx.Interp(f, E, result_combinators=False)
    binds = {d['name']: b for b, d in E.defs.items() if d['kind'] == 'param'}
    wrong = []
    for a in variants:
        for b in variants:
            ta = ('ctor', 'LdapUrlExt::' + a, () if a == 'StartTLS' else (('param', 'x'),))
            tb = ('ctor', 'LdapUrlExt::' + b, () if b == 'StartTLS' else (('param', 'y'),))
            vals = {o.val for o in IE.run(env={binds['self']: ta, binds['other']: tb}) if o.kind in ('val', 'ret')}
            if vals != {('lit', a == b)}:
                wrong.append((a, b, sorted(map(str, vals))))
    ctx.add('F6.set-equality-by-variant', 'LdapUrlExt::eq', loc(E.root), not wrong and len(variants) == 6, 'eq() over all variant pairs deviates from "same variant": %s' % wrong[:4])
