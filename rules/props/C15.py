"""C15 - SearchEntry::construct keeps every attribute value and classifies it correctly."""
from facts import walk, callee_of, call_args, loc
import hirq, anchors, absx

EXPLANATION = ("V2.value-lists-exact, the function from the value list of an attribute to the two maps, decided by exact literal evaluation: `construct` is "
               "interpreted on literal entries (element trees; the tree accessors inlined; element vectors, local vectors and the two maps - as association "
               "lists of known keys - tracked exactly; the UTF-8 tests decided on the literal octets), one per member of a finite partition of value lists: "
               "0, 1, 2, 3 values, each valid UTF-8 (the empty string, a multi-octet character) or not (an impossible octet, a truncated sequence, a stray "
               "continuation octet), in every order, plus repeated values, plus entries with two attributes.  Judged is the single outcome: the attribute is "
               "a key of exactly one map; of `attrs` exactly when every value is valid UTF-8 - an attribute without values included: the unchanged code "
               "inserts it into `attrs` with an empty vector - with the values, decoded, in order; otherwise of `bin_attrs` with all its values as octets, "
               "compared as a multiset (the property fixes no order for a non-text attribute; the unchanged code yields the non-UTF-8 values in the order "
               "received, then the UTF-8 ones in the order received); dn is the objectName sent.  An evaluation that does not end in one outcome with "
               "known map contents is an alarm (not decided).  "
               "V1 positional decode (path-sensitive abstract evaluation with a generic attribute and a generic value): the entry must be "
               "tag 4 constructed, child 0 -> dn (UTF-8), child 1 -> attribute list; per attribute child 0 -> type (UTF-8), child 1 -> "
               "value set, each value a primitive; V2 an inductive argument over the values of one attribute, read from the enumerated "
               "paths of one generic iteration of the attribute loop.  What is carried from one value to the next (found by fixpoint) "
               "may be one boolean flag that starts false and local vectors that start empty and only grow.  Step: the generic value v is "
               "tested for UTF-8 exactly once, in every state an earlier value can leave behind; if v is UTF-8 its decoded text is added "
               "to the text collection (the vector an iterator chain yields, or a local vector) and nothing else happens; if not, its "
               "bytes are pushed, unaltered, to bin_attrs[type] or to a local vector of binary values, and a flag, if there is one, is "
               "true afterwards.  Completion (values exhausted, in the state the steps leave behind; the attribute without values is decided by "
               "V2.value-lists-exact - a generic path always has a value at hand, so one that claims the text collection holding that value is empty "
               "is infeasible, and a path that knows the text collection to be empty may leave out appending it): "
               "if no value failed the only effect is that the text collection is inserted into `attrs` under the attribute type; if "
               "any value failed (flag / non-empty binary vector / v itself) the text collection is appended, as bytes, to "
               "bin_attrs[type], so is a local vector of binary values, and nothing is inserted into `attrs`.  The loop over the "
               "values is only left by exhaustion.  The two maps returned are distinct fresh maps.  Second form of V2 (nothing carried from "
               "value to value; the collected values S are consulted as a whole): phase 1, the decision - a path that completes an attribute "
               "must know whether some value of S fails the UTF-8 test from a primitive that applies that test to every element of S: any / "
               "position / find with 'fails' as the predicate, all with 'is valid', or the tests' Results collected into one Result, over S "
               "itself (not a part of it); partition_point, binary_search, first / last, an indexed value or a count decide nothing about "
               "all values and are named in the alarm.  Phase 2, the placement given the decision - 'none fails': the only effect is "
               "attrs.insert(type, S mapped element by element to the decoded text); the branch of a fallible conversion in which an "
               "element of S fails the test the decision says no element fails is infeasible, so filter_map(.ok()) loses nothing there and "
               "only there; 'some fails': the only effect is S itself, up to a permutation (sort*, reverse: multiset preserved), appended to "
               "bin_attrs[type], nothing in attrs.  Between decision and placement S is only observed, permuted or handed on whole, and no "
               "search runs on a named iterator (it would be left advanced).  Not decided: 'no value lost or "
               "altered' as a statement about contents; duplicate attribute types in one entry (a second insert replaces the first).")
# C15's quantifier - "for all entries: any number of attributes, any number of values per attribute" - presupposes that every well-formed
# entry reaches `construct` at all: the TLV parser keeps every child of a constructed element, ends the children loop only when the
# content is used up, refuses nothing but a failed primitive or nesting beyond the bound, and what it compares with that bound is the
# nesting depth (not the number of attributes / values met so far).  Decided by C07's B7 family on the parser's paths.
# "no value is lost, duplicated or altered": a value reaches `construct` as the content octets the TLV parser cut out of the entry, and how
# many octets that is, is what the length reader says - a long-form length read as another number (a wrong shift, a wrong octet count)
# hands `construct` a truncated value and misparses everything after it.  Decided by C07's B2 reader family (which form, how many
# length octets, their big-endian value by exact literal evaluation for every octet count that occurs, Incomplete while they are missing).
SHARED = [('C07', ('B7.',), 'V3.every-well-formed-entry-is-parsed'), ('C07', ('B2.reader',), 'V4.value-lengths-are-read-exactly')]
TRUSTED = ['std iterator adapters (map, filter_map, collect) preserve order', 'HashMap entry API (rules/assocmap.py: one model per method, on maps whose keys are literals)',
           'Python\'s strict UTF-8 decoder accepts exactly the octet strings core::str::from_utf8 accepts',
           'Iterator::{any, all, position, find} apply their predicate to the elements in order until the answer is certain; slice sort* / reverse permute']
UNDECIDED = ['content equality of values beyond the value lists of the partition (more than three values per attribute, other octet strings: covered by the inductive argument of the '
             'generic rules only as far as placement goes)', 'duplicate attribute types within one entry']
ASSUMPTIONS = ['a generic element stands for every element of a `for` / iterator chain (the loop body is the same for all)']

P = 'ldap3::search::SearchEntry::construct'

LOSSY = ('filter', 'filter_map', 'skip', 'take', 'step_by', 'take_while', 'skip_while', 'map_while', 'dedup', 'truncate', 'split_off', 'drain', 'retain', 'pop', 'remove',
         'swap_remove', 'flatten', 'flat_map')
ACCESSORS = ('entry', 'or_insert_with', 'or_default', 'or_insert', 'get_mut')
MUTATORS = ('insert', 'push', 'extend', 'append', 'remove', 'clear', 'retain', 'drain', 'truncate', 'pop', 'extend_from_slice', 'insert_entry', 'remove_entry')

def calls_in(t):
    return [x[1].rsplit('::', 1)[-1] for x in absx.leaves(t, lambda x: x[0] == 'call')]

def short(e):
    return e[1].rsplit('::', 1)[-1]

def emptiness(pc, X):
    """True / False / None: what the path knows about the vector X being empty (its own shape, or a test of is_empty / len against 0)."""
    if X == ('vec', ()):
        return True
    if X[0] == 'vecpush' or (X[0] == 'vec' and X[1]):
        return False
    def is_len(t):
        return t[0] == 'call' and t[1].rsplit('::', 1)[-1] == 'len' and len(t[2]) == 1 and t[2][0] == X
    for a, t in pc:
        if a[0] == 'call' and a[1].rsplit('::', 1)[-1] == 'is_empty' and len(a[2]) == 1 and a[2][0] == X:
            return t
        if a[0] == 'bin' and a[1] in ('Eq', 'Gt', 'Ge', 'Lt', 'Le'):
            l, r = a[2], a[3]
            if is_len(l) and r == ('lit', 0) and a[1] in ('Eq', 'Gt', 'Le'):
                return t if a[1] in ('Eq', 'Le') else (not t)
            if is_len(l) and r == ('lit', 1) and a[1] in ('Ge', 'Lt'):
                return t if a[1] == 'Lt' else (not t)
            if is_len(r) and l == ('lit', 0) and a[1] in ('Eq', 'Lt', 'Ge'):
                return t if a[1] in ('Eq', 'Ge') else (not t)
    return None

# ---- the two-phase form of the classification ---------------------------------------------------------------------------------
# searches that apply their predicate to the elements of the sequence one after the other until the answer is certain: their answer
# is a statement about *all* elements (absx records them as atoms (kind, sequence, generic element, when the predicate holds))
SEARCH_ALL = ('any', 'position', 'all')
# `&self` methods of a vector / slice: they cannot change what it holds.  (Whether their answer says anything about all the
# elements is another matter: none of these does - partition_point and binary_search probe O(log n) positions and are only
# meaningful on a partitioned / sorted slice, first / last / get look at one element.)
OBSERVE = ('len', 'is_empty', 'first', 'last', 'get', 'contains', 'partition_point', 'binary_search', 'binary_search_by', 'binary_search_by_key',
           'starts_with', 'ends_with', 'is_sorted', 'is_sorted_by', 'is_sorted_by_key')
# `&mut [T]` methods that only move elements around: the multiset of elements is what it was, for every input
PERMUTE = ('sort', 'sort_by', 'sort_by_key', 'sort_by_cached_key', 'sort_unstable', 'sort_unstable_by', 'sort_unstable_by_key', 'reverse', 'rotate_left',
           'rotate_right', 'swap')

def whole_seqs(t, ok):
    """the value sequences (iterator chains `ok` accepts) that t mentions as a whole - not through one generic element of them"""
    out = []
    def rec(x):
        if not isinstance(x, tuple) or not x:
            return
        if isinstance(x[0], str):
            if x[0] == 'elem':
                return
            if x[0] == 'many' and ok(x):
                out.append(x)
                return
        for y in x:
            rec(y)
    rec(t)
    return out

def collected_results(a, is_utf8_test):
    """a is the atom `C is Ok` for C = the UTF-8 tests of the elements of a sequence, collected into one Result: that sequence, or None.
    (FromIterator for Result: the collection is Ok exactly when every item is Ok, and its payload holds the items' payloads in order.)"""
    if a[0] == 'is' and a[2] == 'Ok' and a[1][0] == 'many':
        src, el, item = a[1][1:4]
        if el[0] == 'elem' and el[1] == src and is_utf8_test(('is', item, 'Ok')) and item[2][0] == el:
            return src
    return None

def whole_value_sets(paths, outer, ok, is_utf8_test):
    """the value sequences the conditions of the paths that complete an attribute talk about as a whole"""
    found = []
    for o in paths:
        if o.target == outer:
            for a, _t in o.st.pc:
                src = collected_results(a, is_utf8_test)
                for x in ([src] if src is not None and ok(src) else whole_seqs(a, ok)):
                    if x not in found:
                        found.append(x)
    return found

def two_phase(ctx, B, paths, outer, S, amap, bmap, is_utf8_test, map_events, is_type, keyed, lossy_source):
    """V2 for the form `collect the values; ask whether one of them fails the UTF-8 test; place all of them accordingly`.
    Phase 1, the decision: the path that completes an attribute must know whether *some value of S fails the UTF-8 test* from a
    search that visits every element of S (any / all / position / find over S itself, with the UTF-8 test of the generic element
    as the predicate).  Phase 2, the placement: knowing `none fails`, the only effect is attrs.insert(type, S converted element
    by element by the UTF-8 decoding - which cannot fail then, so a conversion that would drop a failing element drops
    nothing); knowing `some fails`, the only effect is that S itself, up to a permutation, is appended to bin_attrs[type]."""
    root = loc(B.root)
    def is_elem(e):
        return e[0] == 'elem' and e[1] == S
    def test_of(a):
        """the element of S the atom a tests for UTF-8, or None"""
        if is_utf8_test(a) and is_elem(a[1][2][0]):
            return a[1][2][0]
        return None
    def over_S(x):
        while x[0] == 'many':
            if x == S:
                return True
            x = x[1]
        return x == S
    def decision(pc):
        """what the path knows about `some value of S fails the UTF-8 test`, from searches over all of S: a set of 'some' / 'none'"""
        res = set()
        for a, t in pc:
            if a[0] in SEARCH_ALL and a[1] == S and is_elem(a[2]) and len(a[3]) == 1 and len(a[3][0]) == 1 and test_of(a[3][0][0][0]) == a[2]:
                holds_when_valid = a[3][0][0][1]
                if a[0] in ('any', 'position') and not holds_when_valid:
                    # any(fails) / position(fails) / find(fails) is true / Some exactly when some element fails
                    res.add('some' if t else 'none')
                elif a[0] == 'all' and holds_when_valid:
                    # all(valid) is true exactly when no element fails (also for no elements at all)
                    res.add('none' if t else 'some')
            elif collected_results(a, is_utf8_test) == S:
                res.add('none' if t else 'some')
        return res
    def governed_by(pc):
        """the primitives, other than the searches above, through which the path condition looks at S as a whole"""
        names = []
        def add(n):
            if n not in names:
                names.append(n)
        for a, _t in pc:
            if a[0] in SEARCH_ALL:
                if a[1] == S:
                    add('`%s` over the value set with a predicate other than "%s"' % (a[0], 'is valid UTF-8' if a[0] == 'all' else 'is not valid UTF-8'))
                elif any(over_S(x) for x in whole_seqs(a[1], lambda y: True)):
                    add('`%s` over a part of the value set (%s)' % (a[0], ', '.join('`%s`' % c for c in calls_in(a[1]) if c in LOSSY) or 'an adaptor'))
                continue
            for c in absx.leaves(a, lambda x: x[0] == 'call' and any(isinstance(y, tuple) and y and over_S(y) for y in x[2])):
                if short(c) != 'len':
                    add('`%s`' % short(c))
            if absx.leaves(a, lambda x: x[0] == 'index' and over_S(x[1])):
                add('a test of one indexed value')
        if not names and any(over_S(x) for a, _t in pc for x in whole_seqs(a, lambda y: True)):
            add('a test of the number of values')
        return names

    # the term domain does not tell a collection from an iterator over it (iter / into_iter / collect are transparent there).  That is
    # harmless as long as every search starts from the collection afresh; a search on a *named* iterator leaves it advanced past the
    # first hit (any / all / position / find stop there), and what is read from it afterwards is not the value set any more
    for n, _c in walk(B.root):
        cal = callee_of(n) or '' if n.get('k') in ('MethodCall', 'Call') else ''
        if ('iterator::Iterator::' in cal or 'core::iter::traits::iterator::Iterator>::' in cal) and cal.rsplit('::', 1)[-1] in ('any', 'all', 'position', 'find', 'find_map', 'rposition', 'try_fold', 'try_for_each', 'last', 'count'):     # (next / nth are cursor reads with ordinals in absx)
            recv = n.get('recv') if n['k'] == 'MethodCall' else (n.get('args') or [None])[0]
            r = hirq.peel_refs(recv) if recv is not None else None
            if r is not None and r.get('k') == 'Path' and r.get('res') == 'local' and not hirq.strip_refs(r.get('ty') or '').startswith(('alloc::vec::Vec<', '[')):
                ctx.fail('V2.value-set-only-permuted', '%s on a named iterator' % cal.rsplit('::', 1)[-1], loc(n),
                         '`%s` advances the iterator `%s` it is called on; what is taken from that iterator afterwards is not the whole value set; not decidable here' % (
                             cal.rsplit('::', 1)[-1], r.get('name') or '?'))

    # every value of the attribute is in S: between the decoded value set and S there are only total element-wise conversions
    lossy = lossy_source(S, ('elem', S, 0))
    ctx.add('V2.every-value-is-classified', 'value set', root, lossy is None,
            'a value of the attribute can be dropped before it is classified as text or binary: %s' % lossy)

    seen, pruned = set(), 0
    for o in paths:
        if o.target != outer:
            ctx.fail('V2.loop-structure', 'two-phase form', root, 'a path of the attribute loop ends inside another loop although nothing is carried from value to value; not decidable here')
            continue
        D = decision(o.st.pc)
        elem_tests = [(test_of(a), t) for a, t in o.st.pc if test_of(a) is not None]
        # infeasible paths: two searches over all of S that contradict each other; an element of S failing the very test that,
        # by the decision, no element of S fails
        if len(D) == 2 or (D == {'none'} and any(not t for _e, t in elem_tests)):
            pruned += 1
            continue
        A, Bm = map_events(o)
        # S holds the same values from the decision to the placement: apart from observers and permutations it is only handed on, whole
        for e in o.st.ev:
            if e[0] != 'call':
                continue
            for i, a in enumerate(e[2]):
                if not (isinstance(a, tuple) and a and over_S(a)):
                    continue
                n = short(e)
                # (an Iterator method consumes an iterator over S - by shared reference, or by value and then S is gone and only the
                # method's result, a different term, can be placed; S itself is not changed by it)
                okc = (i == 0 and (n in OBSERVE or 'iterator::Iterator::' in e[1] or 'core::iter::traits::iterator::Iterator>::' in e[1])) or (i == 0 and n in PERMUTE and a == S) \
                    or (i == 1 and n in ('extend', 'append')) or (i == 2 and n == 'insert')
                ctx.add('V2.value-set-only-permuted', n, loc(e[3]) if isinstance(e[3], dict) else root, okc,
                        'the collected values are handed to `%s`: it may lose, duplicate or alter what they are between the decision and the placement; not decidable here' % n)
        if not A and not [e for e in Bm if short(e) in MUTATORS]:
            ctx.fail('V2.attribute-stored', 'generic attribute', root, 'on some path an attribute is stored in neither map')
            continue
        if not D:
            by = governed_by(o.st.pc)
            ctx.fail('V2.decision-inspects-every-value', ', '.join(by).replace('`', '') or 'no test of the value set', root,
                     'whether every value of the attribute is valid UTF-8 is decided by %s: that does not apply the UTF-8 test to every value (only any / all / position / find over '
                     'the whole value set with that test as the predicate do), so an attribute with a value it does not look at is placed by guesswork - attrs %s, bin_attrs %s' % (
                         ' and '.join(by) or 'nothing that looks at the values', [short(e) for e in A], [short(e) for e in Bm if short(e) in MUTATORS]))
            continue
        some = D == {'some'}
        seen.add(some)
        sit = 'some value is not UTF-8' if some else 'every value is UTF-8'
        if not some:
            ins = [e for e in A if short(e) == 'insert']
            ok = len(ins) == 1 and len(A) == 1 and not Bm and len(ins[0][2]) == 3 and ins[0][2][0] == amap and is_type(ins[0][2][1])
            if ok:
                tv = ins[0][2][2]
                # the text collection: S mapped element by element to the decoded text of the element (the payload of the successful
                # UTF-8 test of that element); one item per element, in order
                # (or the payload of the Results of those tests collected into one Result, known to be Ok)
                if tv[0] == 'variant' and tv[2:] == ('Ok', 0) and collected_results(('is', tv[1], 'Ok'), is_utf8_test) == S:
                    tv = ('many', S, tv[1][2], ('variant', tv[1][3], 'Ok', 0))
                ok = tv[0] == 'many' and tv[1] == S and is_elem(tv[2]) and tv[3][0] == 'variant' and tv[3][2:] == ('Ok', 0) \
                    and test_of(('is', tv[3][1], 'Ok')) == tv[2]
            ctx.add('V2.all-text-attribute-goes-to-attrs', sit, root, ok,
                    'the vector of all the values, decoded, must be inserted into `attrs` under the attribute type, and nothing into bin_attrs: attrs %s, bin_attrs %s' % (
                        [short(e) for e in A], [short(e) for e in Bm]))
        else:
            muts = [e for e in Bm if short(e) in MUTATORS]
            ok = not A and len(muts) == 1 and short(muts[0]) in ('extend', 'append') and len(muts[0][2]) == 2 and keyed(muts[0][2][0])
            if ok:
                bv = muts[0][2][1]
                ok = bv == S or (bv[0] == 'many' and bv[1] == S and bv[3] == bv[2])
            ctx.add('V2.mixed-attribute-moves-text-to-bin_attrs', sit, root, ok,
                    'once any value of the attribute is not UTF-8, all its values (as bytes, each once) must be appended to bin_attrs[type] and the attribute must not appear in '
                    '`attrs`: attrs %s, bin_attrs %s' % ([short(e) for e in A], [short(e) for e in Bm]))
    ctx.note('two-phase form: %d generic paths, %d infeasible under the decision they took' % (len(paths), pruned))
    for need in (False, True):
        ctx.add('V2.coverage', 'attribute completed, some value non-UTF-8=%s' % need, root, need in seen, 'no path for this situation')

# ---- V2.value-lists-exact: the function from the value list of an attribute to the two maps, by exact literal evaluation ----------
# `construct` is interpreted on literal entries (element trees as the TLV parser builds them; the accessors of the tree type are
# inlined, the element vectors, the local vectors and the two maps - rules/assocmap.py - are tracked exactly, str::from_utf8 /
# String::from_utf8 / from_utf8_lossy are decided on the literal octets), one entry per member of a finite partition of value lists:
# 0, 1, 2 and 3 values, each valid UTF-8 or not, in every order - all text, all binary, binary then text, text then binary,
# text-binary-text, ... -, with the empty string, a multi-octet character, a truncated sequence and repeated values among them.
# Nothing of the spelling is read: a flag or none, one pass or two, iterator chain or loop, entry() / get_mut() / insert(), a
# temporary vector or none all come to the one outcome that is judged - what the two maps hold under the attribute's type:
#   * the attribute is a key of exactly one of the maps;
#   * of `attrs` exactly when every value is valid UTF-8 - the attribute without values included (the unchanged code inserts it
#     into `attrs` with an empty vector: no value failed the test) -, and then `attrs` holds the values, decoded, in order;
#   * otherwise of `bin_attrs`, which then holds ALL its values as octets, each as often as it was sent.  The property fixes no
#     order there (the unchanged code yields the non-UTF-8 values in the order received followed by the UTF-8 ones in the order
#     received: [t1, b1, t2] -> [b1, t1, t2]), so the lists of a non-text attribute are compared as multisets.
# Entries with two attributes decide that what one attribute leaves behind (a flag, a vector, a map entry) does not reach the next.
T_VALUES = (b'a', b'', b'\xc3\xa9b')            # valid UTF-8: one character, the empty string, a two-octet character and another
B_VALUES = (b'\xff', b'\xc3', b'a\x80\x00')      # not valid UTF-8: an octet that never occurs, a truncated sequence, a stray continuation octet

def value_lists():
    import itertools
    out = []
    for n in range(4):
        for kinds in itertools.product('TB', repeat=n):
            out.append([(T_VALUES if k == 'T' else B_VALUES)[i] for i, k in enumerate(kinds)])
    out += [[b'a', b'a'], [b'\xff', b'\xff'], [b'a', b'\xff', b'a'], [b'\xff', b'a', b'\xff'], [b''], [b'', b'\xff']]
    res = []
    for v in out:
        if v not in res:
            res.append(v)
    return res

def entry_tree(attrs):
    """SearchResultEntry ::= [APPLICATION 4] SEQUENCE { objectName LDAPDN, attributes SEQUENCE OF SEQUENCE { type, vals SET OF value } }"""
    import envelope as env
    return env.cons('Application', 4, [env.prim('Universal', 4, b'cn=x'), env.cons('Universal', 16, [
        env.cons('Universal', 16, [env.prim('Universal', 4, name), env.cons('Universal', 17, [env.prim('Universal', 4, v) for v in vals])]) for name, vals in attrs])])

def is_utf8(b):
    try:
        b.decode('utf-8')
        return True
    except UnicodeDecodeError:
        return False

def show_values(vals):
    return '[%s]' % ', '.join(("''" if not v else v.hex()) for v in vals)

def held(t, as_text):
    """the values a vector term of one of the maps holds, as Python strings (attrs) / octet strings (bin_attrs: a String that became
    a Vec<u8> through into_bytes is its UTF-8 encoding); None when an element is not a known value"""
    els = absx.listed_elems(t)
    if els is None:
        return None
    out = []
    for x in els:
        if x[0] != 'lit':
            return None
        if as_text:
            if not isinstance(x[1], str):
                return None
            out.append(x[1])
        elif isinstance(x[1], str):
            out.append(x[1].encode('utf-8'))
        elif isinstance(x[1], bytes):
            out.append(x[1])
        else:
            return None
    return out

def judge_entry(attrs, outs):
    """what is wrong with the outcomes of `construct` on the entry with these (type, values) attributes: a list of sentences"""
    import assocmap
    rets = [o for o in outs if o.kind in ('val', 'ret')]
    if len(outs) != 1 or len(rets) != 1:
        kinds = sorted({'a panic' if o.kind == 'div' else 'an unfinished loop' if o.kind == 'loop' else 'a return' if o.kind in ('val', 'ret') else o.kind for o in outs})
        if len(outs) == 1 and outs[0].kind == 'div':
            pe = [e for e in outs[0].st.ev if e[0] == 'panic']
            return ['`construct` panics on this well-formed entry (%s)' % (pe[-1][1].rsplit('::', 1)[-1] if pe else '?')]
        return ['not decided: the literal evaluation ends in %d outcomes (%s) instead of one' % (len(outs), ', '.join(kinds) or 'none')]
    o = rets[0]
    if o.val[0] != 'struct':
        return ['not decided: the value returned is not a struct expression (%s)' % absx.fmt(o.val)[:60]]
    fl = dict(o.val[2])
    wrong = []
    if fl.get('dn') != ('lit', 'cn=x'):
        wrong.append('dn is %s, not the objectName sent (cn=x)' % absx.fmt(fl.get('dn', ('unk',)))[:40])
    A, Bm = assocmap.contents(o.st, fl.get('attrs', ('unk',))), assocmap.contents(o.st, fl.get('bin_attrs', ('unk',)))
    if A is None or Bm is None:
        why = [e for e in o.st.ev if e[0] == 'map-poisoned']
        return wrong + ['not decided: %s is not a map whose content the evaluation could follow%s' % (
            ' / '.join(n for n, m in (('attrs', A), ('bin_attrs', Bm)) if m is None), ' (handed to `%s`)' % why[0][2].rsplit('::', 1)[-1] if why else '')]
    A, Bm = dict(A), dict(Bm)
    for name, vals in attrs:
        k = ('lit', name.decode())
        who = 'the attribute' if len(attrs) == 1 else 'attribute `%s` (values %s)' % (name.decode(), show_values(vals))
        in_a, in_b = k in A, k in Bm
        ha = held(A[k], True) if in_a else None
        hb = held(Bm[k], False) if in_b else None
        sa = ('attrs holds %s' % (show_values([x.encode() for x in ha]) if ha is not None else absx.fmt(A[k])[:60])) if in_a else ''
        sb = ('bin_attrs holds %s' % (show_values(hb) if hb is not None else absx.fmt(Bm[k])[:60])) if in_b else ''
        all_text = all(is_utf8(v) for v in vals)
        if in_a and in_b:
            wrong.append('%s is a key of both maps, %s, %s' % (who, sa, sb))
        elif not in_a and not in_b:
            wrong.append('%s is a key of neither map: it is lost' % who)
        elif all_text and in_b:
            wrong.append('every value of %s is valid UTF-8%s but it is a key of bin_attrs, not of attrs; %s' % (who, ' (it has none)' if not vals else '', sb))
        elif not all_text and in_a:
            wrong.append('%s has a value that is not valid UTF-8 but is a key of attrs, not of bin_attrs; %s' % (who, sa))
        elif all_text:
            if ha != [v.decode('utf-8') for v in vals]:
                wrong.append('%s: attrs must hold its values, decoded, in the order sent; %s' % (who, sa))
        else:
            if hb is None or sorted(hb) != sorted(vals):
                wrong.append('%s: bin_attrs must hold all its values as octets, each as often as sent (in any order); %s' % (who, sb))
    extra = [absx.fmt(k) for k in list(A) + list(Bm) if k not in [('lit', n.decode()) for n, _v in attrs]]
    if extra:
        wrong.append('the maps hold keys that are no attribute type of the entry: %s' % ', '.join(extra)[:80])
    return wrong

def exact_value_lists(ctx, f, B):
    import assocmap
    inl = lambda c: c.startswith('lber::structure::') or c.startswith('<lber::structure::') or c.startswith('lber::common::')
    def construct(attrs):
        I = absx.Interp(f, B, summaries=[assocmap.summary], unroll=8, inline=inl, combinators=True, places=True, local_try=True)
        I.exact_seqs = True
        env = I.param_env()
        params = [b for b, v in env.items() if v[0] == 'param']
        if len(params) != 1:
            return None
        env[params[0]] = ('ctor', 'ResultEntry', (entry_tree(attrs), ('vec', ())))
        return I.run(env=env)
    n = 0
    cases = [[(b'a', vals)] for vals in value_lists()]
    cases += [[(b'a', [b'\xff']), (b'b', [b'x'])], [(b'a', [b'x']), (b'b', [b'\xff'])], [(b'a', [b'x', b'\xff']), (b'b', [b'\xfe', b'y'])],
              [(b'a', [b'\xff', b'x']), (b'b', [])], [(b'a', []), (b'b', [b'\xff'])], [(b'a', [b'x']), (b'b', [b'y', b'z'])]]
    for attrs in cases:
        outs = construct(attrs)
        if outs is None:
            ctx.fail('V2.value-lists-exact', 'entry parameter', loc(B.root), '`construct` does not take the one entry it decodes as its only parameter; not decidable here')
            return
        wrong = judge_entry(attrs, outs)
        n += 1
        inst = 'values %s' % show_values(attrs[0][1]) if len(attrs) == 1 else 'attributes %s' % ', '.join('%s %s' % (a.decode(), show_values(v)) for a, v in attrs)
        ctx.add('V2.value-lists-exact', inst, loc(B.root), not wrong,
                '%s: %s' % (inst, '; '.join(wrong)) +
                ' - every attribute must be a key of exactly one map: of `attrs` (values as text, in order) exactly when all its values are valid UTF-8, otherwise of `bin_attrs` (all its values as octets)')
    ctx.floor('V2.value-lists-exact', 'entries `construct` was interpreted on', n, 20)

def run(ctx):
    f = ctx.facts
    B = hirq.Body(f, f.body(P))
    ctx.analysed['bodies'].add(P)
    exact_value_lists(ctx, f, B)
    # every loop is entered from the states its back edge can carry (flags exactly, local vectors as an unknown prefix); a path ends
    # where it reaches a back edge ('loop'), so the paths through the attribute loop are one generic iteration of it
    I = absx.Interp(f, B, unroll=1, for_once=False, result_combinators=True, combinators=True)
    I.carry_vecs = True
    allouts = I.run()
    outs = [o for o in allouts if o.kind in ('val', 'ret') and o.val[0] == 'struct']
    ctx.floor('V', 'returning paths', len(outs), 1)
    if not outs:
        return
    fl0 = dict(outs[0].val[2])
    amap, bmap = fl0.get('attrs', ('unk',)), fl0.get('bin_attrs', ('unk',))

    def peel_value(t):
        """the generic element whose primitive content t is: t is an element of a sequence of contents, or expect_primitive of an element"""
        if t[0] == 'elem':
            return t
        if t[0] == 'variant' and t[2] == 'Some' and t[1][0] == 'call' and t[1][1].endswith('::expect_primitive') and len(t[1][2]) == 1 and t[1][2][0][0] == 'elem':
            return t[1][2][0]
        return None
    def is_utf8_test(a):
        # from_utf8(v) is Ok  <=>  v is valid UTF-8  <=>  String::from_utf8_lossy(v) is Cow::Borrowed (and then borrows v itself)
        if a[0] != 'is' or a[1][0] != 'call' or len(a[1][2]) != 1 or peel_value(a[1][2][0]) is None:
            return False
        fn = a[1][1].rsplit('::', 1)[-1]
        return (a[2] == 'Ok' and fn == 'from_utf8') or (a[2] == 'Cow::Borrowed' and fn == 'from_utf8_lossy')
    def utf8_tests(o):
        return [(a, t) for a, t in o.st.pc if is_utf8_test(a)]
    def rooted(t, m):
        return t == m or bool(absx.leaves(t, lambda x: x == m))
    def map_events(o):
        ev = [e for e in o.st.ev if e[0] == 'call' and e[2] and short(e) in ACCESSORS + MUTATORS]
        return [e for e in ev if rooted(e[2][0], amap)], [e for e in ev if rooted(e[2][0], bmap)]

    for o in outs:
        fl = dict(o.val[2])
        dn = fl.get('dn', ('unk',))
        # ---- V1
        tagsn = [x for x in absx.leaves(dn, lambda x: x[0] == 'nth')]
        ok = len(tagsn) == 1 and tagsn[0][3] == 0 and 'from_utf8' in calls_in(dn) and 'expect_primitive' in calls_in(dn)
        base = tagsn[0][1] if tagsn else ('unk',)
        ok = ok and 'expect_constructed' in calls_in(base) and any(x[1].endswith('match_id') and x[2][1:] == (('lit', 4),) and x[2][0] == ('field', ('param', 're'), '0')
                                                                    for x in absx.leaves(base, lambda x: x[0] == 'call'))
        ctx.add('V1.dn', 'child 0', loc(B.root), ok, 'dn is not the UTF-8 content of child 0 of the [APPLICATION 4] constructed entry: %s' % absx.fmt(dn)[:100])
        am, bm = fl.get('attrs', ('unk',)), fl.get('bin_attrs', ('unk',))
        ok = am[0] == 'call' and bm[0] == 'call' and am[1].endswith('HashMap::<K, V>::new') and bm[1].endswith('HashMap::<K, V>::new') and am != bm and (am, bm) == (amap, bmap)
        ctx.add('V1.two-maps', 'attrs/bin_attrs', loc(B.root), ok, 'the returned maps are not two distinct fresh maps')
        # the entry is only returned between attributes: a returning path has not looked at a value or touched a map half-way
        A, Bm = map_events(o)
        ctx.add('V2.every-value-is-classified', 'return', loc(B.root), not utf8_tests(o) and not A and not Bm,
                'the entry is returned from inside the loops over its attributes / their values: the remaining ones are lost')

    # ---- the loops: the attribute loop, and (when the values are walked by a loop of their own rather than by an iterator chain) the value loop
    iters = [o for o in allouts if o.kind == 'loop']
    targets = []
    for o in iters:
        if o.target not in targets:
            targets.append(o.target)
    nodes = [B.by_id.get(t) for t in targets]
    outer = inner = None
    if len(targets) == 1 and nodes[0] is not None:
        outer = targets[0]
    elif len(targets) == 2 and all(n is not None for n in nodes):
        inside = [any(x is nodes[1 - i] for x, _c in walk(nodes[i].get('body') or {'k': '?'})) for i in (0, 1)]
        if inside[0] != inside[1]:
            outer, inner = (targets[0], targets[1]) if inside[0] else (targets[1], targets[0])
    if outer is None:
        ctx.fail('V2.loop-structure', 'attribute loop / value loop', loc(B.root),
                 'expected one loop over the attributes and at most one loop over the values of an attribute inside it (found %d loops); not decidable here' % len(targets))
        return

    def value_loop_event(e):
        return e[0] == 'loop-carried' and (e[3]['k'] == 'Closure' or (inner is not None and e[3].get('id') == inner))
    # a local vector that is carried stands, in the generic iteration, for whatever the earlier values left in it; the exact initial
    # value the interpreter also starts from is an instance of that, so those paths add nothing
    wide = {e[1] for o in iters for e in o.st.ev if e[0] == 'loop-carried' and e[2][0] == 'carried'}
    def generic(o):
        return all(e[2][0] == 'carried' for e in o.st.ev if e[0] == 'loop-carried' and e[1] in wide)
    paths = [o for o in iters if generic(o)]
    ctx.floor('V', 'paths that complete a generic attribute', len([o for o in paths if o.target == outer]), 2)

    # ---- what is carried from one value to the next: at most one boolean flag, starting false; local vectors, starting empty
    flagb, vecs, undecidable = None, set(), False
    for o in paths:
        for e in o.st.ev:
            if e[0] != 'loop-carried':
                continue
            if not value_loop_event(e):
                # state carried from one attribute to the next: it must not reach the classification (seen below through the initial
                # values of the value loop's own state)
                continue
            if e[2] in (absx.TRUE, absx.FALSE):
                if flagb is not None and flagb != e[1]:
                    undecidable = True
                flagb = e[1]
                ctx.add('V2.flag-starts-false', 'per attribute', loc(e[3]), e[4] == absx.FALSE,
                        'state carried from one value to the next must start as `false` for every attribute (starts as %s)' % absx.fmt(e[4]))
            elif e[2][0] == 'carried' and e[4][0] in ('vec', 'vecpush', 'carried'):
                vecs.add(e[1])
                ctx.add('V2.accumulator-starts-empty', 'per attribute', loc(e[3]), e[4] == ('vec', ()),
                        'a vector filled value by value must start empty for every attribute (starts as %s)' % absx.fmt(e[4])[:80])
            else:
                undecidable = True
    if undecidable:
        ctx.fail('V2.carried-state', 'non-boolean', loc(B.root), 'state carried across the values of one attribute is neither one boolean flag nor a vector that is filled; not decidable here')
        return
    for o in paths:
        for e in o.st.ev:
            if e[0] == 'loop-carried' and not value_loop_event(e) and (e[1] == flagb or e[1] in vecs):
                ctx.fail('V2.flag-starts-false' if e[1] == flagb else 'V2.accumulator-starts-empty', 'carried from one attribute to the next', loc(e[3]),
                         'the state the classification of the values keeps is carried from one attribute to the next: it must start afresh for every attribute')
    def head(o, b):
        for e in o.st.ev:
            if e[0] == 'loop-carried' and e[1] == b and value_loop_event(e):
                return e[2]
        return None

    # attribute type: from_utf8 of child 0 of the generic attribute
    def is_type(t):
        ns = [x for x in absx.leaves(t, lambda x: x[0] == 'nth')]
        return len(ns) >= 1 and ns[0][3] == 0 and 'from_utf8' in calls_in(t) and bool(absx.leaves(ns[0][1], lambda x: x[0] == 'elem'))
    def values_src_ok(t):
        ns = [x for x in absx.leaves(t, lambda x: x[0] == 'nth' and absx.leaves(x[1], lambda y: y[0] == 'elem'))]
        return any(x[3] == 1 for x in ns) and 'expect_constructed' in calls_in(t) and 'expect_primitive' in calls_in(t)
    def keyed(t):
        """the place t inside bin_attrs is the entry of the attribute's type"""
        return any(x[1].rsplit('::', 1)[-1] in ('entry', 'get_mut') and len(x[2]) >= 2 and x[2][0] == bmap and is_type(x[2][1]) for x in absx.leaves(t, lambda x: x[0] == 'call'))

    def fresh_slot(t, m):
        """t is the place `m.entry(type).or_default()` / `.or_insert_with(Vec::new)` / `.or_insert(vec![])` yields: the vector the map m
        holds under the attribute's type, created empty when the type has none yet"""
        if t[0] != 'call' or not t[2] or t[2][0][0] != 'call' or short(t[2][0]) != 'entry' or len(t[2][0][2]) != 2 or t[2][0][2][0] != m or not is_type(t[2][0][2][1]):
            return False
        n = short(t)
        return (n == 'or_default' and len(t[2]) == 1) or (n == 'or_insert' and len(t[2]) == 2 and t[2][1] == ('vec', ())) \
            or (n == 'or_insert_with' and len(t[2]) == 2 and t[2][1][0] == 'fn' and t[2][1][1].endswith(('alloc::vec::Vec::<T>::new', 'core::default::Default>::default')))
    def placed_in_attrs(A):
        """the collection that the events A on `attrs` make the value of the attribute's type, or None: `attrs.insert(type, X)`, or
        `attrs.entry(type).or_default().extend(X)` - the same map for an entry whose attribute types are distinct (the property's
        well-formed entries; what a second attribute of the same type does is not decided, see UNDECIDED): the vector is created
        empty and X appended to it"""
        muts = [e for e in A if short(e) in MUTATORS]
        if len(muts) != 1 or any(short(e) not in ACCESSORS for e in A if e not in muts):
            return None
        e = muts[0]
        if short(e) == 'insert' and len(A) == 1 and len(e[2]) == 3 and e[2][0] == amap and is_type(e[2][1]):
            return e[2][2]
        if short(e) in ('extend', 'append') and len(e[2]) == 2 and fresh_slot(e[2][0], amap):
            return e[2][1]
        return None

    def lossy_source(lvl, v):
        """why a value of the attribute may never reach the sequence lvl (whose element, or its primitive content, is v): between the
        attribute's decoded value set and lvl there may only be total, element-wise conversions; None when that is so"""
        lossy, depth_l = None, 0
        while lvl[0] == 'many' and depth_l < 8:
            depth_l += 1
            if lvl[3] == lvl[2] or lvl[3] == ('skip',) or not absx.leaves(lvl[3], lambda x, e=lvl[2]: x == e):
                lossy = 'an adaptor over the value set keeps only some of its elements (filter / filter_map)'
            lvl = lvl[1]
        bad_calls = [c for c in calls_in(lvl) if c in LOSSY]
        if bad_calls:
            lossy = 'the value set goes through %s before it is classified' % bad_calls[0]
        if lossy is None and not values_src_ok(v):
            lossy = 'the tested bytes are not the primitive content of an element of child 1 of the attribute'
        return lossy

    # ---- the two-phase form: nothing is carried from one value to the next; the values are collected and the collection is asked,
    # as a whole, whether one of its values fails the UTF-8 test
    if flagb is None and not vecs and inner is None:
        sets = whole_value_sets(paths, outer, values_src_ok, is_utf8_test)
        if len(sets) > 1:
            ctx.fail('V2.loop-structure', 'value set', loc(B.root), 'the paths that complete an attribute consult %d different collections of its values; not decidable here' % len(sets))
            return
        if sets:
            two_phase(ctx, B, paths, outer, sets[0], amap, bmap, is_utf8_test, map_events, is_type, keyed, lossy_source)
            return

    # ---- pass 1, the steps: every path that classifies the generic value v
    info = {}
    text_into, bin_into = set(), set()       # where a text / binary value goes: a local vector (its binding), 'chain' (what the iterator chain yields), 'direct' (bin_attrs[type])
    for o in paths:
        tests = utf8_tests(o)
        d = info[id(o)] = {'tests': tests, 'ok': True}
        A, Bm = map_events(o)
        d['A'], d['Bm'] = A, Bm
        completes = o.target == outer
        if inner is not None:
            if completes:
                # the values were walked by a loop of their own: it has to be left by exhaustion, after which no value is looked at
                done = any(a[0] == 'for-more' and a[1] == inner and not t for a, t in o.st.pc)
                if not ctx.add('V2.every-value-is-classified', 'value loop left by exhaustion', loc(B.root), done and not tests,
                               'an attribute is completed although the loop over its values was left early (break / continue of the attribute loop): the remaining values are lost'):
                    d['ok'] = False
                continue
        if len({a for a, t in tests}) != 1:
            ctx.fail('V2.single-utf8-test', 'value', loc(B.root), 'each value must be tested for UTF-8 exactly once (found %d tests)' % len(tests))
            d['ok'] = False
            continue
        test, is_text = tests[0]
        v = test[1][2][0]          # the tested bytes: the primitive content of the generic value element
        d['test'], d['is_text'] = test, is_text
        # every value of the set reaches the classification: between the attribute's decoded value set and the UTF-8 test there are
        # only total, element-wise conversions - no adaptor that can drop, skip or cut elements
        lossy = lossy_source(peel_value(v)[1], v)
        ctx.add('V2.every-value-is-classified', 'value set', loc(B.root), lossy is None,
                'a value of the attribute can be dropped before it is classified as text or binary: %s' % lossy)
        decoded = ('variant', test[1], test[2], 0)
        def same_bytes(t, v=v, test=test):
            """t is v itself, or the bytes handed back by the failed String::from_utf8(v)"""
            # (FromUtf8Error::into_bytes is a transparent conversion in the term domain: the error of String::from_utf8 owns the bytes)
            return t == v or (t == ('variant', test[1], 'Err', 0) and test[1][1].endswith('string::String::from_utf8'))
        pushes = [e for e in o.st.ev if e[0] == 'call' and short(e) == 'push' and len(e[2]) == 2]
        local = [(b, e) for e in pushes for b in vecs if e[2][0] == head(o, b)]
        direct = [e for e in pushes if rooted(e[2][0], bmap)]
        d['direct'] = direct
        if inner is not None and o.target != inner:
            ctx.fail('V2.every-value-is-classified', 'value loop left by exhaustion', loc(B.root),
                     'the loop over the values of an attribute is left after a value has been looked at: the remaining values are lost')
            d['ok'] = False
            continue
        if flagb is not None and head(o, flagb) is not None:
            # the flag says, after v, whether any value so far failed (it is what the next value and the completion see); a computed
            # value (`flag |= res.is_err()`) is read under the path condition
            hv, tv = head(o, flagb), o.st.env.get(flagb)
            want = hv == absx.TRUE or not is_text
            def truth(t):
                if t in (absx.TRUE, absx.FALSE):
                    return t == absx.TRUE
                if t is None:
                    return None
                if t[0] == 'not':
                    r = truth(t[1])
                    return None if r is None else (not r)
                if t[0] == 'bin' and t[1] in ('Or', 'BitOr', 'And', 'BitAnd'):
                    l, r = truth(t[2]), truth(t[3])
                    if t[1] in ('Or', 'BitOr'):
                        return True if (l or r) else (False if (l is False and r is False) else None)
                    return False if (l is False or r is False) else (True if (l and r) else None)
                return o.st.known(t)
            ctx.add('V2.flag-tracks-non-utf8-seen', '%s value, flag was %s' % ('UTF-8' if is_text else 'non-UTF-8', absx.fmt(hv)), loc(B.root), truth(tv) is want,
                    'after this value the flag must be %s (whether any value so far was not UTF-8); it is %s' % (want, absx.fmt(tv)[:80] if tv else '?'))
        if is_text:
            if len(local) == 1 and local[0][1][2][1] == decoded and len(pushes) == 1:
                text_into.add(local[0][0])
            elif not local:
                text_into.add('chain')
            else:
                text_into.add('?')
            ctx.add('V2.text-value-not-pushed-twice', 'UTF-8 value', loc(B.root), not direct and len(local) <= 1,
                    'a UTF-8 value reaches bin_attrs only through the text vector, and the text vector once')
        else:
            tgt = None
            if len(pushes) == 1 and same_bytes(pushes[0][2][1]):
                if len(local) == 1:
                    tgt = local[0][0]
                elif len(direct) == 1 and keyed(direct[0][2][0]):
                    tgt = 'direct'
            ctx.add('V2.binary-value-pushed', 'non-UTF-8 value', loc(B.root), tgt is not None,
                    'a non-UTF-8 value must be pushed, unaltered, to bin_attrs[type] or to the vector of binary values (and nothing else pushed): %s' % [absx.fmt(e[2][1])[:60] for e in pushes])
            bin_into.add(tgt or '?')
        if not completes:
            # a step that does not complete the attribute leaves both maps alone, except for the push of a binary value to bin_attrs[type]
            okm = not A and all(short(e) == 'get_mut' or (not is_text and (short(e) in ACCESSORS or e in direct)) for e in Bm)
            ctx.add('V2.maps-change-only-at-completion', '%s value' % ('UTF-8' if is_text else 'non-UTF-8'), loc(B.root), okm,
                    'while the values are walked the maps may only receive a binary value (`attrs` receives the vector of all decoded values once the value set is exhausted): '
                    'attrs %s, bin_attrs %s' % ([short(e) for e in A], [short(e) for e in Bm]))
    textb = next(iter(text_into)) if len(text_into) == 1 else None
    binb = next(iter(bin_into)) if len(bin_into) == 1 else None
    if text_into and (textb in (None, '?') or (textb != 'chain' and textb == binb)):
        ctx.fail('V2.all-text-attribute-goes-to-attrs', 'text collection', loc(B.root), 'the decoded text values are not collected in one place (%s)' % sorted(map(str, text_into)))
        textb = None
    if bin_into and binb in (None, '?'):
        ctx.fail('V2.binary-value-pushed', 'binary collection', loc(B.root), 'the non-UTF-8 values are not collected in one place (%s)' % sorted(map(str, bin_into)))
        binb = None
    # the vectors only grow: besides `push` (modelled) nothing is called on them but observers, and they are only handed on whole
    for o in paths:
        cur = {x for b in vecs for x in (head(o, b), o.st.env.get(b)) if x is not None}
        for e in o.st.ev:
            if e[0] != 'call':
                continue
            for i, a in enumerate(e[2]):
                if a in cur and a[0] in ('carried', 'vecpush'):
                    okc = short(e) in (('push', 'is_empty', 'len') if i == 0 else ('extend', 'append', 'insert'))
                    ctx.add('V2.accumulators-only-grow', short(e), loc(e[3]) if isinstance(e[3], dict) else loc(B.root), okc,
                            'a vector that collects values is handed to `%s`: it may lose or reorder what it holds; not decidable here' % short(e))

    # ---- pass 2, the completions: what the maps receive when the values of the attribute are exhausted
    def tested_for_emptiness(pc):
        """the terms whose emptiness / length the path condition talks about"""
        out = []
        for a, _t in pc:
            for c in absx.leaves(a, lambda x: x[0] == 'call' and x[1].rsplit('::', 1)[-1] in ('is_empty', 'len') and len(x[2]) == 1):
                if c[2][0] not in out:
                    out.append(c[2][0])
        return out
    seen, infeasible = set(), 0
    for o in paths:
        d = info[id(o)]
        if not d['ok']:
            continue
        completes = o.target == outer
        is_text = d.get('is_text')
        A, Bm = d['A'], d['Bm']
        # E: whether an earlier value was not UTF-8 - what the flag says (it tracks that, by the step obligations), else whether the
        # vector of binary values is empty
        if flagb is not None:
            hv = head(o, flagb)
            E = True if hv == absx.TRUE else (False if hv == absx.FALSE else None)
        elif binb in vecs:
            em = emptiness(o.st.pc, head(o, binb))
            E = None if em is None else (not em)
        else:
            E = None
        if is_text is not None:
            for e_ in ((False, True) if E is None else (E,)):
                seen.add(('text' if is_text else 'binary', e_))
        if not completes:
            continue
        any_bin = True if is_text is False else E
        sit = ('%s value, ' % ('UTF-8' if is_text else 'non-UTF-8') if is_text is not None else 'values exhausted, ') + \
              ('an earlier value was non-UTF-8' if E else 'no earlier non-UTF-8 value' if E is False else 'earlier values unknown')
        test = d.get('test')
        def text_vector(t, test=test, is_text=is_text):
            """the collection of text values: filter_map/map over the value set whose element is the decoded v (or skipped when v is not
            UTF-8), or the local vector the steps push the decoded values to"""
            if textb in vecs:
                return t == o.st.env.get(textb)
            return test is not None and t[0] == 'many' and values_src_ok(t[1]) and t[3] == (('variant', test[1], test[2], 0) if is_text else ('skip',))
        def as_bytes(t, pred):
            return pred(t) or (t[0] == 'many' and t[3] == t[2] and pred(t[1]))
        # what the path has found out about the text collection being empty (`is_empty()`, `len()` against 0): a collection that holds
        # the decoded text of the generic value v is not empty, whatever else it holds - a path that claims so is taken for no value
        # list at all; and appending an empty collection changes nothing, so a path that knows the text collection to be empty may
        # leave that append out
        text_empty = None
        for X in tested_for_emptiness(o.st.pc):
            if text_vector(X) or as_bytes(X, text_vector):
                claim = emptiness(o.st.pc, X)
                if claim is not None:
                    text_empty = claim
        if text_empty and is_text:
            infeasible += 1
            continue
        if not A and not [e for e in Bm if short(e) in MUTATORS]:
            ctx.fail('V2.attribute-stored', 'generic attribute', loc(B.root), 'on some path an attribute is stored in neither map'); continue
        if any_bin is None:
            ctx.fail('V2.mixed-attribute-moves-text-to-bin_attrs', sit, loc(B.root),
                     'the attribute is completed on a path that does not know whether one of its values was not UTF-8'); continue
        seen.add(('complete', any_bin))
        if not any_bin:
            placed = placed_in_attrs(A)
            ok = placed is not None and not Bm and text_vector(placed)
            ctx.add('V2.all-text-attribute-goes-to-attrs', sit, loc(B.root), ok,
                    'the vector of decoded values must be inserted into `attrs` under the attribute type, and nothing into bin_attrs: attrs %s, bin_attrs %s' % (
                        [short(e) for e in A], [short(e) for e in Bm]))
            continue
        muts = [e for e in Bm if short(e) in MUTATORS and e not in d.get('direct', [])]
        okx = all(short(e) in ('extend', 'append') and len(e[2]) == 2 and keyed(e[2][0]) for e in muts)
        texts = [e for e in muts if okx and as_bytes(e[2][1], text_vector)]
        bins = [e for e in muts if okx and binb in vecs and e[2][1] == o.st.env.get(binb)]
        okx = okx and (len(texts) == 1 or (text_empty and not texts)) and len(bins) == (1 if binb in vecs else 0) and len(muts) == len(texts) + len(bins)
        ctx.add('V2.mixed-attribute-moves-text-to-bin_attrs', sit, loc(B.root), okx and not A,
                'once any value of the attribute is not UTF-8, the text values collected (and the binary ones, if collected apart) must be appended (as bytes) to bin_attrs[type] and the '
                'attribute must not appear in `attrs`: attrs %s, bin_attrs %s' % ([short(e) for e in A], [short(e) for e in Bm]))
    if infeasible:
        ctx.note('%d generic paths claim that a text collection holding the value at hand is empty: infeasible' % infeasible)
    for need in (('text', False), ('binary', False), ('text', True), ('binary', True)):
        ctx.add('V2.coverage', '%s value, earlier binary=%s' % need, loc(B.root), need in seen, 'no path for this situation')
    for need in (False, True):
        ctx.add('V2.coverage', 'attribute completed, some value non-UTF-8=%s' % need, loc(B.root), ('complete', need) in seen, 'no path for this situation')
