"""C15 - SearchEntry::construct keeps every attribute value and classifies it correctly."""
from facts import walk, callee_of, call_args, loc
import hirq, anchors, absx

EXPLANATION = ("V1 positional decode (path-sensitive abstract evaluation with a generic attribute and a generic value): the entry must be "
               "tag 4 constructed, child 0 -> dn (UTF-8), child 1 -> attribute list; per attribute child 0 -> type (UTF-8), child 1 -> "
               "value set, each value a primitive; V2 an inductive argument over the values of one attribute: the per-value closure is "
               "evaluated for a generic value v in every state an earlier value can leave behind (loop-carried state found by fixpoint; "
               "it must be a boolean that starts false for every attribute), giving four situations (an earlier value was not UTF-8) x "
               "(v is UTF-8).  v is tested for UTF-8 exactly once; if no value so far failed and v is UTF-8 the only effect is that the "
               "vector of decoded values is inserted into `attrs` under the attribute type; if v is not UTF-8 it is pushed, unaltered, to "
               "bin_attrs[type]; and whenever any value failed (earlier or now) the collected text values are appended, as bytes, to "
               "bin_attrs[type] and nothing is inserted into `attrs`.  The two maps returned are distinct fresh maps. Not decided: 'no "
               "value lost or altered' as a statement about contents; duplicate attribute types in one entry (a second insert replaces "
               "the first).")
TRUSTED = ['std iterator adapters (map, filter_map, collect) preserve order', 'HashMap entry API']
UNDECIDED = ['content equality of values', 'duplicate attribute types within one entry']
ASSUMPTIONS = ['a generic element stands for every element of a `for` / iterator chain (the loop body is the same for all)']

P = 'ldap3::search::SearchEntry::construct'

def calls_in(t):
    return [x[1].rsplit('::', 1)[-1] for x in absx.leaves(t, lambda x: x[0] == 'call')]

def run(ctx):
    f = ctx.facts
    B = hirq.Body(f, f.body(P))
    ctx.analysed['bodies'].add(P)
    outs = [o for o in absx.Interp(f, B, unroll=1, for_once=True, result_combinators=True, combinators=True).run() if o.kind in ('val', 'ret') and o.val[0] == 'struct']
    ctx.floor('V', 'returning paths', len(outs), 2)
    seen = set()
    for o in outs:
        fl = dict(o.val[2])
        dn, amap, bmap = fl.get('dn', ('unk',)), fl.get('attrs', ('unk',)), fl.get('bin_attrs', ('unk',))
        # ---- V1
        tagsn = [x for x in absx.leaves(dn, lambda x: x[0] == 'nth')]
        ok = len(tagsn) == 1 and tagsn[0][3] == 0 and 'from_utf8' in calls_in(dn) and 'expect_primitive' in calls_in(dn)
        base = tagsn[0][1] if tagsn else ('unk',)
        ok = ok and 'expect_constructed' in calls_in(base) and any(x[1].endswith('match_id') and x[2][1:] == (('lit', 4),) and x[2][0] == ('field', ('param', 're'), '0')
                                                                    for x in absx.leaves(base, lambda x: x[0] == 'call'))
        ctx.add('V1.dn', 'child 0', loc(B.root), ok, 'dn is not the UTF-8 content of child 0 of the [APPLICATION 4] constructed entry: %s' % absx.fmt(dn)[:100])
        ok = amap[0] == 'call' and bmap[0] == 'call' and amap[1].endswith('HashMap::<K, V>::new') and bmap[1].endswith('HashMap::<K, V>::new') and amap != bmap
        ctx.add('V1.two-maps', 'attrs/bin_attrs', loc(B.root), ok, 'the returned maps are not two distinct fresh maps')
        muts = [e for e in o.st.ev if e[0] == 'call' and e[1].rsplit('::', 1)[-1] in ('insert', 'push', 'extend', 'entry', 'or_insert_with', 'get_mut', 'remove', 'clear')
                and not e[1].startswith('alloc::vec::Vec::<T, A>::push') or (e[0] == 'call' and e[1].endswith('Vec::<T, A>::push'))]
        if not muts:
            ctx.fail('V2.attribute-stored', 'generic attribute', loc(B.root), 'on some path an attribute is stored in neither map'); continue
        # ---- V2: the generic value v of the generic attribute, in the four situations of the inductive argument
        #   E (an earlier value of this attribute was not UTF-8)  x  T (v is UTF-8)
        def is_utf8_test(a):
            # from_utf8(v) is Ok  <=>  v is valid UTF-8  <=>  String::from_utf8_lossy(v) is Cow::Borrowed (and then borrows v itself)
            if a[0] != 'is' or a[1][0] != 'call' or len(a[1][2]) != 1 or a[1][2][0][0] != 'elem':
                return False
            fn = a[1][1].rsplit('::', 1)[-1]
            return (a[2] == 'Ok' and fn == 'from_utf8') or (a[2] == 'Cow::Borrowed' and fn == 'from_utf8_lossy')
        tests = [(a, t) for a, t in o.st.pc if is_utf8_test(a)]
        if len({a for a, t in tests}) != 1:
            ctx.fail('V2.single-utf8-test', 'value', loc(B.root), 'each value must be tested for UTF-8 exactly once (found %d tests)' % len(tests)); continue
        test, is_text = tests[0]
        v = test[1][2][0]          # the tested bytes: the generic value element
        # every value of the set reaches the classification: between the attribute's decoded value set and the UTF-8 test there are
        # only total, element-wise conversions - no adaptor that can drop, skip or cut elements
        LOSSY = ('filter', 'filter_map', 'skip', 'take', 'step_by', 'take_while', 'skip_while', 'map_while', 'dedup', 'truncate', 'split_off', 'drain', 'retain', 'pop', 'remove', 'swap_remove', 'flatten', 'flat_map')
        lvl, lossy = (v[1] if v[0] == 'elem' else v), None
        depth_l = 0
        while lvl[0] == 'many' and depth_l < 8:
            depth_l += 1
            if lvl[3] == lvl[2] or lvl[3] == ('skip',) or not absx.leaves(lvl[3], lambda x, e=lvl[2]: x == e):
                lossy = 'an adaptor over the value set keeps only some of its elements (filter / filter_map)'
            lvl = lvl[1]
        bad_calls = [c for c in calls_in(lvl) if c in LOSSY]
        if bad_calls:
            lossy = 'the value set goes through %s before it is classified' % bad_calls[0]
        ctx.add('V2.every-value-is-classified', 'value set', loc(B.root), v[0] == 'elem' and lossy is None,
                'a value of the attribute can be dropped before it is classified as text or binary: %s' % (lossy or 'the tested bytes are not an element of the value set'))
        carried = [e for e in o.st.ev if e[0] == 'loop-carried' and e[3]['k'] == 'Closure']
        for e in carried:
            ctx.add('V2.flag-starts-false', 'per attribute', loc(e[3]), e[4] == absx.FALSE,
                    'state carried from one value to the next must start as `false` for every attribute (starts as %s)' % absx.fmt(e[4]))
        earlier = any(e[2] == absx.TRUE for e in carried)
        if any(e[2] not in (absx.TRUE, absx.FALSE) for e in carried):
            ctx.fail('V2.carried-state', 'non-boolean', loc(B.root), 'state carried across the values of one attribute is not a boolean flag; not decidable here'); continue
        # attribute type: from_utf8 of child 0 of the generic attribute
        def is_type(t):
            ns = [x for x in absx.leaves(t, lambda x: x[0] == 'nth')]
            return len(ns) >= 1 and ns[0][3] == 0 and 'from_utf8' in calls_in(t) and bool(absx.leaves(ns[0][1], lambda x: x[0] == 'elem'))
        def values_src_ok(t):
            ns = [x for x in absx.leaves(t, lambda x: x[0] == 'nth' and absx.leaves(x[1], lambda y: y[0] == 'elem'))]
            return any(x[3] == 1 for x in ns) and 'expect_constructed' in calls_in(t) and 'expect_primitive' in calls_in(t)
        def rooted(t, m):
            return t == m or bool(absx.leaves(t, lambda x: x == m))
        def keyed(t):
            """the place t inside bin_attrs is the entry of the attribute's type"""
            return any(x[1].rsplit('::', 1)[-1] in ('entry', 'get_mut') and len(x[2]) >= 2 and x[2][0] == bmap and is_type(x[2][1]) for x in absx.leaves(t, lambda x: x[0] == 'call'))
        def same_bytes(t):
            """t is v itself, or the bytes handed back by the failed String::from_utf8(v)"""
            # (FromUtf8Error::into_bytes is a transparent conversion in the term domain: the error of String::from_utf8 owns the bytes)
            return t == v or (t == ('variant', test[1], 'Err', 0) and test[1][1].endswith('string::String::from_utf8'))
        A = [e for e in muts if rooted(e[2][0], amap)]
        Bm = [e for e in muts if rooted(e[2][0], bmap)]
        inserts = [e for e in A if e[1].rsplit('::', 1)[-1] == 'insert']
        pushes = [e for e in Bm if e[1].rsplit('::', 1)[-1] == 'push']
        extends = [e for e in Bm if e[1].rsplit('::', 1)[-1] in ('extend', 'append')]
        def text_vector(t):
            """the vector of text values: filter_map/map over the value set whose element is the decoded v (or skipped when v is not UTF-8)"""
            return t[0] == 'many' and values_src_ok(t[1]) and t[3] == (('variant', test[1], test[2], 0) if is_text else ('skip',))
        def as_bytes_of_text_vector(t):
            return text_vector(t) or (t[0] == 'many' and t[3] == t[2] and text_vector(t[1]))
        sit = '%s value, %s' % ('UTF-8' if is_text else 'non-UTF-8', 'an earlier value was non-UTF-8' if earlier else 'no earlier non-UTF-8 value')
        seen.add(('text' if is_text else 'binary', earlier))
        if is_text and not earlier:
            ok = len(inserts) == 1 and len(A) == 1 and not Bm and inserts[0][2][0] == amap and is_type(inserts[0][2][1]) and text_vector(inserts[0][2][2])
            ctx.add('V2.all-text-attribute-goes-to-attrs', sit, loc(B.root), ok,
                    'the vector of decoded values must be inserted into `attrs` under the attribute type, and nothing into bin_attrs: attrs %s, bin_attrs %s' % (
                        [e[1].split('::')[-1] for e in A], [e[1].split('::')[-1] for e in Bm]))
            continue
        okp = True
        if not is_text:
            okp = len(pushes) == 1 and keyed(pushes[0][2][0]) and same_bytes(pushes[0][2][1])
            ctx.add('V2.binary-value-pushed', sit, loc(B.root), okp, 'a non-UTF-8 value must be pushed, unaltered, to bin_attrs[type]: %s' % [absx.fmt(e[2][1])[:60] for e in pushes])
        else:
            ctx.add('V2.text-value-not-pushed-twice', sit, loc(B.root), not pushes, 'a UTF-8 value reaches bin_attrs only through the text vector')
        okx = len(extends) == 1 and keyed(extends[0][2][0]) and as_bytes_of_text_vector(extends[0][2][1])
        ctx.add('V2.mixed-attribute-moves-text-to-bin_attrs', sit, loc(B.root), okx and not A,
                'once any value of the attribute is not UTF-8, the text values collected must be appended (as bytes) to bin_attrs[type] and the attribute must not appear in `attrs`: attrs %s, bin_attrs %s' % (
                    [e[1].split('::')[-1] for e in A], [e[1].split('::')[-1] for e in Bm]))
    for need in (('text', False), ('binary', False), ('text', True), ('binary', True)):
        ctx.add('V2.coverage', '%s value, earlier binary=%s' % need, loc(B.root), need in seen, 'no path for this situation')
