"""C15 - SearchEntry::construct keeps every attribute value and classifies it correctly."""
from facts import walk, callee_of, call_args, loc
import hirq, anchors, absx

EXPLANATION = ("V1 positional decode (path-sensitive abstract evaluation with a generic attribute and a generic value): the entry must be "
               "tag 4 constructed, child 0 -> dn (UTF-8), child 1 -> attribute list; per attribute child 0 -> type (UTF-8), child 1 -> "
               "value set, each value a primitive; V2 flow conservation for the generic value v of the generic attribute: v is tested with "
               "str::from_utf8 exactly once; when that succeeds the only sink of v is the text vector (as the owned string of those very "
               "bytes) and the vector is inserted into the text map under the attribute's type; when it fails v is pushed to "
               "bin_attrs[type] (created on demand), the binary flag is raised there and nowhere else, and the text vector collected so "
               "far is appended, converted back to bytes, to that same binary entry instead of being inserted into the text map; the two "
               "maps returned are those two and are distinct. Not decided: 'no value lost or altered' as a statement about contents; "
               "duplicate attribute types in one entry (a second insert replaces the first).")
TRUSTED = ['std iterator adapters (map, filter_map, collect) preserve order', 'HashMap entry API']
UNDECIDED = ['content equality of values', 'duplicate attribute types within one entry']
ASSUMPTIONS = ['a generic element stands for every element of a `for` / iterator chain (the loop body is the same for all)']

P = 'ldap3::search::SearchEntry::construct'

def calls_in(t):
    return [x[1].rsplit('::', 1)[-1] for x in absx.leaves(t, lambda x: x[0] == 'call')]

def run(ctx):
    f = ctx.facts
    B = hirq.Body(f, f.body(P))
    ctx.analysed['bodies'].add(P)
    outs = [o for o in absx.Interp(f, B, unroll=1, for_once=True).run() if o.kind in ('val', 'ret') and o.val[0] == 'struct']
    ctx.floor('V', 'returning paths', len(outs), 2)
    seen = set()
    for o in outs:
        fl = dict(o.val[2])
        dn, amap, bmap = fl.get('dn', ('unk',)), fl.get('attrs', ('unk',)), fl.get('bin_attrs', ('unk',))
        # ---- V1
        tagsn = [x for x in absx.leaves(dn, lambda x: x[0] == 'nth')]
        ok = len(tagsn) == 1 and tagsn[0][3] == 0 and 'from_utf8' in calls_in(dn) and 'expect_primitive' in calls_in(dn)
        base = tagsn[0][1] if tagsn else ('unk',)
        ok = ok and 'expect_constructed' in calls_in(base) and any(x[1].endswith('match_id') and x[2][1:] == (('lit', 4),) and x[2][0] == ('field', ('param', 're'), '0')
                                                                    for x in absx.leaves(base, lambda x: x[0] == 'call'))
        ctx.add('V1.dn', 'child 0', loc(B.root), ok, 'dn is not the UTF-8 content of child 0 of the [APPLICATION 4] constructed entry: %s' % absx.fmt(dn)[:100])
        ok = amap[0] == 'call' and bmap[0] == 'call' and amap[1].endswith('HashMap::<K, V>::new') and bmap[1].endswith('HashMap::<K, V>::new') and amap != bmap
        ctx.add('V1.two-maps', 'attrs/bin_attrs', loc(B.root), ok, 'the returned maps are not two distinct fresh maps')
        muts = [e for e in o.st.ev if e[0] == 'call' and e[1].rsplit('::', 1)[-1] in ('insert', 'push', 'extend', 'entry', 'or_insert_with', 'get_mut', 'remove', 'clear')
                and not e[1].startswith('alloc::vec::Vec::<T, A>::push') or (e[0] == 'call' and e[1].endswith('Vec::<T, A>::push'))]
        if not muts:
            ctx.fail('V2.attribute-stored', 'generic attribute', loc(B.root), 'on some path an attribute is stored in neither map'); continue
        # generic value and its UTF-8 test
        tests = [(a, t) for a, t in o.st.pc if a[0] == 'is' and a[2] == 'Ok' and a[1][0] == 'call' and a[1][1].endswith('str::converts::from_utf8')]
        if len(tests) != 1:
            ctx.fail('V2.single-utf8-test', 'value', loc(B.root), 'each value must be tested with str::from_utf8 exactly once (found %d tests)' % len(tests)); continue
        test, is_text = tests[0]
        v = test[1][2][0]          # the tested bytes: the generic value element
        vel = [x for x in absx.leaves(v, lambda x: x[0] == 'elem')]
        attr_el = [x for x in absx.leaves(v, lambda x: x[0] == 'elem' and x is not vel[0])] if vel else []
        # attribute type: from_utf8 of child 0 of the generic attribute
        def is_type(t):
            ns = [x for x in absx.leaves(t, lambda x: x[0] == 'nth')]
            return len(ns) >= 1 and ns[0][3] == 0 and 'from_utf8' in calls_in(t) and bool(absx.leaves(ns[0][1], lambda x: x[0] == 'elem'))
        def values_src_ok(t):
            ns = [x for x in absx.leaves(t, lambda x: x[0] == 'nth' and absx.leaves(x[1], lambda y: y[0] == 'elem'))]
            return any(x[3] == 1 for x in ns) and 'expect_constructed' in calls_in(t) and 'expect_primitive' in calls_in(t)
        if is_text:
            seen.add('text')
            ins = [e for e in muts if e[1].endswith('HashMap::<K, V, S, A>::insert')]
            others = [e for e in muts if e not in ins]
            ok = len(ins) == 1 and not others and ins[0][2][0] == amap and is_type(ins[0][2][1])
            vals = ins[0][2][2] if ins else ('unk',)
            okv = vals[0] == 'many' and values_src_ok(vals[1]) and vals[3] == ('variant', test[1], 'Ok', 0)
            ctx.add('V2.text-value-goes-to-text-map', 'utf8', loc(B.root), ok and okv,
                    'a UTF-8 value must end up (as the string of those bytes) in the vector inserted into `attrs` under the attribute type, and nowhere else: %s' % [e[1].split('::')[-1] for e in muts])
        else:
            seen.add('binary')
            names = [e[1].rsplit('::', 1)[-1] for e in muts]
            ok = names == ['entry', 'or_insert_with', 'push', 'get_mut', 'extend']
            if ok:
                en, oi, pu, gm, ex = muts
                ok = en[2][0] == bmap and is_type(en[2][1]) and oi[2][0][0] == 'call' and oi[2][0][3] == en[3].get('id') and pu[2][1] == v \
                    and gm[2][0] == bmap and gm[2][1] == en[2][1] and absx.leaves(ex[2][0], lambda x: x[0] == 'call' and x[3] == gm[3].get('id')) != []
                conv = ex[2][1]
                ok = ok and conv[0] == 'many' and conv[3] == conv[2] and conv[1][0] == 'many' and conv[1][3] == ('skip',) and values_src_ok(conv[1][1])
            ctx.add('V2.binary-value-diverts-attribute', 'non-utf8', loc(B.root), ok,
                    'a non-UTF-8 value must be pushed to bin_attrs[type] and the text values appended there as bytes (no insert into attrs): %s' % names)
    for need in ('text', 'binary'):
        ctx.add('V2.coverage', need, loc(B.root), need in seen, 'no path for a %s value' % need)
    # the binary flag is raised only where the UTF-8 test failed, and decides the sink
    flags = [n for n, c in walk(B.root) if n['k'] == 'Assign' and hirq.const_eval(f, n['r']) is True and n['l']['k'] == 'Path']
    ctx.add('V2.flag-raised-once', 'any_binary', loc(B.root), len(flags) == 1, 'the binary flag is set at %d sites' % len(flags))
    ifs = [n for n, c in walk(B.root) if n['k'] == 'If' and flags and hirq.local_of(n['cond']) == hirq.local_of(flags[0]['l'])]
    ok = len(ifs) == 1 and any(x['k'] == 'MethodCall' and x['name'] == 'extend' for x, _ in walk(ifs[0]['then'])) and ifs[0].get('els') is not None \
        and any(x['k'] == 'MethodCall' and x['name'] == 'insert' for x, _ in walk(ifs[0]['els']))
    ctx.add('V2.flag-selects-sink', 'any_binary', loc(B.root), ok, 'the binary flag does not select between bin_attrs (extend) and attrs (insert)')
    # flag must be initialised false inside the per-attribute loop
    if flags:
        d = B.defs.get(hirq.local_of(flags[0]['l']))
        fors = [n for n, c in walk(B.root) if n['k'] == 'For']
        inside = d is not None and d['node'] is not None and any(any(s is d['node'] for s in blk['stmts']) for fr in fors for blk, _ in walk(fr['body']) if blk['k'] == 'Block')
        ctx.add('V2.flag-per-attribute', 'any_binary', loc(B.root), inside and d['src'] is not None and hirq.const_eval(f, d['src']) is False,
                'the binary flag must start false for every attribute')
