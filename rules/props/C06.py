"""C06 - message framing does not depend on how the byte stream is segmented."""
from facts import walk, callee_of, call_args, loc
import hirq, anchors, absx, cone, engine

EXPLANATION = ("G1 on every path of the frame decoder, `Ok(None)` (need more bytes) is returned exactly when the TLV parser reported "
               "Incomplete, and no buffer-mutating call (advance, split_to, truncate, clear, ...) precedes that return (what the decoder answers is read through the "
               "Option / Result adaptors it is passed through, in whichever function they sit: a wrapper `Ok(body(buf)?.filter(pred))` answers Ok(None) wherever pred "
               "rejects a delivered message - a complete, consumed frame answered need-more - unless pred is decided to hold from what the path knows, e.g. `id >= 0` of an "
               "ID narrowed to i32 under `id <= i32::MAX`); a path that answers "
               "anything else after Incomplete must have established that the whole outermost element is already buffered (len(buf) >= "
               "identifier octet + length octets + announced length), i.e. be dead - decided by evaluating the decoder for each of the "
               "256 values of the first length octet with the other octets and the buffer length symbolic (rules/framelen.py); G2 every path "
               "that got past the parser consumes exactly once, by `buf.advance(buf.len() - rest.len())` where rest is the remainder "
               "component of that very parser result, and the parser is applied to the whole buffer; G3 every nom primitive reachable "
               "from the TLV parser (MIR call graph) is the `streaming` variant, so a short buffer yields Incomplete rather than an error "
               "or a truncated value; the streaming entry point Parser::parse, evaluated once per value of the first length octet with the other octets and the "
               "number of octets buffered symbolic, is on every path the TLV parser applied to the caller's input, or a test of its own that answers "
               "Incomplete under a condition which contradicts len(input) >= identifier octet + length octets + announced length (the empty buffer, a lone "
               "identifier octet, a length field that has not arrived - where the TLV parser would ask for more as well); an answer of its own that is not "
               "Incomplete, or Incomplete for a buffer that may hold the whole element, is a violation however the pre-tests are spelled; G4 the codec keeps no state across calls in this "
               "configuration and Decoder::decode is the frame decoder applied to the caller's buffer; G7 (gssapi configuration, where the "
               "codec carries the SASL token layer) every error path of Decoder::decode is the frame decoder's own answer or the failure "
               "of the unwrap primitive - a shortfall of buffered bytes is never an error - and a literal Ok(None) path has not touched "
               "the buffer; G8 between the socket and the frame decoder nobody but the frame decoder removes octets (rules/readbuf.py): every site of the "
               "workspace that touches the framed transport - a call whose resolved callee is one of tokio_util's Framed / FramedRead / FramedParts, or that is "
               "handed a value of the transport's type, and every assignment to a place of that type - is found and classified by what it gives access to "
               "(constructor with empty buffers; io / codec / write side / shared view of the read buffer; the transport polled as Stream / Sink; read_buffer_mut; "
               "taken apart or replaced), an accessor outside those classes fails closed; what is done with the `&mut BytesMut` that Framed::read_buffer_mut hands "
               "out is read off the enumerated paths of the body (for the driver loop: of the select! arm) - looking at it or reserving capacity is harmless, "
               "clear / truncate / advance / split_to / split_off / resize / mem::take / an assignment through it remove or change read-ahead octets and are accepted "
               "only for an amount that is literally zero or on a path whose condition says the buffer is empty at that moment, with no use of the transport in between; "
               "the transport is taken apart or replaced only in the TLS upgrade of the TCP constructor (listed as accepted: what the protected transport is built from "
               "is judged by C17 W3 / C01 R16); the io underneath is read only through the transport enum's own AsyncRead impl. Not decided: tokio-util's Framed re-invoking decode correctly; frame sizes beyond the read buffer as a runtime "
               "quantity; what becomes of plaintext left over after unwrapping a SASL token when further tokens are already buffered, and of "
               "an LDAP message that straddles two tokens (read off the code as lossy, but not demonstrable here without a Kerberos peer, "
               "so not claimed either way).")
TRUSTED = ['tokio_util::codec::Framed (its read loop hands the read buffer to Decoder::decode and to nobody else; accessor semantics as tabulated in rules/readbuf.py after tokio-util 0.7)', 'nom streaming parsers report Incomplete on short input', 'bytes::BytesMut::advance']
UNDECIDED = ['Framed\'s read loop (trusted)', 'sizes beyond the read buffer (runtime quantity)']
ASSUMPTIONS = ['G4 / G7: a test that Decoder::decode makes of the message ID the frame decoder delivered is decided under 0 <= ID <= maxInt, the bound C01 R1.message-id-exact / C11 H8 decide for every delivered ID']
SHARED = [('C07', ('B2.reader',), 'G5.length-reader'), ('C07', ('B7.', 'B4.remainder'), 'G6.tlv-parser')]      # the frame boundary is where the length reader says it is, however the bytes arrive
CONFIGS = ['default', 'nodefault', 'rustls', 'gssapi']
QUICK_CONFIGS = ['default', 'gssapi']      # the SASL token layer (G7) exists only with the gssapi feature

# what C01 R1.message-id-exact / C11 H8 establish about every message ID the frame decoder delivers (RFC 4511 4.1.1.1: 0 .. maxInt); G4 / G7
# decide a test of the delivered ID in Decoder::decode under it (rules/wrapper.py) - if it did not hold, those two rules report it
DELIVERED_IDS = (0, 2 ** 31 - 1)
MUTATORS = ('advance', 'split_to', 'split_off', 'split', 'truncate', 'clear', 'resize', 'extend', 'extend_from_slice', 'put', 'put_slice', 'unsplit', 'set_len', 'freeze', 'copy_to_bytes', 'get_u8')

def check_frame_decoder(ctx, f, G1='G1', G2='G2'):
    """Path-level rules of the frame decoder (shared with C11 H5: a complete frame is delivered or rejected, never awaited)."""
    decs = [p for p, h in f.hir.items() if (p.startswith('ldap3::') or p.startswith('<ldap3::')) and
            any((callee_of(n) or '') == 'lber::parse::Parser::parse' for n, c in walk(h['body']) if n['k'] == 'MethodCall')]
    dp = anchors.one('frame decoder (calls lber::Parser::parse)', decs)
    B = hirq.Body(f, f.hir[dp])
    ctx.analysed['bodies'].add(dp)
    buf = ('param', [d['name'] for b, d in B.defs.items() if d['kind'] == 'param'][0])
    # (local_try: a `?` inside a helper expanded into the decoder leaves that helper; combinators: what the decoder answers is read
    # through the Option / Result adaptors it is passed through - `Ok(frame(buf)?.filter(pred))` around the body answers Ok(None)
    # wherever the body does, and wherever pred rejects what the body delivers)
    I = absx.Interp(f, B, local_try=True, combinators=True)
    I.cast_ranges = True          # (.. and a test of a value narrowed under a range test is decided from that test: `id as i32 >= 0` under `id <= i32::MAX as u64`)
    outs = I.run()
    def parse_calls(o):
        return [e for e in o.st.ev if e[0] == 'call' and e[1] == 'lber::parse::Parser::parse']
    def mutations(o):
        return [e for e in o.st.ev if e[0] == 'call' and e[1].rsplit('::', 1)[-1] in MUTATORS and e[2] and e[2][0] == buf]
    NEED_MORE = ('ctor', 'Ok', (('ctor', 'None', ()),))
    def parser_verdict(o):
        """(the term of the one parser application to the whole buffer | None, reported Incomplete?, failed?) on a path"""
        pcs = parse_calls(o)
        if len(pcs) != 1 or pcs[0][2][1] != buf:
            return None, None, None
        pterm = ('call', pcs[0][1], pcs[0][2], pcs[0][3].get('id'))
        inc = next((t for a, t in o.st.pc if a[0] == 'call' and a[1].endswith('::is_incomplete') and a[2][0] == ('variant', pterm, 'Err', 0)), None)
        if inc is None:
            # the same test spelled as a pattern: Err(nom::Err::Incomplete(_))
            inc = next((t for a, t in o.st.pc if a[0] == 'is' and a[1] == ('variant', pterm, 'Err', 0) and a[2].rsplit('::', 1)[-1] == 'Incomplete'), None)
        is_err = next((t for a, t in o.st.pc if a == ('is', pterm, 'Err')), None)
        if is_err is None:
            ok_ = next((t for a, t in o.st.pc if a == ('is', pterm, 'Ok')), None)
            is_err = (not ok_) if ok_ is not None else None
        return pterm, inc, is_err
    n_none = n_succ = 0
    other_answer = []          # paths that answer something other than need-more although the parser reported Incomplete
    for o in outs:
        if o.kind not in ('val', 'ret'):
            continue
        pterm, inc, is_err = parser_verdict(o)
        if pterm is None:
            ctx.fail(G2 + '.parser-input', dp, loc(B.root), 'the TLV parser is not applied exactly once to the whole buffer on some path'); continue
        v = o.val
        is_none = v == NEED_MORE
        muts = mutations(o)
        if is_none:
            n_none += 1
            ctx.add(G1 + '.need-more-only-on-incomplete', dp, loc(B.root), is_err is True and inc is True,
                    '`Ok(None)` is returned on a path where the parser did not report Incomplete' + (
                        ' but handed over a complete element: the frame has arrived and is neither delivered nor rejected - to the transport Ok(None) means "nothing to '
                        'decode yet, read the socket first", so complete frames buffered behind this one wait for the peer\'s next byte' if is_err is False else ''))
            ctx.add(G1 + '.buffer-intact-before-need-more', dp, loc(B.root), not muts,
                    'the buffer is modified (%s) before asking for more bytes: %s' % ([m[1].split('::')[-1] for m in muts],
                        'the complete frame the parser handed over is taken out of the buffer and then answered "need more" - it is lost' if is_err is False else 'bytes of the partial frame are lost'))
        else:
            if inc is True:
                other_answer.append(o); continue
            if is_err is True:
                ctx.add(G2 + '.parse-error-path', dp, loc(B.root), (v[0] == 'tryerr' or (v[0] == 'ctor' and v[1] == 'Err')) and not muts, 'a hard parse error must return Err without consuming')
                continue
            # past the parser
            n_succ += 1
            rest = ('field', ('variant', pterm, 'Ok', 0), '0')
            adv = [m for m in muts if m[1].endswith('::advance')]
            ok = len(muts) == 1 and len(adv) == 1
            if ok:
                arg = adv[0][2][1]
                ok = arg[0] == 'bin' and arg[1] == 'Sub' and arg[2][0] == 'call' and arg[2][1].endswith('::len') and arg[2][2][0] == buf \
                    and arg[3][0] == 'call' and arg[3][1].endswith('::len') and arg[3][2][0] == rest
            ctx.add(G2 + '.consume-exactly-the-frame', '%s|%s' % (dp, 'Ok' if (v[0] == 'ctor' and v[1] == 'Ok') else 'Err'), loc(B.root), ok,
                    'after a complete frame was parsed the buffer must be advanced exactly once by buf.len() - rest.len(); found %s' % [absx.fmt(m[2][-1])[:60] for m in muts])
            if ok:
                first_after = [e for e in o.st.ev if e[0] == 'call' and e[1].endswith('::advance')]
    if other_answer:
        # Incomplete from the parser must mean need-more.  A path that answers otherwise is tolerable only if it cannot be taken while
        # the frame is incomplete: its condition must establish that the whole outermost element (identifier octet, length octets,
        # announced length) is already buffered - which contradicts Incomplete, so the path is dead.  Decided for every value of the
        # first length octet (rules/framelen.py); a path the models cannot read establishes nothing and is reported.
        import framelen
        def verdict(o):
            pterm, inc, is_err = parser_verdict(o)
            return inc, o.val == NEED_MORE
        bad = framelen.incomplete_answers(f, B, buf, 'lber::parse::Parser::parse', verdict, mutations)
        ctx.add(G1 + '.incomplete-means-need-more', dp, loc(B.root), not bad,
                'the parser reported Incomplete but the decoder returned %s on a path that can be taken while the frame is still incomplete '
                '(evaluated for all 256 values of the first length octet; wrong for %s): with first length octet 0x%02x %s' %
                (absx.fmt(other_answer[0].val)[:50], framelen.classes(x for x, _w in bad), bad[0][0] if bad else 0, bad[0][1] if bad else ''))
    ctx.floor(G1, 'need-more paths', n_none, 1)
    ctx.floor(G2, 'paths past the parser', n_succ, 2)

    return dp

def run(ctx):
    f = ctx.facts
    dp = check_frame_decoder(ctx, f)

    # ---- G3 streaming primitives
    G = cone.Graph(f, engine.REPO)
    parent = G.cone(['lber::parse::Parser::parse'])
    ctx.analysed['bodies'].update(parent.keys())
    prims = set()
    for p in parent:
        for c, t, bb in G.ext[p]:
            if c and c.startswith('nom::') and ('::complete::' in c or '::streaming::' in c):
                prims.add(c)
        for b in f.mir[p]['blocks']:
            for r in b.get('refs', []):
                c = r.get('inst') or r.get('callee') or ''
                if c.startswith('nom::') and ('::complete::' in c or '::streaming::' in c):
                    prims.add(c)
    bad = sorted(p for p in prims if '::complete::' in p)
    ctx.add('G3.streaming-primitives', 'lber::parse', '', not bad, 'non-streaming nom primitives in the TLV parser (a short buffer would be an error or a truncated value): %s' % bad)
    ctx.floor('G3', 'nom primitives in the TLV parser cone', len(prims), 3)
    # the streaming entry point, on its paths per class of header (rules/wrapper.py, check_parser_entry): it is the TLV parser applied
    # to the caller's input; a test of its own may answer Incomplete only where the element cannot be complete (the empty buffer, an
    # identifier octet alone, a length field that has not arrived), and nothing but Incomplete while octets are missing
    import wrapper
    P = hirq.Body(f, f.body('lber::parse::Parser::parse'))
    ctx.analysed['bodies'].add(P.path)
    wrapper.check_parser_entry(ctx, f, P, 'lber::parse::parse_tag', 'G3')

    # ---- G8 between the socket and the frame decoder nobody but the frame decoder removes octets (rules/readbuf.py): the census of
    # every site that touches the framed transport; what is done through Framed::read_buffer_mut on the enumerated paths; the
    # re-framing of the TLS upgrade is judged by C17 W3 / C01 R16 (what the new transport is built from) and only listed here
    import readbuf
    from props import C17
    readbuf.check(ctx, f, 'G8', upgrade_site=C17.NT)

    # ---- G4 no cross-call state
    codec = f.items.get('ldap3::protocol::LdapCodec')
    fields = [fl['name'] for v in codec['variants'] for fl in v['fields']] if codec else None
    dec = [it['path'] for it in f.items_all if it.get('kind') == 'AssocFn' and it.get('impl_trait_def') == 'tokio_util::codec::decoder::Decoder' and it['path'].endswith('::decode')]
    D = hirq.Body(f, f.body(anchors.one('Decoder::decode', dec)))
    ctx.analysed['bodies'].add(D.path)
    if not fields:
        ctx.ok('G4.stateless-codec', 'LdapCodec', '', 'the codec has no fields in this configuration')
        if D.path == dp:
            ctx.ok('G4.decode-is-frame-decoder', D.path, loc(D.root), 'Decoder::decode is itself the frame decoder (decided by G1 / G2)')
        else:
            # every path of decode answers what the frame decoder answers for the caller's buffer; a test of its own may answer
            # Ok(None) only where the frame decoder would (rules/wrapper.py: decided per value of the first length octet)
            wrapper.check(ctx, f, D, dp, 'G4.decode-is-frame-decoder', id_range=DELIVERED_IDS)
    else:
        # gssapi: the SASL layer keeps state; the frame decoder itself (G1/G2 above) is what is decided, on whichever buffer it is given
        calls = [n for n, c in walk(D.root) if n['k'] == 'Call' and callee_of(n) == dp]
        ctx.add('G4.decode-uses-frame-decoder', D.path, loc(D.root), len(calls) >= 1, 'Decoder::decode does not go through the frame decoder')
        ctx.note('configuration with SASL state (fields %s): the inner frame decoder is decided, and of the SASL token layer that no shortfall of buffered bytes is answered with an error and that waiting consumes nothing' % fields)
        # G7 the SASL token layer adds no rejection of its own and waits without consuming: every Err path of decode is the frame
        # decoder's own answer or the failure of the unwrap primitive; in particular a path that found fewer bytes buffered than it
        # needs (a length comparison that holds) answers Ok(None).  A literal Ok(None) path has not touched the buffer.
        # G7 (plain connection) with the codec in the state it is constructed in - no security layer was negotiated - decode is the
        # frame decoder applied to the caller's buffer, exactly as in the configuration without the layer (rules/wrapper.py)
        wrapper.check(ctx, f, D, dp, 'G7.plain-connection-is-frame-decoder', id_range=DELIVERED_IDS)
        buf = ('param', 'buf')
        n_err = n_wait = 0
        for o in absx.Interp(f, D, combinators=True).run():
            if o.kind not in ('val', 'ret'):
                continue
            v = o.val
            # the frame decoder's own answer: its call term, the failure side of a `?` applied to it, or its error rebuilt (`Err(e)` /
            # `Err(e.into())` with e the payload of its Err - the identity for the decoder's own error type)
            e_ = v
            while e_[0] == 'tryerr':
                e_ = e_[1]
            if e_[0] == 'ctor' and e_[1] == 'Err' and len(e_[2]) == 1:
                e_ = e_[2][0]
                while e_[0] == 'call' and e_[1].rsplit('::', 1)[-1] in ('from', 'into') and len(e_[2]) == 1:
                    e_ = e_[2][0]
                e_ = e_[1] if e_[0] == 'variant' and e_[2] == 'Err' else ('unk',)
            from_decoder = e_[0] == 'call' and e_[1] == dp
            is_err = (v[0] == 'ctor' and v[1] == 'Err') or v[0] == 'tryerr'
            muts = [e for e in o.st.ev if e[0] == 'call' and e[2] and e[2][0] == buf and e[1].rsplit('::', 1)[-1] in ('advance', 'split_to', 'split_off', 'clear', 'truncate', 'split', 'extend', 'extend_from_slice', 'reserve', 'unsplit')]
            if is_err and not from_decoder:
                n_err += 1
                unwrap_failed = absx.leaves(v, lambda x: x[0] == 'call' and x[1].endswith('::unwrap_iov')) != []
                short = [absx.fmt(a)[:60] for a, t in o.st.pc if t and a[0] == 'bin' and a[1] in ('Lt', 'Le', 'Gt', 'Ge') and absx.leaves(a, lambda x: x[0] == 'call' and x[1].endswith('::len') and x[2] and x[2][0] == buf) != []]
                ctx.add('G7.sasl-layer-no-extra-rejection', 'Err|' + (short[0] if short else absx.fmt(v)[:50]), loc(D.root), unwrap_failed and not short,
                        'Decoder::decode answers an error of its own (%s) on a path that %s: with the SASL layer active a read boundary there ends the connection although the bytes that complete the token are still to come' % (absx.fmt(v)[:70], ('found too few bytes buffered (%s)' % short[0]) if short else 'is neither the frame decoder\'s answer nor a failure of the unwrap primitive'))
            if v == ('ctor', 'Ok', (('ctor', 'None', ()),)):
                n_wait += 1
                ctx.add('G7.waiting-consumes-nothing', 'Ok(None)', loc(D.root), not muts, 'the SASL layer waits for more bytes after touching the buffer: %s' % [m[1].rsplit('::', 1)[-1] for m in muts])
        ctx.floor('G7', 'error paths of the SASL layer', n_err, 1)
        ctx.floor('G7', 'need-more paths of the SASL layer', n_wait, 1)
