"""C10 - search streams deliver the server's items in order and obey the state machine."""
from facts import walk, callee_of, call_args, loc
import sem, hirq, anchors, absx

EXPLANATION = ("Q1 the transition relation of the start/next/finish shims, obtained by path-sensitive abstract execution of their typed "
               "HIR over the finite domain state in {Fresh,Active,Done,Closed,Error} x (innermost?|head of chain?) x result class "
               "{Err, Ok(None), other}, equals the documented diagram: start acts only from Fresh (success leaves Active to the inner "
               "method, error -> Error); next outside Active returns Ok(None) before any call (so it cannot panic), Err -> Error, "
               "Ok(None) at the head of the chain or on a direct stream -> Done, the callee's result is returned unmodified; finish on "
               "Closed returns the synthetic rc 80 without calls, otherwise the inner finish sets Closed and returns the stored result "
               "or the synthetic rc 88; Q7 a stream that was not read to the end (any state but Done) answers 88 even if a result is "
               "stored - or else every adapter path that starts a follow-up Search has emptied stream.res; Q2 the inner receive (evaluated from state Active, constructors of the entry type evaluated, stores to the components of the value applied) hands out ResultEntry(tag, controls) of the received item's own "
               "components for entries and continuation references alike, stores Done's result and returns Ok(None) - on no path but the one on which the stream's own receiver yielded the SearchResultDone -, maps a closed channel to Err(EndOfStream); the control list of the stored "
               "result, as a list term over the list the received result carries itself and the vector received next to it, composed with "
               "what the driver puts into those two when it forwards a SearchResultDone, is exactly the decoded control list - once; "
               "Q5 cancel safety: nothing is moved out of the stream across an await of the stepping function, and no shim leaves a field changed only for the time its callee runs (the chain position) when its future is dropped at that await; Q3 constants (is_ref <=> 19, is_intermediate <=> 25, 80, 88); Q4 Ldap::search = streaming_search_with(EntriesOnly) + "
               "push every entry in order + finish; EntriesOnly drops intermediates, collects referral URIs, passes everything else; its finish() returns, on every path, the upstream result with the collected URIs appended to the referral list "
               "that result came back with (untouched on a path that found nothing collected); Q10 the driver hands an item to the search's channel with a call that can fail only when the receiving stream is gone (not `try_send` on a bounded queue, which also fails when the queue is full and so loses items of a live stream); Q8 every Adapter::next of the crate returns an upstream error as it is: a path that ends while the upstream result is Err, or not known to be Ok, returns that result, a path that goes on knows it to be Ok.")
TRUSTED = ['the adapter chain is entered through these shims only (fields are private: witness crate)', 'tokio mpsc FIFO']
UNDECIDED = ['what the server sent (C01 carries it to the channel)', 'user-defined adapters']
SHARED = [('C01', ('R3.controls', 'R3.protocol-op', 'R4.'), 'Q6.driver-forwards-the-message'),      # what the stream yields is what the driver put into its channel: the decoded protocolOp and control list, classified by tag number
          # "all call sequences of next()/finish()/state() on direct and adapted streams" - through either API: the synchronous EntryStream
          # must be the asynchronous stream driven to completion, call by call (a test of its own before the call is fine exactly when the
          # asynchronous method, entered in the states the test selects, answers the same without doing anything)
          ('C14', ('E.',), 'Q9.sync-stream-is-the-async-stream')]
ASSUMPTIONS = ['adapters called through the chain are summarised as opaque calls whose result is classified Err / Ok(None) / other']

STATES = ['Fresh', 'Active', 'Done', 'Closed', 'Error']
SELF = ('param', 'self')
STATE_PLACE = ('field', SELF, 'state')

def stream_body(f, name):
    return anchors.one('SearchStream::' + name, [h for p, h in f.hir.items() if p.startswith('ldap3::search::SearchStream::<') and p.endswith('::' + name)])

def run_from(f, B, state, summaries=None, **kw):
    I = absx.Interp(f, B, summaries=summaries or [], **kw)
    heap = {STATE_PLACE: ('ctor', 'StreamState::' + state, ())}
    root = B.root['body'] if B.root['k'] == 'Closure' else B.root
    outs = I.run(root=root, heap=heap)
    # strip the async-fn parameter rebinding: values of params are ('param', name) already
    return outs

def final_state(o):
    v = o.st.heap.get(STATE_PLACE)
    return v[1].split('::')[-1] if v and v[0] == 'ctor' else absx.fmt(v)

def calls_of(o):
    return [e for e in o.st.ev if e[0] == 'call' and not e[1].endswith('::len') and not e[1].endswith('::clone')]

def pc_truth(o, pred):
    for a, t in o.st.pc:
        if pred(a):
            return t
    return None

def is_innermost(o):
    return pc_truth(o, lambda a: a[0] == 'bin' and a[1] == 'Eq' and a[2] == ('field', SELF, 'ax') and a[3][0] == 'call' and a[3][1].endswith('::len'))

def is_head(o):
    return pc_truth(o, lambda a: a == ('bin', 'Eq', ('field', SELF, 'ax'), ('lit', 0)))

def result_class(o, res):
    err = absx.pc_variant(o.st.pc, lambda v: v == res, 'Err')
    okk = pc_truth(o, lambda a: a == ('is', res, 'Ok'))
    none = absx.pc_variant(o.st.pc, lambda v: v == ('variant', res, 'Ok', 0), 'None')
    if err is True or okk is False:
        return 'Err'
    if none is True:
        return 'OkNone'
    return 'other'

def inner_call(o, names):
    for e in o.st.ev:
        if e[0] == 'call' and e[1].rsplit('::', 1)[-1] in names and ('SearchStream' in e[1] or 'Adapter' in e[1]):
            return e
    return None

def run(ctx):
    f = ctx.facts
    # ------------------------------------------------------------------ Q1 next
    B = hirq.Body(f, stream_body(f, 'next'))
    ctx.analysed['bodies'].add(B.path)
    for s in STATES:
        if s == 'Active':
            continue
        outs = run_from(f, B, s)
        ok = len(outs) == 1 and outs[0].kind in ('ret', 'val') and outs[0].val == ('ctor', 'Ok', (('ctor', 'None', ()),)) \
            and not calls_of(outs[0]) and not [e for e in outs[0].st.ev if e[0] in ('may-panic', 'index', 'store')] and final_state(outs[0]) == s
        ctx.add('Q1.next.inactive-returns-none', s, loc(B.root), ok,
                'next() in state %s must return Ok(None) before doing anything else; found %s' % (s, [(o.kind, absx.fmt(o.val)[:40], final_state(o), len(calls_of(o))) for o in outs][:4]))
    outs = run_from(f, B, 'Active')
    seen = set()
    for o in outs:
        if o.kind not in ('ret', 'val'):
            ctx.fail('Q1.next.path-kind', o.kind, loc(B.root), 'next() has a path ending in %s' % o.kind)
            continue
        inner = is_innermost(o)
        call = inner_call(o, ('next_inner', 'next'))
        if call is None or o.val[0] != 'await' or o.val[1][0] != 'call' or o.val[1][3] != call[3].get('id'):
            ctx.fail('Q1.next.returns-callee-result', 'innermost=%s' % inner, loc(B.root), 'next() does not return the result of the inner call unmodified: %s' % absx.fmt(o.val)[:80])
            continue
        want_callee = 'next_inner' if inner else 'next'
        okc = call[1].rsplit('::', 1)[-1] == want_callee and (inner or 'Adapter' in call[1]) and SELF in call[2]
        ctx.add('Q1.next.callee', 'innermost=%s' % inner, loc(call[3]), okc, 'wrong callee %s for innermost=%s' % (call[1], inner))
        rc = result_class(o, o.val)
        head = is_head(o)
        if rc == 'Err':
            exp = 'Error'
        elif rc == 'OkNone' and head is True:
            exp = 'Done'
        else:
            exp = 'Active'
        if rc == 'OkNone' and head is None:
            ctx.fail('Q1.next.done-transition', 'innermost=%s|OkNone' % inner, loc(B.root),
                     'on Ok(None) the shim does not test whether it is the head of the chain (ax == 0): final state %s' % final_state(o))
            continue
        key = 'innermost=%s|%s|head=%s' % (inner, rc, head if rc == 'OkNone' else '-')
        seen.add((inner, rc, head if rc == 'OkNone' else None))
        ctx.add('Q1.next.transition', key, loc(B.root), final_state(o) == exp,
                'next(): Active --[%s]--> %s, documented: %s' % (key, final_state(o), exp))
    for need in [(True, 'Err', None), (True, 'OkNone', True), (False, 'Err', None), (False, 'OkNone', True), (False, 'OkNone', False), (True, 'other', None), (False, 'other', None)]:
        ctx.add('Q1.next.coverage', str(need), loc(B.root), need in seen, 'no path of next() for case (innermost, result, head) = %s' % (need,))

    # ------------------------------------------------------------------ Q1 start
    S = hirq.Body(f, stream_body(f, 'start'))
    ctx.analysed['bodies'].add(S.path)
    for s in STATES:
        if s == 'Fresh':
            continue
        outs = run_from(f, S, s)
        ok = len(outs) == 1 and outs[0].val == ('ctor', 'Ok', (('tuple', ()),)) and not calls_of(outs[0]) and final_state(outs[0]) == s
        ctx.add('Q1.start.only-from-fresh', s, loc(S.root), ok, 'start() in state %s must return Ok(()) without effect' % s)
    seen = set()
    params = [('param', n) for n in ('base', 'scope', 'filter', 'attrs')]
    for o in run_from(f, S, 'Fresh'):
        inner = is_innermost(o)
        call = inner_call(o, ('start_inner', 'start'))
        if call is None:
            ctx.fail('Q1.start.calls-inner', 'innermost=%s' % inner, loc(S.root), 'start() from Fresh does not call the inner start')
            continue
        args = list(call[2])
        okargs = args[-4:] == params and SELF in args[:-4]
        ctx.add('Q1.start.arguments', 'innermost=%s' % inner, loc(call[3]), okargs, 'start parameters are not passed on in order: %s' % [absx.fmt(a) for a in args])
        want = 'start_inner' if inner else 'start'
        ctx.add('Q1.start.callee', 'innermost=%s' % inner, loc(call[3]), call[1].rsplit('::', 1)[-1] == want and (inner or 'Adapter' in call[1]), 'wrong callee %s' % call[1])
        res = o.val
        err = absx.pc_variant(o.st.pc, lambda v: v == res, 'Err') is True or pc_truth(o, lambda a: a == ('is', res, 'Ok')) is False
        exp = 'Error' if err else 'Fresh'
        seen.add((inner, err))
        ctx.add('Q1.start.transition', 'innermost=%s|err=%s' % (inner, err), loc(S.root), final_state(o) == exp,
                'start(): Fresh --[err=%s]--> %s, documented: %s (Active is set by the inner method)' % (err, final_state(o), exp))
    for need in [(True, True), (True, False), (False, True), (False, False)]:
        ctx.add('Q1.start.coverage', str(need), loc(S.root), need in seen, 'no path of start() for (innermost, err) = %s' % (need,))
    # start_inner: Active exactly on success of the issue call, receiver stored before
    SI = hirq.Body(f, stream_body(f, 'start_inner'))
    ctx.analysed['bodies'].add(SI.path)
    souts = [o for o in run_from(f, SI, 'Fresh') if o.kind in ('val', 'ret')]
    n_act = 0
    for o in souts:
        fs = final_state(o)
        opc = [e for e in o.st.ev if e[0] == 'call' and e[1].endswith('::op_call')]
        if not opc:
            ctx.add('Q1.start_inner.no-issue-no-active', fs, loc(SI.root), fs == 'Fresh', 'state changed although the search was not issued')
            continue
        res = ('await', ('call', opc[0][1], opc[0][2], opc[0][3].get('id')))
        ok_is = pc_truth(o, lambda a: a == ('is', res, 'Ok'))
        exp = 'Active' if ok_is is True else 'Fresh'
        n_act += fs == 'Active'
        ctx.add('Q1.start_inner.active-iff-issued', 'ok=%s' % ok_is, loc(SI.root), fs == exp, 'start_inner: issue ok=%s leaves state %s, expected %s' % (ok_is, fs, exp))
        rx = o.st.heap.get(('field', SELF, 'rx'))
        ctx.add('Q1.start_inner.rx-some', 'ok=%s' % ok_is, loc(SI.root), rx is not None and rx[0] == 'ctor' and rx[1] == 'Some',
                'the item receiver is not stored before the stream can become Active (Active => rx.is_some())')
    ctx.add('Q1.start_inner.coverage', 'active path', loc(SI.root), n_act >= 1, 'no path of start_inner reaches Active')

    # ------------------------------------------------------------------ Q1 finish
    F = hirq.Body(f, stream_body(f, 'finish'))
    ctx.analysed['bodies'].add(F.path)
    outs = run_from(f, F, 'Closed')
    ok = len(outs) == 1 and not calls_of_nonstring(outs[0]) and final_state(outs[0]) == 'Closed' and struct_rc(outs[0].val) == 80
    ctx.add('Q1.finish.closed-returns-80', 'Closed', loc(F.root), ok, 'finish() on a Closed stream must return the synthetic result code 80 without calls')
    for s in STATES:
        if s == 'Closed':
            continue
        for o in run_from(f, F, s):
            inner = is_innermost(o)
            call = inner_call(o, ('finish_inner', 'finish'))
            okr = call is not None and o.val == ('await', ('call', call[1], call[2], call[3].get('id')))
            want = 'finish_inner' if inner else 'finish'
            ctx.add('Q1.finish.delegates', '%s|innermost=%s' % (s, inner), loc(F.root),
                    okr and call[1].rsplit('::', 1)[-1] == want and SELF in call[2], 'finish() does not return the inner finish result unmodified')
    FI = hirq.Body(f, stream_body(f, 'finish_inner'))
    ctx.analysed['bodies'].add(FI.path)
    synthetic = []
    unfinished_ok, unfinished_bad = 0, []
    for s in STATES:
        seen_res = set()
        for o in run_from(f, FI, s, combinators=True):
            if o.kind not in ('val', 'ret'):
                continue
            ctx.add('Q1.finish_inner.closes', s, loc(FI.root), final_state(o) == 'Closed', 'finish_inner from %s ends in %s' % (s, final_state(o)))
            v = o.val
            stored = sem.taken_from  # the stored result is moved out of self.res (take / mem::take / mem::replace(.., None))
            has = absx.pc_variant(o.st.pc, lambda x: stored(x, lambda p: p == ('field', SELF, 'res')) or x == ('field', SELF, 'res'), 'Some')
            if s != 'Done':
                # "read to the end" is the state Done (Q1.next: Ok(None) at the head of the chain).  From any other state the answer
                # is the synthetic 88 - whether or not a result is stored: `res` is a public field, and an adapter that chains several
                # Searches leaves the result of an earlier one there while the next is in progress
                if struct_rc(v) == 88:
                    unfinished_ok += 1
                    synthetic.append(88)
                else:
                    unfinished_bad.append((s, has, absx.fmt(v)[:70]))
                continue
            if has is True:
                seen_res.add('stored')
                okv = sem.payload_of(v, lambda x: stored(x, lambda p: p == ('field', SELF, 'res')))
                ctx.add('Q1.finish_inner.returns-stored-or-88', s + '|stored', loc(FI.root), okv, 'with a stored final result finish_inner returns %s instead of that result' % absx.fmt(v)[:80])
            elif has is False:
                seen_res.add('none')
                synthetic.append(struct_rc(v))
                ctx.add('Q1.finish_inner.returns-stored-or-88', s + '|none', loc(FI.root), struct_rc(v) == 88,
                        'without a stored final result finish_inner must return the synthetic result code 88, found %s' % absx.fmt(v)[:80])
            else:
                ctx.fail('Q1.finish_inner.returns-stored-or-88', s, loc(FI.root), 'finish_inner does not decide on the stored final result (self.res): %s' % absx.fmt(v)[:80])
        if s == 'Done':
            ctx.add('Q1.finish_inner.returns-stored-or-88', s + '|coverage', loc(FI.root), seen_res == {'stored', 'none'}, 'finish_inner paths seen for a stored result: %s' % sorted(seen_res))
    # Q7: a stream that was not read to the end answers 88.  Either finish_inner itself answers 88 from every state but Done, or no
    # code of the crate can leave a stored result behind in a stream that goes on: every adapter path that splices a new receiver
    # into the stream has emptied stream.res (and then "stored" implies Done, Q2.done-stores-result being the only other writer)
    if unfinished_bad:
        leftovers = stale_results_left_by_adapters(ctx, f)
        ctx.add('Q7.unfinished-stream-answers-88', 'finish_inner', loc(FI.root), leftovers == [],
                'finish() on a stream that was not read to the end must return the synthetic result 88, but finish_inner returns the stored result '
                'from state(s) %s and %s leaves the result of an earlier Search in stream.res while the next one is in progress (paged search, '
                'finish() or an error on page 2+ returns page 1\'s server result)' % (sorted({b[0] for b in unfinished_bad}), ', '.join(leftovers) or '-'))
    else:
        ctx.add('Q7.unfinished-stream-answers-88', 'finish_inner', loc(FI.root), unfinished_ok >= 3, 'finish_inner paths from Fresh / Active / Error: %d' % unfinished_ok)
    # Q3: the value finish_inner returns on the paths without a stored final result (wherever and however it is built: a struct
    # literal in a closure, a helper, a named constant) carries the literal result code 88
    ctx.add('Q3.cancelled-is-88', FI.path, loc(FI.root), bool(synthetic) and all(rc == 88 for rc in synthetic),
            'the synthetic result of an unfinished stream is not code 88 (result codes on the paths without a stored result: %s)' % sorted(set(map(str, synthetic))))

    # ------------------------------------------------------------------ Q2 next_inner
    N = hirq.Body(f, stream_body(f, 'next_inner'))
    # Q5 the stepping function is cancel safe: nothing of the stream is held by the pending future while it waits
    import cancel
    n_aw = cancel.check(ctx, 'Q5.nothing-moved-out-of-the-stream-across-await', f, N)
    # Q5 a stream whose receiver is gone while it is still Active (a pending next() was dropped while an adapter was replacing a
    # finished Search with its successor: the receiver was emptied at Done and the follow-up not yet spliced in) answers an error;
    # it does not panic.  Decided by evaluating the stepping function with the receiver field holding None.
    n_rx = 0
    bad_rx = []
    for o in absx.Interp(f, N, combinators=True).run(root=sem.entry(N), heap={STATE_PLACE: ('ctor', 'StreamState::Active', ()), ('field', SELF, 'rx'): ('ctor', 'None', ())}):
        n_rx += 1
        panics = [e for e in o.st.ev if e[0] in ('may-panic', 'panic')]
        if o.kind == 'div' or panics or not (o.kind in ('val', 'ret') and sem.is_err_result(o.val)):
            bad_rx.append((o.kind, absx.fmt(o.val)[:40] if o.val else '', len(panics)))
    ctx.add('Q5.missing-receiver-is-an-error', N.path, loc(N.root), n_rx >= 1 and not bad_rx,
            'with no receiver in the stream (a next() future dropped while an adapter was starting the follow-up Search leaves the stream Active with rx == None) the '
            'stepping function does not answer an error: %s - the following next() panics' % (bad_rx[:3] or 'no path'))
    # Q5 for the three shims: what a shim changes only for the time its callee runs (the position in the adapter chain) must not be
    # left changed when the pending future is dropped at that await - the next call would start further down the chain, bypass the
    # adapters and never reach Done
    for shim, SB in (('start', S), ('next', B), ('finish', F)):
        brack = set()
        for st_name in STATES:
            for o in run_from(f, SB, st_name):
                for fld, val in cancel.fields_bracketed_around_await(o, SELF):
                    if fld != 'state':
                        brack.add((fld, val))
        ctx.add('Q5.shim-restores-chain-position', shim, loc(SB.root), not brack,
                '%s() sets %s before awaiting the adapter and sets it back afterwards: if the pending future is dropped at that await (tokio::time::timeout or select! '
                'around it) the stream keeps the temporary value, later calls bypass the adapter chain, the state never becomes Done and a further next() panics'
                % (shim, ', '.join('%s = %s' % b for b in sorted(brack))))
    ctx.floor('Q5', 'await points on the paths of next_inner', n_aw, 1)
    ctx.analysed['bodies'].add(N.path)
    # a workspace function that builds the entry type (`ResultEntry::new`) is evaluated, not summarised: what counts is the value
    # handed out, whoever put it together
    ENTRY_TY = 'ldap3::search::ResultEntry'
    builds_entry = lambda cal: (f.items.get(cal) or {}).get('output') == ENTRY_TY and not (f.items.get(cal) or {}).get('asyncness') and cal in f.hir
    outs = [o for o in run_from(f, N, 'Active', inline=builds_entry) if o.kind in ('val', 'ret')]
    kinds = set()
    # the item channel's receive on this path: recv() on the stream's own receiver, bare or under the per-item timeout
    is_recv = lambda t: t[0] == 'call' and t[1].startswith('tokio::sync::mpsc::') and t[1].endswith('Receiver::<T>::recv') and len(t[2]) == 1 and sem.has(t[2][0], lambda x: x == ('field', SELF, 'rx'))
    def recv_result(t):
        if t[0] == 'await' and is_recv(t[1]):
            return True
        return t[0] == 'variant' and t[2] == 'Ok' and t[1][0] == 'await' and t[1][1][0] == 'call' and t[1][1][1] == 'tokio::time::timeout::timeout' and len(t[1][1][2]) == 2 and is_recv(t[1][1][2][1])
    received_item = lambda t: t[0] == 'variant' and t[2] == 'Some' and t[3] == 0 and recv_result(t[1])       # the (SearchItem, Vec<Control>) pair
    item_variants = [hirq.short_def(v['path']) for v in (f.items.get('ldap3::search::SearchItem') or {}).get('variants', [])]
    import donectrls
    pairs, n_pairs = None, 0
    for o in outs:
        v = o.val
        # the received item: the Option<(SearchItem, Vec<Control>)> term is whatever the `item` match examined
        if v[0] == 'ctor' and v[1] == 'Err':
            if v[2] and v[2][0] == ('ctor', 'LdapError::EndOfStream', ()):
                kinds.add('eos')
                rx = o.st.heap.get(('field', SELF, 'rx'))
                # ... or the path found the receiver gone already (the field was tested and is None)
                gone = absx.pc_variant(o.st.pc, lambda t: sem.strip_site(t) == ('field', SELF, 'rx') or sem.has(t, lambda x: x == ('field', SELF, 'rx')), 'None') is True
                ctx.add('Q2.closed-channel', 'Err(EndOfStream)', loc(N.root), rx == ('ctor', 'None', ()) or (rx is None and gone), 'closed channel: receiver not dropped')
            continue
        if v[0] == 'ctor' and v[1] == 'Ok' and v[2] and v[2][0][0] == 'ctor' and v[2][0][1] == 'Some':
            # the VALUE handed out at the end of the path: the constructor term with the stores the path made to its components
            # applied (`let mut e = ResultEntry::new(tag); e.1 = controls; Ok(Some(e))` hands out ResultEntry(tag, controls))
            re = current_value(v[2][0][2][0], o.st.heap)
            ok = re[0] == 'ctor' and re[1].endswith('ResultEntry') and len(re[2]) == 2
            what, why = absx.fmt(re)[:60], 'the value handed out is not a ResultEntry the rule can read: %s' % absx.fmt(re)[:80]
            if ok:
                tag, ctr = re[2]
                # tag = payload of Entry/Referral of <item>.0, ctr = <item>.1 of the same received pair - for directory entries AND
                # for continuation references (a reference's envelope carries controls like any other message's)
                okt = tag[0] == 'variant' and tag[2] in ('SearchItem::Entry', 'SearchItem::Referral') and tag[3] == 0 and tag[1][0] == 'field' and tag[1][2] == '0' \
                    and received_item(tag[1][1])
                ok = okt and ctr == ('field', tag[1][1], '1')
                if okt:
                    what = tag[2]
                    why = 'the %s handed out carries the control list %s, not the control list received with it (<received item>.1): the controls of the message\'s envelope do not reach the caller' % (
                        'continuation reference' if tag[2].endswith('Referral') else 'entry', absx.fmt(ctr)[:50] if ctr != ('vec', ()) else 'vec![] (empty)')
                else:
                    why = 'the entry handed out does not carry the tag of the item received on the stream\'s own channel: %s' % absx.fmt(tag)[:80]
                kinds.add(tag[2] if ok else 'bad')
            ctx.add('Q2.entry-from-received-item', what, loc(N.root), ok, why)
            continue
        if v == ('ctor', 'Ok', (('ctor', 'None', ()),)):
            kinds.add('done')
            # Ok(None) - "this Search is complete" - is answered only on a path on which the stream's own receiver yielded an item and
            # that item is the SearchResultDone.  A closed channel, a result left in self.res by an earlier Search of the same stream
            # (PagedResults keeps page k-1's there while page k is read) or the stream's state are not that: the adapter would take
            # an abandoned page for a finished one and ask for it again
            got_done = sem.variant_truth(o.st.pc, lambda x: x[0] == 'field' and x[2] == '0' and received_item(x[1]), 'SearchItem::Done', item_variants)
            ctx.add('Q2.end-of-stream-means-done-received', 'Ok(None)|' + ('item received' if sem.succeeded(o, recv_result) else 'channel closed' if sem.failed(o, recv_result) else 'receive not tested'),
                    loc(N.root), got_done is True,
                    'next_inner answers Ok(None) on a path on which the stream\'s own receiver did not yield a SearchResultDone (%s): the end of a Search is reported '
                    'without its result having arrived on this receiver - with PagedResults the previous page\'s result is still in self.res, so an abandoned or lost page '
                    'is taken for a finished one, its cookie is used again and entries are delivered twice' % (
                        'the channel was closed' if sem.failed(o, recv_result) else 'the received item is not known to be Done'))
            rx = o.st.heap.get(('field', SELF, 'rx'))
            # what self.res holds when the path returns: Some(X) where X is the Done message's own result, nothing of it overwritten
            # but its control list (assigned field by field, extended in place, or rebuilt with `..res`), and the receiver dropped
            T, okst, _o = donectrls.stream_transfers(f, N, [o], stored_final_result)[0]
            ok = okst and rx == ('ctor', 'None', ())
            why = 'SearchResultDone: the result (with the message\'s controls) is not stored / receiver not dropped'
            if ok:
                # ... and that control list, as a function T(R, S) of the list R the received result carries itself and the vector S
                # received next to it, composed with what the driver puts into R and S when it forwards a SearchResultDone, is exactly
                # the control list decoded from the message: once, in order (not R ++ S with both carrying it, not an emptied vector)
                if pairs is None:
                    pairs = donectrls.driver_pairs(anchors.Conn(f))      # (a driver loop that cannot be anchored is reported as such)
                if not pairs:
                    why = 'SearchResultDone: no send of a final result found on the paths of the driver\'s response arm, so what the stored control list is composed with is not known'
                n_pairs = len(pairs)
                bad = [(R_, S_) for R_, S_, node in pairs if donectrls.compose(T, R_, S_) != donectrls.EXACT]
                ok = bool(pairs) and not bad
                if bad:
                    R_, S_ = bad[0]
                    why = ('SearchResultDone: the stored result\'s control list is %s; the driver sends the result with ctrls = %s and, next to it, %s: '
                           'finish() returns LdapResult::ctrls = %s, not exactly the control list the server sent' % (
                               donectrls.show(T), donectrls.show(R_), donectrls.show(S_), donectrls.show(donectrls.compose(T, R_, S_))))
            ctx.add('Q2.done-stores-result', 'Ok(None)', loc(N.root), ok, why)
            continue
        if v[0] in ('tryerr',):
            continue
        ctx.fail('Q2.unexpected-return', absx.fmt(v)[:60], loc(N.root), 'unexpected return of next_inner')
    for need in ('eos', 'SearchItem::Entry', 'SearchItem::Referral', 'done'):
        ctx.add('Q2.coverage', need, loc(N.root), need in kinds, 'no path of next_inner for ' + need)
    if 'done' in kinds and pairs is not None:
        ctx.floor('Q2', 'sends of a SearchResultDone by the driver composed with the stream\'s Done paths', n_pairs, 1)

    # ------------------------------------------------------------------ Q3 constants
    for name, val in (('is_ref', 19), ('is_intermediate', 25)):
        h = f.hir.get('ldap3::search::ResultEntry::' + name)
        if h is None:
            ctx.fail('anchor-missing', 'ResultEntry::' + name, '', 'public method not found'); continue
        b = h['body']
        e = b['expr'] if b['k'] == 'Block' and not b['stmts'] else b
        ok = e['k'] == 'Binary' and e['op'] == 'Eq' and hirq.const_eval(f, e['r']) == val and e['l']['k'] == 'Field' and e['l']['name'] == 'id' \
            and e['l']['e']['k'] == 'Field' and e['l']['e']['name'] == '0'
        ctx.add('Q3.' + name, str(val), loc(b), ok, '%s must be `self.0.id == %d`' % (name, val))

    # ------------------------------------------------------------------ Q4 search() and EntriesOnly
    SR = hirq.Body(f, f.body('ldap3::ldap::Ldap::search'))
    ctx.analysed['bodies'].add(SR.path)
    check_search(ctx, f, SR)

    EN = '<ldap3::adapters::EntriesOnly as ldap3::adapters::Adapter<\'a, S, A>>::'
    E = hirq.Body(f, f.body(EN + 'next'))
    ctx.analysed['bodies'].add(E.path)
    I = absx.Interp(f, E, unroll=1)
    root = inner_async_body(E.root)
    outs = I.run(root=root)
    seen = set()
    for o in outs:
        up = [e for e in o.st.ev if e[0] == 'call' and e[1].endswith('::next') and 'SearchStream' in e[1]]
        if not up:
            continue
        res = ('await', ('call', up[0][1], up[0][2], up[0][3].get('id')))
        entry = ('variant', ('variant', res, 'Ok', 0), 'Some', 0)
        is_int = pc_truth(o, lambda a: a[0] == 'call' and a[1].endswith('::is_intermediate'))
        is_ref = pc_truth(o, lambda a: a[0] == 'call' and a[1].endswith('::is_ref'))
        if o.kind in ('ret', 'val', 'brk'):
            v = o.val
            if v == ('ctor', 'Ok', (('ctor', 'None', ()),)):
                seen.add('none')
                ctx.add('Q4.entries-only.end-passthrough', 'Ok(None)', loc(E.root), step_class(o, res) == 'OkNone',
                        'the adapter reports the end of the stream on a path where the upstream next() is not known to have returned Ok(None)')
            elif sem.is_err_result(v):
                # Err(e) of the upstream's `Err(e)`, or the propagation of the upstream result by `?`
                seen.add('err')
                ctx.add('Q4.entries-only.err-passthrough', 'Err', loc(E.root), step_class(o, res) == 'Err' and sem.reconstructs(v, res), 'errors are not passed through unchanged')
            elif v == ('ctor', 'Ok', (('ctor', 'Some', (entry,)),)):
                seen.add('entry')
                ctx.add('Q4.entries-only.entry-passthrough', 'entry', loc(E.root), is_int is False and is_ref is False,
                        'an item is returned to the caller although it is intermediate=%s / referral=%s' % (is_int, is_ref))
            else:
                ctx.fail('Q4.entries-only.return', absx.fmt(v)[:60], loc(E.root), 'EntriesOnly::next returns something other than the upstream item')
        elif o.kind in ('loop', 'cont'):
            ext = [e for e in o.st.ev if e[0] == 'call' and e[1].endswith('::extend')]
            if is_int is True:
                seen.add('skip-intermediate')
                ctx.add('Q4.entries-only.drops-intermediate', 'intermediate', loc(E.root), not ext, 'intermediate message has a side effect')
            elif is_ref is True:
                seen.add('collect-ref')
                okx = len(ext) == 1 and ext[0][2][0] == ('field', SELF, 'refs') and ext[0][2][1][0] == 'call' and ext[0][2][1][1].endswith('::parse_refs') \
                    and ext[0][2][1][2][0] == ('field', entry, '0')
                ctx.add('Q4.entries-only.collects-referral', 'referral', loc(E.root), okx, 'referral URIs are not collected with parse_refs(entry.0) into self.refs')
            else:
                ctx.fail('Q4.entries-only.skips-entry', 'loop', loc(E.root), 'a directory entry is skipped')
    for need in ('none', 'err', 'entry', 'skip-intermediate', 'collect-ref'):
        ctx.add('Q4.entries-only.coverage', need, loc(E.root), need in seen, 'no path of EntriesOnly::next for ' + need)
    EF = hirq.Body(f, f.body(EN + 'finish'))
    ctx.analysed['bodies'].add(EF.path)
    outs = absx.Interp(f, EF).run(root=inner_async_body(EF.root))
    # on every path: the value returned is the upstream finish() result, whose referral list then holds what it held when it
    # came back followed by the URIs the adapter collected (extend / append / extend_from_slice, moved or copied out of self.refs) -
    # or, on a path that found nothing collected (`self.refs.is_empty()`), that list untouched.  Assigning the collected vector to
    # it drops the referrals the server put into the SearchResultDone itself
    REFS0 = ('field', SELF, 'refs')
    n_merge = 0
    for o in outs:
        if o.kind not in ('val', 'ret'):
            ctx.fail('Q4.entries-only.finish-merges-refs', o.kind, loc(EF.root), 'EntriesOnly::finish has a path ending in %s' % o.kind)
            continue
        fin = [e for e in o.st.ev if e[0] == 'call' and e[1].endswith('::finish') and 'SearchStream' in e[1]]
        none_collected = pc_truth(o, lambda a: a[0] == 'call' and a[1].endswith('::is_empty') and a[2] == (REFS0,))
        which = 'collected=%s' % {True: 'none', False: 'some', None: 'any'}[none_collected]
        if len(fin) != 1:
            ctx.fail('Q4.entries-only.finish-merges-refs', which, loc(EF.root), 'a path of EntriesOnly::finish calls the upstream finish() %d times' % len(fin))
            continue
        res = ('await', ('call', fin[0][1], fin[0][2], fin[0][3].get('id')))
        own = ('field', res, 'refs')
        have = o.st.heap.get(own, own)
        others = sorted(k[2] for k in o.st.heap if k[0] == 'field' and k[1] == res and k[2] != 'refs')
        merged = have == ('concat', own, REFS0)
        if not merged and have == own:
            # the same through an iterator over the collected vector (`extend(self.refs.drain(..))`, `extend(self.refs.iter().cloned())`):
            # the one mutating call on the result's list on this path is an extend with every collected element, front to back
            touching = [e for e in o.st.ev if e[0] == 'call' and e[2] and e[2][0] == own and e[1].rsplit('::', 1)[-1] not in absx.PURE_OBSERVERS]
            merged = len(touching) == 1 and touching[0][1].rsplit('::', 1)[-1] in ('extend', 'extend_from_slice') and len(touching[0][2]) == 2 and every_element_of(touching[0][2][1], REFS0)
        n_merge += merged
        okf = o.val == res and not others and (merged or (have == own and none_collected is True))
        ctx.add('Q4.entries-only.finish-merges-refs', which, loc(EF.root), okf,
                'EntriesOnly::finish must return the upstream result with the collected referral URIs appended to the referral list that result came back with; '
                'on this path it returns %s with refs = %s%s: %s' % (
                    absx.fmt(o.val)[:40], absx.fmt(have)[:70], (' and %s overwritten' % ', '.join(others)) if others else '',
                    'the referral list decoded from the SearchResultDone is replaced by the collected one' if have == REFS0 else
                    'the collected referrals are dropped' if have == own else 'that is not <result>.refs ++ self.refs'))
    ctx.add('Q4.entries-only.finish-merges-refs', 'coverage', loc(EF.root), n_merge >= 1, 'no path of EntriesOnly::finish appends the collected referral URIs to the upstream result')

    adapters_pass_upstream_errors(ctx, f)
    delivery_fails_only_when_the_stream_is_gone(ctx, f)

    # an adapter instance outlives one search (the chain is cloneable and a running stream hands out clones of its adapters for a
    # follow-up search): the referrals reported for a search are those received for it only if the accumulator is empty when the
    # search starts - on every path of EntriesOnly::start that reaches the upstream start()
    ES = hirq.Body(f, f.body(EN + 'start'))
    ctx.analysed['bodies'].add(ES.path)
    outs = absx.Interp(f, ES).run(root=inner_async_body(ES.root))
    REFS = ('field', SELF, 'refs')
    def empties(e):
        if e[0] == 'call' and e[2] and e[2][0] == REFS:
            m = e[1].rsplit('::', 1)[-1]
            if m == 'clear' or e[1] == 'core::mem::take' or (m == 'truncate' and e[2][1:] == (('lit', 0),)) or (m == 'drain' and 'RangeFull' in absx.fmt(e[2][1:])):
                return True
            if e[1] == 'core::mem::replace' and len(e[2]) > 1 and is_empty_vec(e[2][1]):
                return True
        return e[0] == 'store' and e[1] == REFS and is_empty_vec(e[2])
    n_up = 0
    for o in outs:
        ups = [i for i, e in enumerate(o.st.ev) if e[0] == 'call' and e[1].endswith('::start') and 'SearchStream' in e[1]]
        if not ups:
            continue
        n_up += 1
        ok = any(empties(e) for e in o.st.ev[:ups[0]])
        ctx.add('Q4.entries-only.start-with-no-referrals', '%s|%s' % (o.kind, absx.fmt(o.val)[:30]), loc(ES.root), ok,
                'EntriesOnly::start reaches the upstream start() without emptying the collected referral list: an adapter instance that '
                'already served (or was cloned from one serving) another search reports that search\'s referrals in this one\'s result')
    ctx.floor('Q4', 'paths of EntriesOnly::start reaching the upstream start()', n_up, 1)


def current_value(v, heap):
    """The value a constructor term denotes at the end of a path: stores the path made to its positional components (heap entries
    keyed by the term itself) replace the components it was built with.  Any other term is returned as it is (an opaque call term
    with some fields overwritten is not a value the rules can read: they fail closed on it)."""
    if v[0] == 'ctor':
        return ('ctor', v[1], tuple(current_value(heap.get(('field', v, str(i)), a), heap) for i, a in enumerate(v[2])))
    return v

def delivery_fails_only_when_the_stream_is_gone(ctx, f):
    """Q10 "a stream yields exactly the items the server sent for that search": between the decoded message and the stream lies the
    hand-over of the item to the search's channel in the driver's response arm.  The arm treats a failed hand-over as "nobody
    listens any more" (it drops the item and un-routes the search), which is right exactly when the delivery call can fail ONLY
    because the receiving stream is gone.  Decided from the resolved callee of every delivery call on the enumerated paths of the
    arm (a delivery call, by role: a call on the sender found in the search routing map that is handed the (item, controls)
    message - driver.hands_over) against the failure table of the channel library (driver.DELIVERY): `UnboundedSender::send` fails
    only when the receiver was closed or dropped; an awaited `Sender::send` on a bounded channel likewise (but it waits for room,
    which stalls the driver: C04 L2.arm-awaits-only-the-transport); `try_send` / `send_timeout` on a bounded channel also fail when
    the queue is full / stays full - an item sent by the server is then discarded although its stream is alive.  A delivery
    call that is not in the table is not decided and fails closed."""
    import driver
    C = anchors.Conn(f)
    outs, _I = driver.arm_paths(C, 'response')
    sites = {}
    for o in outs:
        for i, args, node in driver.sends(o, anchors.T_ITEM_SENDER):
            ent = sites.setdefault(id(node), {'node': node, 'callee': o.st.ev[i][1], 'unrouted_on_failure': False, 'items': set()})
            term = ('call', o.st.ev[i][1], tuple(args), node.get('id'))
            failed = sem.failed(o, lambda v, term=term: v == term or v == ('await', term))
            if failed and driver.net_registration(C, o, 'search', driver.DECODED_ID) != 'kept':
                ent['unrouted_on_failure'] = True
            pl = args[1]
            if pl[0] == 'tuple' and pl[1] and pl[1][0][0] == 'ctor':
                ent['items'].add(pl[1][0][1].split('::')[-1])
    ctx.floor('Q10', 'item deliveries on the paths of the driver\'s response arm', len(sites), 1)
    for ent in sites.values():
        cal = ent['callee']
        means, waits = driver.delivery_failure_means(cal)
        short = '::'.join(cal.replace('::<T>', '').rsplit('::', 2)[-2:])
        if means is None:
            why = ('the driver hands a search item to its stream with `%s`, a call whose failure conditions are not in the table of channel operations (rules/driver.py DELIVERY): '
                   'not decided that it fails only when the stream is gone' % cal)
        else:
            why = ('the driver hands a search item (%s) to its stream with `%s`, whose failure does not only mean that the receiving stream is gone but also that %s: '
                   'the item is then discarded although the stream is alive%s - the stream does not yield exactly the items the server sent (it ends early, or misses entries)'
                   % (' / '.join(sorted(ent['items'])) or 'entry, referral or the SearchResultDone', short,
                      {'full-or-closed': 'the bounded queue is full (the consumer is that many items behind)', 'timeout-or-closed': 'no room became free in the queue in time'}.get(means, means),
                      ', and the arm un-routes the search on that failure as if nobody listened any more' if ent['unrouted_on_failure'] else ''))
        ctx.add('Q10.delivery-fails-only-when-the-stream-is-gone', short, loc(ent['node']), means == 'closed', why)
        if means == 'closed' and waits:
            ctx.note('Q10: `%s` fails only when the stream is gone, but it waits for room in a bounded queue: the driver stalls behind a slow consumer (C04 L2.arm-awaits-only-the-transport)' % short)

def adapters_pass_upstream_errors(ctx, f):
    """Q8, for every Adapter::next of the crate, on every path: when the upstream next() - the next adapter of the chain or the
    stream itself - answered Err, the adapter returns that very error.  Stated over the path condition: a path that ends the call
    while the upstream result is known to be Err, or is not known to be Ok (the path tested it with a pattern that an Err merely
    fails to match, e.g. `while let Ok(Some(x))`), must return that result - itself, its Err taken apart and put together again,
    or propagated by `?`; a path that goes round the loop again must know it to be Ok.  Otherwise an error of the inner stream
    (a Timeout, a lost connection) reaches the caller as the end of the stream or not at all."""
    n_ad = 0
    for p, h in sorted(f.hir.items()):
        if not (p.startswith('<ldap3::adapters::') and ' as ldap3::adapters::Adapter<' in p and p.endswith('>::next')):
            continue
        B = hirq.Body(f, h)
        ctx.analysed['bodies'].add(p)
        name = p.split(' as ')[0].lstrip('<').split('<')[0].rsplit('::', 1)[-1]
        n_ad += 1
        n_err = 0
        for o in absx.Interp(f, B, unroll=1, for_once=True, combinators=True).run(root=inner_async_body(B.root)):
            ups = [e for e in o.st.ev if e[0] == 'call' and e[1].endswith('::next') and 'SearchStream' in e[1]]
            if not ups or o.kind == 'div':
                continue
            r = ('await', ('call', ups[-1][1], ups[-1][2], ups[-1][3].get('id')))
            cls = step_class(o, r)
            if cls not in ('Err', 'untested'):
                continue
            may = 'failed' if cls == 'Err' else 'may have failed (the path does not know its result to be Ok)'
            if o.kind in ('ret', 'val'):
                ok = sem.reconstructs(o.val, r) and (cls == 'Err' or o.val == r) and (not sem.is_ok_result(o.val))
                n_err += ok
                ctx.add('Q8.adapter-passes-upstream-error', '%s|%s|returns' % (name, cls), loc(B.root), ok,
                        '%s::next returns %s on a path on which the upstream next() %s: an error of the inner stream (e.g. the Timeout of a timed search) '
                        'must reach the caller as that error, not as the end of the stream or an item' % (name, absx.fmt(o.val)[:50], may))
            else:
                ctx.fail('Q8.adapter-passes-upstream-error', '%s|%s|%s' % (name, cls, o.kind), loc(B.root),
                         '%s::next goes on (%s) on a path on which the upstream next() %s' % (name, o.kind, may))
        ctx.add('Q8.adapter-passes-upstream-error', name + '|coverage', loc(B.root), n_err >= 1, 'no path of %s::next on which an upstream error is returned' % name)
    ctx.floor('Q8', 'Adapter::next implementations of the crate', n_ad, 2)

def every_element_of(t, vec):
    """t iterates (or is a copy of) every element of the vector term `vec`, front to back: the vector itself, its iter() / into_iter()
    / iter().cloned() / .copied(), a clone / to_vec / as_slice of it, drain(..) over the full range.  (std: each of these yields
    all elements in order; none filters, reorders or stops early.)"""
    if t == vec:
        return True
    if t[0] == 'call' and t[2]:
        name = t[1].rsplit('::', 1)[-1]
        if name in ('iter', 'into_iter', 'iter_mut', 'cloned', 'copied', 'clone', 'to_vec', 'to_owned', 'as_slice', 'as_mut_slice') and len(t[2]) == 1:
            return every_element_of(t[2][0], vec)
        if name == 'drain' and len(t[2]) == 2 and t[2][1][0] == 'struct' and t[2][1][1].endswith('RangeFull'):
            return every_element_of(t[2][0], vec)
    return False

def stored_final_result(o):
    """(base, ctrls, other fields written) of the value X that `self.res` holds as Some(X) at the end of path o: base is the value
    X was taken from (X itself, or the `..base` of a struct-update expression), ctrls the term its control list has then, and
    the names of any other fields of it that the path has overwritten.  (None, None, []) if self.res is not Some(..)."""
    res = o.st.heap.get(('field', SELF, 'res'))
    if res is None or res[0] != 'ctor' or res[1] != 'Some' or len(res[2]) != 1:
        return None, None, []
    x = res[2][0]
    explicit = {}
    base = x
    while base is not None and base[0] == 'struct':
        for n, v in base[2]:
            explicit.setdefault(n, v)
        base = base[3]
    if base is None:
        return None, None, []
    written = {k[2]: v for k, v in o.st.heap.items() if k[0] == 'field' and k[1] == base}
    written.update(explicit)
    return base, written.get('ctrls'), sorted(n for n in written if n != 'ctrls')

def step_results_are_distinct(I, cal, args, node, st):
    """Interpreter summary: every call of the stream's stepping function yields a result of its own (the n-th call on a path is
    numbered n).  The plain call term is keyed by its call site, so in an unrolled receive loop the second iteration would
    'know' the outcome of the first; with this summary the iterations are told apart and the collected vector is exact."""
    if cal.endswith('::next') and 'SearchStream' in cal:
        n = len([e for e in st.ev if e[0] == 'call' and e[1] == cal])
        return [absx.Out('val', ('call', cal, tuple(args), ('step', n)), st.event(('call', cal, tuple(args), node)))]
    return None

def step_class(o, r):
    """What the path condition says about a Result<Option<_>> term: Err / OkNone / OkSome, or untested."""
    ok = absx.pc_variant(o.st.pc, lambda v: v == r, 'Ok')
    if ok is None:
        return 'untested'
    if ok is False:
        return 'Err'
    some = absx.pc_variant(o.st.pc, lambda v: v == ('variant', r, 'Ok', 0), 'Some')
    return 'Ok?' if some is None else ('OkSome' if some else 'OkNone')

def check_search(ctx, f, SR):
    """Ldap::search on its enumerated paths, the receive loop unrolled (at most three steps): the stream is the one obtained from
    streaming_search_with(EntriesOnly::new(), base, scope, filter, attrs); as long as next() yields Ok(Some(x)) the function
    goes on; on the first Err it returns that error; on the first Ok(None) it calls finish() once and returns
    Ok(SearchResult(v, finish-result)) where v is exactly the vector of the x's in the order they were received.  Nothing here
    depends on how the loop, the error propagation or the vector are spelled."""
    UNROLL = 3
    I = absx.Interp(f, SR, summaries=[step_results_are_distinct], unroll=UNROLL, combinators=True)
    outs = I.run(root=sem.entry(SR))
    here = loc(SR.root)
    params = tuple(('param', n) for n in ('base', 'scope', 'filter', 'attrs'))
    ended, n_err = set(), 0
    for o in outs:
        ssw = sem.calls(o, lambda c: c.endswith('Ldap::streaming_search_with'))
        oku = len(ssw) == 1 and len(ssw[0][2]) == 6 and ssw[0][2][0] == SELF and ssw[0][2][2:] == params \
            and ssw[0][2][1][0] == 'call' and ssw[0][2][1][1] == 'ldap3::adapters::EntriesOnly::new' and not ssw[0][2][1][2]
        ctx.add('Q4.search.uses-entries-only', SR.path, here, oku, 'search() is not streaming_search_with(EntriesOnly::new(), base, scope, filter, attrs)')
        if not oku:
            continue
        opened = ('await', ('call', ssw[0][1], ssw[0][2], ssw[0][3].get('id')))
        stream = ('variant', opened, 'Ok', 0)
        steps = sem.calls(o, lambda c: c.endswith('::next') and 'SearchStream' in c)
        fins = sem.calls(o, lambda c: c.endswith('::finish') and 'SearchStream' in c)
        pushes = sem.calls(o, lambda c: c.rsplit('::', 1)[-1] in ('push', 'insert', 'extend', 'append', 'push_back', 'push_front'))
        results = [('await', ('call', cal, args, ('step', k))) for k, (i, cal, args, node) in enumerate(steps)]
        classes = [step_class(o, r) for r in results]
        sig = ','.join(classes) or 'not opened'
        if [1 for i, cal, args, node in steps + fins if args[:1] != (stream,)]:
            ctx.fail('Q4.search.pushes-every-entry', sig, here, 'search() steps or finishes something other than the stream it opened')
            continue
        if o.kind == 'loop':
            # still receiving after UNROLL steps: every step so far yielded an entry and every entry was collected
            ctx.add('Q4.search.pushes-every-entry', sig + '|continues', here, classes == ['OkSome'] * len(classes) and len(pushes) == len(steps),
                    'search() goes on receiving after a step that did not yield an entry, or without collecting every entry (%d steps, %d collected)' % (len(steps), len(pushes)))
            continue
        if o.kind not in ('ret', 'val'):
            ctx.fail('Q4.search.pushes-every-entry', sig + '|' + o.kind, here, 'search() has a path ending in %s' % o.kind)
            continue
        v = o.val
        if not steps:
            # the search could not be opened: that error, nothing else
            ctx.add('Q4.search.returns-entries-and-final-result', 'not opened', here,
                    sem.failed(o, lambda x: x == opened) and sem.is_err_result(v) and sem.reconstructs(v, opened) and not fins,
                    'search() returns %s although the stream was not opened' % absx.fmt(v)[:80])
            continue
        if classes[:-1] != ['OkSome'] * (len(classes) - 1) or classes[-1] not in ('Err', 'OkNone'):
            ctx.fail('Q4.search.pushes-every-entry', sig, here,
                     'search() stops receiving (returns %s) although the last step was neither an error nor the end of the stream, or goes on after one' % absx.fmt(v)[:60])
            continue
        entries = tuple(('variant', ('variant', r, 'Ok', 0), 'Some', 0) for r in results[:-1])
        if classes[-1] == 'Err':
            n_err += 1
            ctx.add('Q4.search.returns-entries-and-final-result', sig, here, sem.is_err_result(v) and sem.reconstructs(v, results[-1]),
                    'an error of next() is not returned to the caller as it is: %s' % absx.fmt(v)[:80])
            continue
        ended.add(len(entries))
        okf = len(fins) == 1 and fins[0][0] > steps[-1][0]
        want = ('ctor', 'Ok', (('ctor', 'result::SearchResult', (('vec', entries), ('await', ('call', fins[0][1], fins[0][2], fins[0][3].get('id'))) if okf else None)),))
        okv = okf and v[0] == 'ctor' and v[1] == 'Ok' and len(v[2]) == 1 and v[2][0][0] == 'ctor' and len(v[2][0][2]) == 2
        ctx.add('Q4.search.pushes-every-entry', sig, here, okv and v[2][0][2][0] == ('vec', entries),
                'after %d entries search() does not return exactly those entries in the order received: %s' % (len(entries), absx.fmt(v[2][0][2][0] if okv else v)[:100]))
        ctx.add('Q4.search.returns-entries-and-final-result', sig, here, okf and v == want, 'search() does not return (collected entries, finish() result): %s' % absx.fmt(v)[:100])
    for k in range(UNROLL):
        ctx.add('Q4.search.pushes-every-entry', 'coverage|%d entries' % k, here, k in ended, 'no path of search() on which the stream ends after %d entries' % k)
    ctx.add('Q4.search.returns-entries-and-final-result', 'coverage|error', here, n_err >= 1, 'no path of search() on which next() fails')


def is_empty_vec(v):
    return v == ('vec', ()) or v[0] == 'default' or (v[0] == 'call' and v[1].rsplit('::', 1)[-1] in ('new', 'default', 'with_capacity') and 'Vec' in v[1])

def inner_async_body(root):
    """async_trait methods: fn body = Box::pin(async move { ... }); plain async fn: Closure at the root."""
    for n, c in walk(root):
        if n['k'] == 'Closure' and 'Coroutine' in n.get('closure_kind', ''):
            # rebinding prologue `let x = x;` is harmless for the interpreter
            return n['body']
    return root

def calls_of_nonstring(o):
    return [e for e in calls_of(o) if not e[1].startswith('<alloc::string::String as core::convert::From') and not e[1].endswith('Vec::<T>::new')]

def stale_results_left_by_adapters(ctx, f):
    """Adapter::next implementations of the crate with a path that stores a new receiver into the stream (a follow-up Search spliced
    in) while stream.res still holds what it held before"""
    out = []
    for p, h in f.hir.items():
        if not (p.startswith('<ldap3::adapters::') and ' as ldap3::adapters::Adapter<' in p and p.endswith('>::next')):
            continue
        B = hirq.Body(f, h)
        ctx.analysed['bodies'].add(p)
        root = inner_async_body(B.root)
        stream = ('param', 'stream')
        for o in absx.Interp(f, B, unroll=1, for_once=True, combinators=True).run(root=root):
            hp = o.st.heap
            # a path that starts a follow-up Search (whether it succeeds and is spliced in, or fails and the stream goes to Error)
            # or stores a new receiver: from here on the stored result is not the result of what the stream is doing
            follow_up = any(e[0] == 'call' and (e[1].endswith('::streaming_search') or e[1].endswith('::streaming_search_with')) for e in o.st.ev)
            if (follow_up or ('field', stream, 'rx') in hp) and hp.get(('field', stream, 'res')) != ('ctor', 'None', ()):
                out.append(p.split(' as ')[0].lstrip('<').split('<')[0].rsplit('::', 1)[-1] + '::next')
                break
    return sorted(set(out))

def struct_rc(v):
    if v[0] == 'struct':
        for n, x in v[2]:
            if n == 'rc' and x[0] == 'lit':
                return x[1]
    return None
