"""C12 - timeouts: wrap, scrub with the operation's own ID, keep serving, orphan the late reply."""
from facts import walk, callee_of, call_args, loc
import hirq, anchors, absx, sem

EXPLANATION = ("O1 in the operation issue point, when the handle's timeout is Some the reply wait is wrapped in tokio::time::timeout(that "
               "duration, the receiver paired with the registered reply sender); on the Err (elapsed) outcome an ID scrub is sent whose "
               "argument is the ID allocated for this very operation, and the Elapsed error is then propagated; without a timeout the bare "
               "receiver is awaited; O2 the same for every stream item (timer built inside the per-item call, duration copied from the "
               "handle at start, scrub of the stream's own operation ID); O3 the driver's scrub arm removes the ID from both routing maps "
               "and the in-use set and neither breaks nor returns; O6 on every exit of an issued operation the handle's timeout is None; O8 the ID the scrub releases is not handed out again at once: every allocation searches upwards from the connection-wide counter, never from per-handle state (C05 N2 / N4 / N8); O4 the late reply is discarded because the ID is then unrouted (C01 R5). "
               "Not decided: that the timer fires on time; arrival-time orderings (tokio's clock and scheduler).")
TRUSTED = ['tokio::time::timeout semantics', 'tokio scheduler']
UNDECIDED = ['that the timer fires at the deadline', 'all orderings of arrival vs deadline']
ASSUMPTIONS = []
SHARED = [('C01', ('R5.',), 'O4.late-reply-discarded'), ('C16', ('A2.splices-new-stream', 'A2.follow-up-handle'), 'O5.paged-follow-up-keeps-timeout-and-id'),
          # "an operation given a timeout returns a timeout error": the Timeout that next_inner raises for a silent peer has to get through
          # every adapter of the chain to the caller of next() / search() as that error - an adapter that answers Ok(None) (or goes on)
          # on a path on which its upstream next() failed turns the timeout into a regular end of the search
          ('C10', ('Q8.adapter-passes-upstream-error', 'Q4.entries-only.end-passthrough'), 'O7.timeout-error-passes-the-adapters'),
          # "the late response to the timed-out operation is discarded rather than delivered to anyone": the scrub un-routes and releases
          # the ID, so the late reply finds no owner - as long as the ID has no NEW owner yet.  That is the allocator's half of the clause:
          # an ID released by a timeout scrub must not be the next one issued merely because it is the lowest free one, i.e. allocation
          # is monotone over the connection - every search for a free ID starts from the counter shared by all handles (C05
          # N2.init-from-counter: not from per-handle state, which is 0 in every clone and every Search runs on one), and that counter
          # is left at the ID just claimed and at nothing else (N4.store-candidate, N8), so a released ID comes round again only
          # after the numbering has gone through the whole range
          ('C05', ('N2.init-from-counter', 'N4.store-candidate', 'N8.'), 'O8.released-id-not-reissued-at-once')]      # after the scrub the ID is routed nowhere: an unmatched frame must reach nobody

TIMEOUT = 'tokio::time::timeout::timeout'
SELF = ('param', 'self')

def check_timed_wait(ctx, what, B, outs, is_future, duration_src, scrub_arg_ok, scrub_desc):
    """Path-level specification of a timed reply wait (independent of how the function spells it):
       * every path waits at most once, on the reply future itself or on tokio::time::timeout(D, that future);
       * it is the timed form exactly on the paths where the duration source is Some, and D is its payload;
       * on a path where the timed wait came back Err (elapsed) an ID scrub is sent after the wait, with the ID of this very
         operation, and the path returns an error; on a path where it came back Ok no scrub is sent."""
    is_to = lambda t: t[0] == 'call' and t[1] == TIMEOUT and len(t[2]) == 2
    n_exp = n_ok = n_untimed = 0
    loc0 = loc(B.root)
    for o in outs:
        aws = [(i, t) for i, t, _n in sem.awaits(o) if is_future(t) or (t[0] == 'call' and 'time::' in t[1])]
        other_waits = [(i, t) for i, t, _n in sem.awaits(o) if not (is_future(t) or (t[0] == 'call' and 'time::' in t[1])) and sem.has(t, is_future)]
        if other_waits:
            ctx.fail('%s.future' % what, B.path, loc0, 'the reply future is awaited through %s, not directly or through tokio::time::timeout' % absx.fmt(other_waits[0][1])[:80])
        if not aws:
            continue
        ctx.add('%s.single-wait' % what, B.path + '|' + psig(o), loc0, len(aws) == 1, 'a path waits for the reply %d times' % len(aws))
        i_aw, t = aws[0]
        has_d = absx.pc_variant(o.st.pc, duration_src, 'Some')
        if is_to(t):
            d, fut = t[2]
            ctx.add('%s.timeout-wrap' % what, B.path + '|timed', loc0, has_d is True,
                    'the reply wait is timed on a path where the operation\'s timeout is not known to be set')
            ctx.add('%s.duration' % what, B.path, loc0, sem.payload_of(d, duration_src),
                    'the timeout duration %s is not the one set for this operation' % absx.fmt(d)[:80])
            ctx.add('%s.future' % what, B.path, loc0, is_future(fut), 'the wrapped future %s is not the reply wait of this operation' % absx.fmt(fut)[:80])
            aw_term = ('await', t)
            expired = sem.failed(o, lambda v: v == aw_term)
            fine = sem.succeeded(o, lambda v: v == aw_term)
            scrubs = [(i, args) for i, cal, args, node in sem.calls(o, lambda c: c.endswith('UnboundedSender::<T>::send'))
                      if sem.recv_ty(node) == anchors.T_SCRUB_SENDER]
            if expired:
                n_exp += 1
                after = [(i, a) for i, a in scrubs if i > i_aw]
                ctx.add('%s.scrub-on-expiry' % what, B.path + '|' + psig(o), loc0, len(after) >= 1,
                        'no ID scrub is sent when the timeout elapses: the routing entry and the ID leak and a late reply can be delivered')
                for i, a in after:
                    ctx.add('%s.scrub-own-id' % what, B.path, loc0, scrub_arg_ok(a[1], o),
                            scrub_desc(a[1]) if callable(scrub_desc) else 'the scrubbed ID %s is not %s' % (absx.fmt(a[1])[:60], scrub_desc))
                ctx.add('%s.elapsed-propagated' % what, B.path + '|' + psig(o), loc0, o.kind in ('ret', 'val') and sem.is_err_result(o.val),
                        'after the timeout elapsed the function returns %s instead of an error' % absx.fmt(o.val)[:60])
            elif fine:
                n_ok += 1
                ctx.add('%s.no-scrub-without-expiry' % what, B.path + '|' + psig(o), loc0, not scrubs, 'an ID scrub is sent although the reply arrived in time')
            else:
                ctx.fail('%s.awaited' % what, B.path + '|' + psig(o), loc0, 'the result of the timed wait is never tested: an elapsed timeout goes unnoticed')
        elif t[0] == 'call' and 'time::' in t[1]:
            ctx.fail('%s.timeout-wrap' % what, B.path, loc0, 'the reply wait is wrapped in %s, not in tokio::time::timeout(duration, future)' % t[1])
        else:
            n_untimed += 1
            ctx.add('%s.untimed-wait' % what, B.path + '|' + psig(o), loc0, has_d is False,
                    'the reply is awaited without a timeout on a path where the operation\'s timeout may be set')
    ctx.add('%s.timeout-wrap' % what, B.path + '|coverage', loc0, n_exp >= 1 and n_ok >= 1,
            'expected paths with the timed wait elapsing (%d) and completing (%d)' % (n_exp, n_ok))
    ctx.add('%s.untimed-wait' % what, B.path + '|coverage', loc0, n_untimed >= 1, 'no path awaits the reply without a timeout')

def psig(o):
    """A short, line-free signature of a path: the truth values of its tests on waits / sends."""
    bits = []
    for a, t in o.st.pc:
        if a[0] == 'is':
            s = absx.fmt(sem.strip_site(a[1]))
            tag = 'timeout' if 'timeout(' in s else 'send' if s.startswith('send(') else 'recv' if 'recv(' in s else 'rx' if 'channel()' in s else None
            if tag:
                bits.append('%s%s' % ('' if t else '!', tag + ('.' + a[2] if a[2] not in ('Ok', 'Some') else '')))
    return ','.join(bits)[:60] or 'plain'

def run(ctx):
    f = ctx.facts
    C = anchors.Conn(f)
    O = C.op_call
    ctx.analysed['bodies'].update([O.path, C.loop_path])

    # ---- O1
    # (the allocator is a `&mut self` method: what it leaves in the handle's own fields - `self.last_id = id` may live there as well
    # as in the issue point - is part of what the issue point reads afterwards, see sem.leaves_result_in_fields)
    outs, _I = sem.paths(f, O, result_combinators=True, summaries=[sem.leaves_result_in_fields(f, C.alloc_path, generic_loops=True, combinators=True)])
    ids = {sem.strip_site(('call', cal, args, None)) for o in outs for i, cal, args, node in sem.calls(o, lambda c: c == C.alloc_path)}
    ctx.add('O1.single-allocation', O.path, loc(O.root), len(ids) == 1, 'expected one ID allocation per operation')
    id_term = next(iter(ids)) if ids else None
    chan = lambda t: t[0] == 'call' and t[1] == 'tokio::sync::oneshot::channel'
    is_rx = lambda t: (t[0] == 'field' and t[2] == '1' and chan(t[1]))
    # the receiver must be the one paired with the sender put into the request tuple
    def paired(o):
        for i, cal, args, node in sem.calls(o, lambda c: c.endswith('UnboundedSender::<T>::send')):
            if sem.recv_ty(node) == anchors.T_REQ_SENDER and args[1][0] == 'tuple' and len(args[1][1]) == 5:
                tx = args[1][1][4]
                return tx[0] == 'field' and tx[2] == '0' and chan(tx[1])
        return False
    ctx.add('O1.reply-channel-pair', O.path, loc(O.root), all(paired(o) for o in outs if sem.awaits(o)),
            'the awaited receiver is not the one paired with the reply sender handed to the driver')
    timeout_field = lambda v: v == ('field', SELF, 'timeout') or sem.taken_from(v, lambda p: p == ('field', SELF, 'timeout'))
    check_timed_wait(ctx, 'O1', O, outs, is_rx, timeout_field,
                     lambda a, o: id_term is not None and sem.strip_site(a) == id_term,
                     lambda a: 'the scrubbed ID %s is not the ID allocated for this operation' % (
                         'is what `%s` leaves in %s, which is not on every path the ID it returns: it' % (a[1].rsplit('::', 1)[-1], absx.fmt(a[2])[:40]) if a[0] == 'left-by'
                         else absx.fmt(a)[:60]) + ': the driver releases and un-routes whatever ID that is (a stale `last_id` names the handle\'s previous operation - on a stream\'s handle the running Search, still outstanding), while this operation\'s own ID and routing entry stay behind and its late reply is still delivered')

    # ---- O6 the timeout is one operation's: on every path that handed the request to the driver and leaves the issue point - the
    # reply arrived, the reply channel closed, or the timeout elapsed - the handle's timeout is None at the exit (taken, or reset on
    # that very path).  Otherwise a duration that has fired stays armed and cuts short the next, untimed operation on the handle.
    # (A path whose hand-over failed is not asked: the driver is gone and every later operation fails at the same send.)
    T_PLACE = ('field', SELF, 'timeout')
    n_iss = 0
    for o in outs:
        if o.kind not in ('val', 'ret'):
            continue
        req_sites = {node.get('id') for i, cal, args, node in sem.calls(o, lambda c: c.endswith('UnboundedSender::<T>::send')) if sem.recv_ty(node) == anchors.T_REQ_SENDER}
        handed = [t for a, t in o.st.pc if a[0] == 'is' and a[2] == 'Ok' and a[1][0] == 'call' and a[1][3] in req_sites]
        if handed != [True]:
            continue
        n_iss += 1
        left = o.st.heap.get(T_PLACE)
        if left is None and absx.pc_variant(o.st.pc, lambda v: v == T_PLACE, 'Some') is False:
            left = ('ctor', 'None', ())         # never written on this path, and the path found it unset
        elapsed = any(t[0] == 'call' and t[1] == TIMEOUT and sem.failed(o, lambda v, t=t: v == ('await', t)) for i, t, _n in sem.awaits(o))
        how = 'the timeout elapsed' if elapsed else 'the operation failed' if sem.is_err_result(o.val) else 'the reply arrived'
        ctx.add('O6.timeout-applies-to-one-operation', O.path + '|' + psig(o) + '|' + how.split()[-1], loc(O.root), left == ('ctor', 'None', ()),
                'on a path of an issued operation (%s) the handle\'s timeout is left %s: it stays armed for the next operation on the handle, which was given none'
                % (how, 'as it was' if left is None else 'set to ' + absx.fmt(left)[:40]))
    ctx.floor('O6', 'exits of an issued operation', n_iss, 3)

    # ---- O2
    nxt =anchors.one('SearchStream::next_inner', [h for p, h in f.hir.items() if p.startswith('ldap3::search::SearchStream') and p.endswith('::next_inner')])
    N = hirq.Body(f, nxt)
    ctx.analysed['bodies'].add(N.path)
    nouts, _I = sem.paths(f, N, result_combinators=True)
    def is_recv(t):
        return t[0] == 'call' and t[1].startswith('tokio::sync::mpsc::') and t[1].endswith('Receiver::<T>::recv') and len(t[2]) == 1 and sem.has(t[2][0], lambda x: x == ('field', SELF, 'rx'))
    import streamid
    SID = streamid.StreamSearchId(f)
    check_timed_wait(ctx, 'O2', N, nouts, is_recv, lambda v: v == ('field', SELF, 'timeout'),
                     lambda a, o: SID.accepts(a), lambda a: SID.why_not(a))
    # the per-item duration persists: nothing in the per-item call writes or takes the stream's timeout
    touched = [1 for o in nouts for i, place, val, node in sem.stores(o, lambda p: p == ('field', SELF, 'timeout'))]
    ctx.add('O2.duration', N.path + '|persists', loc(N.root), not touched, 'the per-item call consumes or overwrites the stream\'s timeout: later items are not timed')
    st = anchors.one('SearchStream::start_inner', [h for p, h in f.hir.items() if p.startswith('ldap3::search::SearchStream') and p.endswith('::start_inner')])
    S = hirq.Body(f, st)
    ctx.analysed['bodies'].add(S.path)
    cp = [n for n, c in walk(S.root) if n['k'] == 'Assign' and S.origin(n['l']) == (('param', 'self'), (('field', 'timeout'),))]
    ctx.add('O2.duration-copied-at-start', S.path, loc(S.root),
            len(cp) == 1 and S.origin(cp[0]['r']) == (('param', 'self'), (('field', 'ldap'), ('field', 'timeout'))),
            'the stream\'s per-item timeout is not copied from the handle\'s timeout when the search starts')
    # the search is issued on the stream's own handle, whose last_id the scrub reads
    oc = [n for n, c in walk(S.root) if n['k'] == 'MethodCall' and callee_of(n) == C.op_call_path]
    ctx.add('O2.search-issued-on-own-handle', S.path, loc(S.root),
            len(oc) == 1 and S.origin(oc[0]['recv']) == (('param', 'self'), (('field', 'ldap'),)),
            'the search is not issued on the stream\'s own handle, so last_id is not the search\'s ID')

    # ---- O3 scrub arm keeps serving; decided on the enumerated paths of the arm (what an expanded helper leaves behind - a branch
    # that cannot be taken, an early `return` of the helper turned into the end of its block - is read as what it does)
    import driver as drv
    L = C.loop
    scrub = C.arms['scrub']
    souts = [o for o in drv.arm_paths(C, 'scrub')[0] if o.kind != 'div']
    leaving = [o for o in souts if o.kind in ('brk', 'ret')]
    ctx.add('O3.scrub-arm-keeps-serving', L.path, loc(scrub['body']), bool(souts) and not leaving, 'the scrub arm leaves the driver loop: a timeout would end the connection')
    SCRUBBED = ('variant', drv.ARM, 'Some', 0)
    n_rm = 0
    for o in souts:
        if absx.pc_variant(o.st.pc, lambda v: v == drv.ARM, 'Some') is not True:
            continue
        removed = {}
        for w in ('result', 'search', 'idset'):
            for i, name, args, node in drv.map_calls(C, o, w, ('remove', 'remove_entry', 'clear', 'drain')):
                n_rm += 1
                k = args[1] if len(args) > 1 else None
                removed.setdefault(w, []).append(k)
                ctx.add('O3.scrub-key', w, loc(node), k == SCRUBBED, 'the scrub arm removes an ID other than the scrubbed one (%s)' % (absx.fmt(k)[:50] if k else 'everything'))
        for w in ('result', 'search', 'idset'):
            ctx.add('O3.scrub-complete', w, loc(scrub['body']), SCRUBBED in removed.get(w, []),
                    'a path of the scrub arm does not remove the scrubbed ID from the %s: the late reply would still be delivered / the ID would stay reserved' % {'result': 'result routing map', 'search': 'search routing map', 'idset': 'in-use set'}[w])
    ctx.floor('O3', 'removals in the scrub arm', n_rm, 3)
