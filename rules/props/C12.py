"""C12 - timeouts: wrap, scrub with the operation's own ID, keep serving, orphan the late reply."""
from facts import walk, callee_of, call_args, loc
import hirq, anchors

EXPLANATION = ("O1 in the operation issue point, when the handle's timeout is Some the reply wait is wrapped in tokio::time::timeout(that "
               "duration, the receiver paired with the registered reply sender); on the Err (elapsed) outcome an ID scrub is sent whose "
               "argument is the ID allocated for this very operation, and the Elapsed error is then propagated; without a timeout the bare "
               "receiver is awaited; O2 the same for every stream item (timer built inside the per-item call, duration copied from the "
               "handle at start, scrub of the stream's own operation ID); O3 the driver's scrub arm removes the ID from both routing maps "
               "and the in-use set and neither breaks nor returns; O4 the late reply is discarded because the ID is then unrouted (C01 R5). "
               "Not decided: that the timer fires on time; arrival-time orderings (tokio's clock and scheduler).")
TRUSTED = ['tokio::time::timeout semantics', 'tokio scheduler']
UNDECIDED = ['that the timer fires at the deadline', 'all orderings of arrival vs deadline']
ASSUMPTIONS = []

def timeout_sites(B):
    out = []
    for n, c in walk(B.root):
        if n['k'] == 'Call' and (callee_of(n) or '') == 'tokio::time::timeout::timeout':
            out.append((n, c))
    return out

def check_timed_wait(ctx, f, B, what, scrub_ok, duration_ok, future_ok):
    sites = timeout_sites(B)
    ctx.add('%s.timeout-wrap' % what, B.path, loc(B.root), len(sites) == 1, 'expected exactly one tokio::time::timeout wrap, found %d' % len(sites))
    for n, c in sites:
        ctx.add('%s.duration' % what, B.path, loc(n), duration_ok(B.origin(n['args'][0])),
                'the timeout duration %s is not the one set for this operation' % hirq.fmt_origin(B.origin(n['args'][0])))
        ctx.add('%s.future' % what, B.path, loc(n), future_ok(n['args'][1]), 'the wrapped future is not the reply wait of this operation')
        # the awaited result
        aw = None
        for a, role in reversed(c):
            if a['k'] == 'Await':
                aw = a
                break
        ctx.add('%s.awaited' % what, B.path, loc(n), aw is not None, 'the timeout future is not awaited')
        if aw is None:
            continue
        # binding that holds the result
        resb = None
        for b, d in B.defs.items():
            if d.get('src') is aw and not d['proj']:
                resb = b
        if resb is None:
            ctx.fail('%s.result-binding' % what, B.path, loc(n), 'the timeout result is not bound to a variable that is then tested')
            continue
        # scrub under is_err
        sends = [(s, sc) for s, sc in walk(B.root) if s['k'] == 'MethodCall' and s['name'] == 'send'
                 and hirq.strip_refs(s['recv'].get('ty', '')) == anchors.T_SCRUB_SENDER]
        good = []
        for s, sc in sends:
            under = False
            for cd in hirq.conditions(sc):
                if cd[0] == 'if' and cd[2] == 'then':
                    cn = cd[1]['cond']
                    if cn['k'] == 'MethodCall' and cn['name'] == 'is_err' and hirq.local_of(cn['recv']) == resb:
                        under = True
                if cd[0] == 'arm':
                    m = cd[1]
                    if hirq.local_of(m['scrut']) == resb and hirq.pat_variant(m['arms'][cd[2]]['pat']) == 'Err':
                        under = True
            if under:
                good.append(s)
        ctx.add('%s.scrub-on-expiry' % what, B.path, loc(n), len(good) >= 1, 'no ID scrub is sent when the timeout elapses: the routing entry and the ID leak and a late reply can be delivered')
        for s in good:
            ctx.add('%s.scrub-own-id' % what, B.path, loc(s), scrub_ok(B, s),
                    'the scrubbed ID %s is not the ID of the timed-out operation' % hirq.fmt_origin(B.origin(s['args'][0])))
        # the error is propagated: Try on the result binding after the scrub
        tries = [t for t, tc in walk(B.root) if t['k'] == 'Try' and hirq.local_of(t['e']) == resb]
        ctx.add('%s.elapsed-propagated' % what, B.path, loc(n), bool(tries) and all(B.before(s, t) for s in good for t in tries),
                'the Elapsed error is not returned to the caller after the scrub')

def run(ctx):
    f = ctx.facts
    C = anchors.Conn(f)
    O = C.op_call
    ctx.analysed['bodies'].update([O.path, C.loop_path])

    # ---- O1
    alloc_calls = [n for n, c in walk(O.root) if n['k'] in ('Call', 'MethodCall') and callee_of(n) == C.alloc_path]
    o_id = O.origin(alloc_calls[0]) if len(alloc_calls) == 1 else None
    ctx.add('O1.single-allocation', O.path, loc(O.root), o_id is not None, 'expected one ID allocation per operation')
    stores = [n for n, c in walk(O.root) if n['k'] == 'Assign' and hirq.peel_refs(n['l'])['k'] == 'Field' and hirq.peel_refs(n['l'])['name'] == 'last_id']
    def scrub_ok(B, s):
        o = B.origin(s['args'][0])
        if o == o_id:
            return True
        if o[1] and o[1][-1] == ('field', 'last_id') and o[0] == ('param', 'self'):
            return len(stores) == 1 and B.origin(stores[0]['r']) == o_id and B.before(stores[0], s)
        return False
    def duration_ok(o):
        # Some(payload) of take() on the handle's own timeout field
        r, p = o
        if r[0] == 'call' and r[1].endswith('Option::<T>::take') and p == (('variant', 'Some', 0),):
            n = O.by_id.get(r[2])
            ro = O.origin(n['recv']) if n else None
            return ro == (('param', 'self'), (('field', 'timeout'),))
        return False
    chans = [n for n, c in walk(O.root) if n['k'] == 'Call' and (callee_of(n) or '') == 'tokio::sync::oneshot::channel']
    def future_ok(e):
        o = O.origin(e)
        return len(chans) == 1 and o[0][0] == 'call' and o[0][2] == chans[0].get('id') and o[1] == (('tup', 1),)
    check_timed_wait(ctx, f, O, 'O1', scrub_ok, duration_ok, future_ok)
    # without a timeout the bare receiver is awaited
    bare = [n for n, c in walk(O.root) if n['k'] == 'Await' and future_ok(n['e'])]
    ctx.add('O1.untimed-wait', O.path, loc(O.root), len(bare) == 1, 'the untimed path does not await the reply receiver directly')

    # ---- O2
    nxt = anchors.one('SearchStream::next_inner', [h for p, h in f.hir.items() if p.startswith('ldap3::search::SearchStream') and p.endswith('::next_inner')])
    N = hirq.Body(f, nxt)
    ctx.analysed['bodies'].add(N.path)
    def scrub2(B, s):
        o = B.origin(s['args'][0])
        return o == (('param', 'self'), (('field', 'ldap'), ('field', 'last_id')))
    def dur2(o):
        return o == (('param', 'self'), (('field', 'timeout'), ('variant', 'Some', 0)))
    def fut2(e):
        e = hirq.peel_refs(e)
        if e['k'] == 'MethodCall' and (callee_of(e) or '').endswith('UnboundedReceiver::<T>::recv'):
            return hirq.strip_refs(e['recv'].get('ty', '')) == anchors.T_ITEM_RECEIVER and N.roots(N.origin(e['recv'])) == {('param', 'self')}
        return False
    check_timed_wait(ctx, f, N, 'O2', scrub2, dur2, fut2)
    st = anchors.one('SearchStream::start_inner', [h for p, h in f.hir.items() if p.startswith('ldap3::search::SearchStream') and p.endswith('::start_inner')])
    S = hirq.Body(f, st)
    ctx.analysed['bodies'].add(S.path)
    cp = [n for n, c in walk(S.root) if n['k'] == 'Assign' and S.origin(n['l']) == (('param', 'self'), (('field', 'timeout'),))]
    ctx.add('O2.duration-copied-at-start', S.path, loc(S.root),
            len(cp) == 1 and S.origin(cp[0]['r']) == (('param', 'self'), (('field', 'ldap'), ('field', 'timeout'))),
            'the stream\'s per-item timeout is not copied from the handle\'s timeout when the search starts')
    # the search is issued on the stream's own handle, whose last_id the scrub reads
    oc = [n for n, c in walk(S.root) if n['k'] == 'MethodCall' and callee_of(n) == C.op_call_path]
    ctx.add('O2.search-issued-on-own-handle', S.path, loc(S.root),
            len(oc) == 1 and S.origin(oc[0]['recv']) == (('param', 'self'), (('field', 'ldap'),)),
            'the search is not issued on the stream\'s own handle, so last_id is not the search\'s ID')

    # ---- O3 scrub arm keeps serving
    L = C.loop
    scrub = C.arms['scrub']
    bad = [n for n, c in walk(scrub['body']) if n['k'] in ('Break', 'Ret')]
    ctx.add('O3.scrub-arm-keeps-serving', L.path, loc(scrub['body']), not bad, 'the scrub arm leaves the driver loop: a timeout would end the connection')
    o_s = hirq.project(L.origin_of_bind(scrub['bindings'][0][0]), ('variant', 'Some', 0))
    n_rm = 0
    for n, c in walk(scrub['body']):
        if n['k'] == 'MethodCall' and n['name'] == 'remove' and (C.is_map_place(n['recv'], 'result') or C.is_map_place(n['recv'], 'search') or C.is_idset_place(n['recv'])):
            n_rm += 1
            ctx.add('O3.scrub-key', n['recv'].get('name', '?'), loc(n), hirq.strip_casts(L.origin(n['args'][0])) == o_s, 'the scrub arm removes an ID other than the scrubbed one')
    ctx.floor('O3', 'removals in the scrub arm', n_rm, 3)
