"""C13 - completed operations leave nothing behind."""
from facts import walk, callee_of, call_args, loc
import hirq, anchors, absx, sem, driver

EXPLANATION = ("K1 pairing: every removal of a routing entry in the driver loop (result delivered, search done / receiver gone, scrub, "
               "abandon) is followed, on every enumerated path of its arm and before the arm is left by any exit (falling out, continue, break, return), by the release of the same message ID from the in-use set - unless the same sender is put back; K2 the "
               "Abandon request's own, never-answered ID is released in its arm; K3 Abandon: request [APPLICATION 16] INTEGER msgid and "
               "LdapOp::Abandon(msgid) carry the same parameter, and on every path of the request arm an Abandon can take - also one that leaves the arm before the kind of operation is looked at - the request is written to the transport and both routing entries of that ID are dropped (which fails the "
               "waiting caller); K4 every routing map has a removal site for each terminal event class (response, scrub, abandon); "
               "K10 on every path of the request arm that serves an Abandon the reply sender (and, for a Search, the item sender) found in a routing map under the abandoned ID is dropped - nothing is sent on it, directly or through a helper, and it is handed to nothing that could keep it alive - so the caller still waiting on that operation gets an error (the only delivery on such a path is the acknowledgement on the request's own reply sender); "
               "K6 a stream finished before its end scrubs its own ID; K9 an operation that cannot be handed to the driver (the request send fails: the connection has ended) releases, on every such path of the issue point, the ID it reserved. Not decided: quiescence over arbitrary histories as a runtime "
               "fact; futures dropped mid-flight.")
TRUSTED = ['HashMap/HashSet remove semantics', 'dropping a oneshot::Sender fails its receiver']
UNDECIDED = ['quiescence over arbitrary histories (reachability of the running system)', 'operation futures dropped mid-flight (no Drop-based release exists)']
ASSUMPTIONS = []
SHARED = [('C12', ('O1.scrub', 'O2.scrub', 'O3.'), 'K7.timeout-releases'), ('C16', ('A2.splices-new-stream',), 'K8.scrub-names-the-running-search')]      # a timed-out operation is one of the ways an operation ends: its expiry must scrub its ID and routing entry, and the scrub arm must release all three

HARMLESS_TO_A_SENDER = ('is_closed',)      # `Sender::is_closed(&self)` only reads the channel's state

def what_the_waiter_sees(f, w, msg):
    """What the caller still waiting on the abandoned operation gets when the driver sends `msg` on its channel (for the message of
    the violation only: the violation is the send).  A Null element is what the driver acknowledges locally concluded requests with;
    what the operation's caller makes of it is read off the result conversion (`From<Tag>` for the result type of ldap3::result),
    evaluated on a Null: the result code it yields."""
    first = msg[1][0] if msg and msg[0] == 'tuple' and msg[1] else msg
    if w == 'search':
        what = absx.fmt(sem.strip_site(first))[:50]
        return ('the stream of the abandoned Search yields an item the server never sent (%s) instead of ending with an error' % what)
    if first and first[0] == 'ctor' and first[1].endswith('Tag::Null'):
        rc = None
        conv = [p for p in f.hir if p.startswith('<ldap3::result::') and p.endswith(' as core::convert::From<lber::structures::Tag>>::from')]
        rcs, via = set(), None
        for cp in conv:     # (the other conversions delegate to the one that takes the element apart)
            try:
                B = hirq.Body(f, f.hir[cp])
                I = absx.Interp(f, B, result_combinators=True)
                outs = [o for o in I.run(root=sem.entry(B), env={b: first for b in I.param_env()}) if o.kind in ('val', 'ret')]
                got = {x[1] for o in outs for s_ in absx.leaves(o.val, lambda x: x[0] == 'struct' and x[1].endswith('LdapResult')) for k, x in s_[2] if k == 'rc' and x[0] == 'lit'}
                if got and len(outs) == 1:
                    rcs |= got
                    via = cp
            except Exception:
                pass        # only the wording of the message depends on it
        rc = rcs.pop() if len(rcs) == 1 else None
        if rc is not None:
            return ('the caller still waiting on the abandoned operation receives the driver\'s own Null acknowledgement, which the result conversion (%s) turns into LdapResult { rc: %s }: %s for an operation the server never answered, instead of an error'
                    % (via.split(' as ')[0].lstrip('<').rsplit('::', 1)[-1] + '::from', rc, 'Ok with result code 0 (success)' if rc == 0 else 'a made-up result'))
        return 'the caller still waiting on the abandoned operation receives the driver\'s own Null acknowledgement as if it were the server\'s response, instead of an error'
    return 'the caller still waiting on the abandoned operation receives a response the server never sent, instead of an error'

def run(ctx):
    f = ctx.facts
    C = anchors.Conn(f)
    L = C.loop
    ctx.analysed['bodies'].add(C.loop_path)
    releases = anchors.method_calls(L.root, 'HashSet::<T, S, A>::remove', C.is_idset_place)
    unroutes = [(n, c, w) for w in ('result', 'search')
                for n, c in anchors.method_calls(L.root, 'HashMap::<K, V, S, A>::remove', lambda r, w=w: C.is_map_place(r, w))]
    ctx.floor('K1', 'routing-entry removals in the driver loop', len(unroutes), 6)
    arm_of = {}
    for role, a in C.arms.items():
        if isinstance(a, dict):
            for n, c in walk(a['body']):
                arm_of[id(n)] = role
    # K1 is a path rule: an arm's path is one way through it from the select! binding to whichever exit it takes - falling out of
    # the arm, `continue`, `break` (the loop ends: in one-operation mode the connection is handed back and lives on) or `return`.
    # On every path that takes a routing entry out (and does not put the same sender back under the same key - taken out only to be
    # used), that message ID is released on the same path, i.e. before the arm is left by that exit.  A release that merely stands
    # further down in the same branch does not count when a `break` lies between the two.
    _paths = {}
    def paths_of(role):
        if role not in _paths:
            _paths[role] = [o for o in driver.arm_paths(C, role)[0] if o.kind != 'div']
        return _paths[role]
    EXIT = {'val': 'falling out of the arm', 'cont': '`continue`', 'brk': '`break`', 'ret': '`return`', 'loop': 'an inner loop'}
    for u, uc, w in unroutes:
        key = hirq.strip_casts(L.origin(u['args'][0]))
        role = arm_of.get(id(u))
        ok, how = False, 'outside the select! arms, where its paths are not enumerated'
        if role in C.arms and isinstance(C.arms[role], dict):
            pouts = [o for o in paths_of(role) if any(e[0] == 'call' and e[3] is u for e in o.st.ev)]
            def path_ok(o):
                for ev in [e for e in o.st.ev if e[0] == 'call' and e[3] is u]:
                    k = ev[2][1]
                    rterm = ('call', ev[1], ev[2], u.get('id'))
                    if sem.failed(o, lambda v: v == rterm):
                        continue            # nothing was registered under the key: nothing was removed
                    if driver.net_registration(C, o, w, k) == 'kept':
                        continue
                    if not any(args[1] == k for i, name, args, node in driver.map_calls(C, o, 'idset', ('remove',))):
                        return False
                return True
            bad = [o for o in pouts if not path_ok(o)]
            ok = bool(pouts) and not bad
            how = 'on a path that leaves the arm by %s' % ' / '.join(sorted({EXIT.get(o.kind, o.kind) for o in bad})) if bad else 'on no enumerated path of its arm (the removal was not reached by the analysis)'
        ctx.add('K1.unroute-implies-release', '%s|%s|%s' % (arm_of.get(id(u), '?'), w, hirq.fmt_origin(key)[-40:]), loc(u), ok,
                'the routing entry for %s is removed from the %s map %s without releasing that message ID: it stays reserved forever' % (hirq.fmt_origin(key), w, how))

    # K2 / K3 abandon arm
    req = C.arms['request']
    o_req = hirq.project(L.origin_of_bind(req['bindings'][0][0]), ('variant', 'Some', 0))
    own_id = hirq.project(o_req, ('tup', 0))
    ab_payload = hirq.project(hirq.project(o_req, ('tup', 1)), ('variant', 'LdapOp::Abandon', 0))
    def in_abandon(n):
        return any(c[0] == 'arm' and hirq.pat_variant(c[1]['arms'][c[2]]['pat']) == 'LdapOp::Abandon' for c in hirq.conditions(L.context(n)))
    ab_rel = [r for r, rc in releases if in_abandon(r)]
    hir_k2 = any(hirq.strip_casts(L.origin(r['args'][0])) == own_id for r in ab_rel)
    hir_k3 = any(hirq.strip_casts(L.origin(r['args'][0])) == ab_payload for r in ab_rel)
    # (decided below on the enumerated paths of the arm, where a release spelled differently - e.g. one `retain` that rejects both
    # IDs - is read as the removals it amounts to; the syntactic reading above is kept as the quick answer when it applies)
    # K2 / K3 on the enumerated paths of the request arm: on every path an Abandon request can take (see below) the request is
    # written to the socket, its own ID (which the server never answers) is released, both routing entries of the abandoned ID are
    # dropped, and the abandoned ID is released at least when one of those entries existed
    REQ = ('variant', driver.ARM, 'Some', 0)
    OWN, OP = ('field', REQ, '0'), ('field', REQ, '1')
    PAY = ('variant', OP, 'LdapOp::Abandon', 0)
    TX = ('field', REQ, '4')        # the reply sender that came with the request: the component of the request tuple (anchors.T_REQ_TUPLE, by which
                                    # the request channel is anchored - another tuple type is anchor-missing) that has the reply sender's type
    aouts, _I = driver.arm_paths(C, 'request')
    n_ab = n_k10 = 0
    # Which paths: every path of the arm that took a request from the channel and on which that request can be an Abandon - the path
    # condition says so, or does not say otherwise (a path that leaves the arm before it has looked at the kind of operation is a
    # path an Abandon takes as well: Abandon's effect must not depend on anything else the arm may test first, such as whether
    # anyone still listens on the request's own reply channel) - and that goes on serving: falling out of the arm, `continue`,
    # `break`, `return Ok`.  Not asked: paths on which the driver ends with an error (a failed socket write): every routing entry,
    # sender and ID goes with the connection.
    OPS = ('LdapOp::Single', 'LdapOp::Search', 'LdapOp::Abandon', 'LdapOp::Unbind')
    EXIT = {'val': 'falling out of the arm', 'cont': '`continue`', 'brk': '`break`', 'ret': '`return`', 'loop': 'an inner loop'}
    for o in aouts:
        if o.kind == 'div' or absx.pc_variant(o.st.pc, lambda v: v == driver.ARM, 'Some') is not True:
            continue
        if o.kind == 'ret' and sem.is_err_result(o.val):
            continue
        is_ab = sem.variant_truth(o.st.pc, lambda v: v == OP, 'LdapOp::Abandon', OPS)
        if is_ab is False:
            continue
        n_ab += 1
        rel = [args[1] for i, name, args, node in driver.map_calls(C, o, 'idset', ('remove',))]
        un_r = [(args[1], node) for i, name, args, node in driver.map_calls(C, o, 'result', ('remove',))]
        un_s = [(args[1], node) for i, name, args, node in driver.map_calls(C, o, 'search', ('remove',))]
        sig = ','.join(('' if t else '!') + absx.fmt(a)[-30:] for a, t in o.st.pc if a[0] == 'is' and sem.has(a[1], lambda x: x[0] == 'call' and x[1].endswith('::remove')))
        if is_ab is None:
            sig = (sig + '|' if sig else '') + 'kind of operation not looked at'
        early = '' if is_ab else ' (the path leaves the arm by %s before it has looked at the kind of operation, so an Abandon takes it too)' % EXIT.get(o.kind, o.kind)
        # the AbandonRequest goes out: this request's own (ID, request, controls) is written to the transport, the write is awaited
        # and the path is not the one on which it failed
        wires = [(i, ('call', cal, tuple(args), node.get('id'))) for i, cal, args, node in sem.calls(o, lambda c: c.rsplit('::', 1)[-1] == 'send')
                 if 'Framed<' in sem.recv_ty(node) and len(args) == 2 and args[1] == ('tuple', (OWN, ('field', REQ, '2'), ('field', REQ, '3')))]
        written = any(any(t == w for _j, t, _n in sem.awaits(o)) and not sem.failed(o, lambda v, w=w: v == ('await', w)) for _i, w in wires)
        ctx.add('K3.abandon-request-written', 'paths|' + (sig or 'plain'), loc(req['body']), written,
                'a path of the request arm that an Abandon takes does not write the request to the transport: the server never learns that the operation was abandoned%s' % early)
        ctx.add('K2.abandon-own-id-released', 'abandon arm|' + (sig or 'plain'), loc(req['body']), OWN in rel,
                'a path of the Abandon arm does not release the Abandon request\'s own message ID (never answered by the server): it stays reserved forever' + early)
        ctx.add('K3.abandon-unroutes', 'paths|' + (sig or 'plain'), loc(req['body']), any(k == PAY for k, n in un_r) and any(k == PAY for k, n in un_s),
                'a path of the Abandon arm does not remove both routing entries of the abandoned ID (a waiting caller would never be released)' + early)
        had_entry = any(sem.succeeded(o, lambda v, n=n: sem.has(v, lambda x: x[0] == 'call' and x[3] == n.get('id'))) for k, n in un_r + un_s)
        untested = not any(sem.tested(o, lambda v, n=n: sem.has(v, lambda x: x[0] == 'call' and x[3] == n.get('id'))) for k, n in un_r + un_s)
        if (had_entry or untested) and is_ab is True:
            ctx.add('K3.abandoned-id-released', 'paths|' + (sig or 'plain'), loc(req['body']), PAY in rel,
                    'the abandoned operation\'s message ID is not released on a path where its routing entry was dropped' + early)
        # K10 "Abandon ... releases a caller still waiting on that operation with an error": the abandoned operation's reply channel
        # is closed, not written to.  On a path that serves an Abandon the only delivery on a reply / item sender is the
        # acknowledgement on the sender that came with the request itself; the sender found in a routing map under the abandoned ID is
        # dropped without a send (dropping a oneshot::Sender fails its receiver with RecvError; dropping the last item sender ends the
        # stream with an error) and is not handed on to anything that could keep it alive.  Read off the path's delivery events, so
        # a send spelled directly, through a helper (expanded by the fact loader) or as `let _ = w.send(..)` is the same event.
        if is_ab is True:
            n_k10 += 1
            for w, T in (('result', anchors.T_RESULT_SENDER), ('search', anchors.T_ITEM_SENDER)):
                found = [(j, name, term) for j, ww, name, term, fnd in driver.routing_lookups(C, o, PAY) if ww == w and fnd is not False]
                from_abandoned = lambda t, found=found: any(sem.has(t, lambda x, term=term: x == term) for _j, _n, term in found)
                sent = [(i, args, node) for i, args, node in driver.sends(o, T) if args[0] != TX]    # TX: the acknowledgement of the Abandon request itself (C04 L5 decides that one)
                msgs = []
                for i, args, node in sent:
                    whose = 'the abandoned operation\'s' if from_abandoned(args[0]) else 'another operation\'s (%s)' % absx.fmt(sem.strip_site(args[0]))[:60]
                    msgs.append('sends %s on %s %s instead of dropping it: %s'
                                % (absx.fmt(sem.strip_site(args[1]))[:70], whose, 'reply sender (taken from the result map under the abandoned ID)' if w == 'result' else 'item sender (found in the search map under the abandoned ID)',
                                   what_the_waiter_sees(f, w, args[1])))
                ctx.add('K10.abandoned-waiter-gets-an-error', 'paths|%s|%s' % (sig or 'plain', w), loc(sent[0][2]) if sent else loc(req['body']), not sent,
                        'a path of the request arm that serves an Abandon ' + '; '.join(msgs))
                # ... and it is dropped here: the sender taken out of the map flows nowhere else (a map, a field, another function)
                for j, name, term in found:
                    sender = ('variant', term, 'Some', 0)
                    kept = []
                    for i, cal, args, node in sem.calls(o, lambda c: True):
                        if i <= j or not any(sem.has(a, lambda x: x == sender) for a in args):
                            continue
                        if driver.hands_over(node, T) or cal.rsplit('::', 1)[-1] in HARMLESS_TO_A_SENDER or cal == 'core::mem::drop':
                            continue
                        kept.append(cal)
                    kept += ['a store into %s' % absx.fmt(p)[:40] for i, p, v, node in sem.stores(o) if i > j and sem.has(v, lambda x: x == sender)]
                    ctx.add('K10.abandoned-waiter-gets-an-error', 'paths|%s|%s|dropped' % (sig or 'plain', w), loc(req['body']), not kept,
                            'a path of the request arm that serves an Abandon hands the abandoned operation\'s %s sender on (%s) instead of dropping it: while it is alive the caller still waiting on that operation is not released'
                            % ('reply' if w == 'result' else 'item', ', '.join(kept)[:120]))
    ctx.floor('K2', 'Abandon paths of the request arm', n_ab, 1)
    ctx.floor('K10', 'paths of the request arm that serve an Abandon', n_k10, 1)
    path_k2 = n_ab > 0 and all(o.ok for o in ctx.obls if o.rule == 'K2.abandon-own-id-released')
    path_k3 = n_ab > 0 and all(o.ok for o in ctx.obls if o.rule == 'K3.abandoned-id-released') and any(o.rule == 'K3.abandoned-id-released' for o in ctx.obls)
    ctx.add('K2.abandon-own-id-released', 'abandon arm', loc(req['body']), hir_k2 or path_k2,
            'the Abandon request\'s own message ID (never answered by the server) is not released')
    ctx.add('K3.abandoned-id-released', 'abandon arm', loc(req['body']), hir_k3 or path_k3,
            'the abandoned operation\'s message ID is not released')
    for w in ('result', 'search'):
        ok = any(in_abandon(u) and ww == w and hirq.strip_casts(L.origin(u['args'][0])) == ab_payload for u, uc, ww in unroutes)
        ctx.add('K3.abandon-unroutes', w, loc(req['body']), ok,
                'the Abandon arm does not remove the %s routing entry of the abandoned ID (a waiting caller would never be released)' % w)
    # Ldap::abandon
    ab = f.hir.get('ldap3::ldap::Ldap::abandon')
    if ab is None:
        ctx.fail('anchor-missing', 'Ldap::abandon', '', 'public method Ldap::abandon not found')
    else:
        B = hirq.Body(f, ab)
        ctx.analysed['bodies'].add(B.path)
        ok_shape = False
        for n, c in walk(B.root):
            if n['k'] == 'Struct' and hirq.short_def(n.get('def', '')) == 'integer::Integer':
                fl = {x['name']: x['e'] for x in n['fields']}
                if 'id' in fl and 'class' in fl and 'inner' in fl:
                    ok_shape = hirq.const_eval(f, fl['id']) == 16 and hirq.short_def(fl['class'].get('ctor_of') or fl['class'].get('def', '')) == 'TagClass::Application' \
                        and hirq.strip_casts(B.origin(fl['inner'])) == (('param', 'msgid'), ())
        ctx.add('K3.abandon-request-shape', B.path, loc(B.root), ok_shape, 'AbandonRequest is not [APPLICATION 16] INTEGER <msgid parameter>')
        ok_op = False
        for n, c in walk(B.root):
            if n['k'] == 'Call' and n['f'].get('k') == 'Path' and hirq.short_def(n['f'].get('ctor_of') or '') == 'LdapOp::Abandon':
                ok_op = B.origin(n['args'][0]) == (('param', 'msgid'), ())
        ctx.add('K3.abandon-op-payload', B.path, loc(B.root), ok_op, 'LdapOp::Abandon does not carry the msgid parameter')

    # K4 removal site per terminal event class, read from the enumerated paths of each arm (a `remove`, or a `retain` that amounts to
    # removals, whatever the spelling): every way an operation can end has a path that takes its routing entry out
    import driver as drv
    arm_outs = {role: drv.arm_paths(C, role)[0] for role in ('response', 'scrub', 'request')}
    for w in ('result', 'search'):
        for role in ('response', 'scrub', 'request'):
            ok = any(drv.map_calls(C, o, w, names=('remove', 'remove_entry')) for o in arm_outs[role])
            ctx.add('K4.removal-site', '%s|%s' % (w, role), loc(C.arms[role]['body']), ok,
                    'no removal from the %s routing map in the %s arm' % (w, role))
    # scrub arm: on every path that received an ID, all three removals name that ID
    SCRUBBED = ('variant', drv.ARM, 'Some', 0)
    n_scrub = 0
    for o in arm_outs['scrub']:
        if absx.pc_variant(o.st.pc, lambda v: v == drv.ARM, 'Some') is not True:
            continue
        n_scrub += 1
        for what, which in (('result', 'result'), ('search', 'search'), ('in-use set', 'idset')):
            keys = [sem.strip_site(args[1]) for i_, name, args, node in drv.map_calls(C, o, which, names=('remove', 'remove_entry')) if len(args) > 1]
            ctx.add('K4.scrub-removes', what, loc(C.arms['scrub']['body']), SCRUBBED in keys,
                    'the scrub arm has a path that does not remove the scrubbed ID from the %s (removed: %s)' % (what, [absx.fmt(k)[:30] for k in keys]))
    ctx.floor('K4', 'scrub arm paths that received an ID', n_scrub, 1)

    # K6 early finish scrubs
    fin = [h for p, h in f.hir.items() if p.startswith('ldap3::search::SearchStream') and p.endswith('::finish_inner')]
    fin = anchors.one('SearchStream::finish_inner', fin)
    B = hirq.Body(f, fin)
    ctx.analysed['bodies'].add(B.path)
    # Decided on the enumerated paths of finish_inner, started once in every state of the stream: from every state in which a search
    # may be outstanding (Active, Error - not Done: the server has said that the search is over) each path that completes has sent the stream's own message ID
    # (`self.<handle>.last_id`) into the scrub channel.  How the state is tested (`!=`, `matches!`, a `match`) is immaterial: the
    # start state is a constructor, so every such test is decided.
    SELF = ('param', 'self')
    enum = f.items.get('ldap3::search::StreamState')
    states = [hirq.short_def(v['path']) for v in (enum or {}).get('variants', [])]
    if 'StreamState::Done' not in states:
        ctx.fail('anchor-missing', 'StreamState', '', 'the stream state enum with a Done variant was not found')
    def is_scrub_send(node):
        ty = node['recv'].get('ty', '') if node.get('k') == 'MethodCall' else (node['args'][0].get('ty', '') if node.get('k') == 'Call' and node.get('args') else '')
        return hirq.strip_refs(ty) == anchors.T_SCRUB_SENDER
    import streamid
    SID = streamid.StreamSearchId(f)
    own_id = SID.accepts
    for sname in states:
        if sname in ('StreamState::Done', 'StreamState::Closed', 'StreamState::Fresh'):
            # Closed: the stream has been finished before (and scrubbed then, by this rule); Fresh: no search was issued, no ID is
            # reserved for it.  Nothing is claimed for either.
            continue
        I = absx.Interp(f, B, combinators=True)
        outs = [o for o in I.run(root=sem.entry(B), heap={('field', SELF, 'state'): ('ctor', sname, ())}) if o.kind in ('val', 'ret')]
        ctx.floor('K6', 'completing paths of finish_inner from %s' % sname, len(outs), 1)
        for o in outs:
            scrubbed = [args[1] for i, cal, args, node in sem.calls(o, lambda c: c.endswith('UnboundedSender::<T>::send')) if is_scrub_send(node) and len(args) == 2]
            ctx.add('K6.early-finish-scrubs', '%s|%s' % (B.path, sname.split('::')[-1]), loc(B.root), any(own_id(a) for a in scrubbed),
                    'finish() of a stream that is not Done (state %s) has a path that does not scrub the stream\'s message ID (scrubbed: %s)%s'
                    % (sname.split('::')[-1], [absx.fmt(a)[:40] for a in scrubbed], ('; ' + SID.why_not(scrubbed[0])) if scrubbed else ''))

    # K9 an operation that is never handed to the driver releases the ID reserved for it: in the issue point (op_call) every path on
    # which the request send fails - the driver is gone, nobody will ever see or scrub this ID - removes the allocated ID from the
    # in-use set before returning; otherwise the shared set grows by one entry per call made on a dead connection
    O = hirq.Body(f, f.hir[C.op_call_path])
    ctx.analysed['bodies'].add(C.op_call_path)
    oouts, _I = sem.paths(f, O, result_combinators=True)
    n_unsent = 0
    for o in oouts:
        if o.kind not in ('val', 'ret'):
            continue
        allocs = [sem.strip_site(('call', cal, args, None)) for i, cal, args, node in sem.calls(o, lambda c: c == C.alloc_path)]
        sends = [(i, node) for i, cal, args, node in sem.calls(o, lambda c: c.endswith('UnboundedSender::<T>::send')) if sem.recv_ty(node) == anchors.T_REQ_SENDER]
        if not allocs or not sends:
            continue
        sid = sends[0][1].get('id')
        if not sem.failed(o, lambda v: sem.has(v, lambda x: x[0] == 'call' and x[3] == sid)):
            continue
        n_unsent += 1
        released = [sem.strip_site(args[1]) for i, cal, args, node in sem.calls(o, lambda c: c.endswith('HashSet::<T, S, A>::remove') or c.endswith('HashSet::<T, S>::remove')) if len(args) > 1]
        ctx.add('K9.unsent-operation-releases-its-id', C.op_call_path, loc(O.root), allocs[0] in released,
                'when the request cannot be handed to the driver (the connection has ended) the operation returns an error but leaves the message ID it reserved in the in-use set '
                '(released on this path: %s): every call made on a dead connection adds one entry that nothing ever removes' % ([absx.fmt(r)[:30] for r in released] or 'nothing'))
    ctx.floor('K9', 'paths of the issue point on which the request send fails', n_unsent, 1)
