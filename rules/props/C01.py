"""C01 - responses are routed to the operation whose message ID they carry."""
from facts import walk, callee_of, call_args, loc
import hirq, anchors, absx, sem, driver

EXPLANATION = ("R1 the envelope decoder interpreted exactly on element trees (rules/envelope.py: the TLV parser's answer fixed to one tree at a time - a well-formed LDAPMessage "
               "without / with an empty / with one / two / any controls, any protocolOp, and its single-field mutations): a well-formed envelope is delivered under exactly the number its first "
               "child denotes as an INTEGER within 0 .. maxInt (for any content: the unsigned reader's value of all of its octets, narrowed to the 32-bit RequestId only after a range "
               "test or by a checked conversion), with its second child as the operation and what parse_controls makes of its trailing [0] constructed child; anything else reaches nobody; "
               "on every success path of the decoder the message is (id, (Tag::StructureTag(op), controls)); R2 on the enumerated paths of the driver's response arm every routing-map access and ID release is keyed by the ID decoded from that "
               "very response; R3 every reply send in that arm (a delivery call by role: a call on a reply / item sender that is handed a message of the channel's type) goes to the sender obtained by that lookup and carries only data of the "
               "same decoded message; R4 the protocolOp classification table equals RFC 4511 (4,25 -> Entry; 19 -> Referral; 5 -> Done, "
               "only Done ends the search); R5 on every path of the response arm a reply send, a registration or an ID release comes after a lookup of the decoded ID that found an operation (a message nobody waits for reaches nobody and changes nothing); R6 registration keys/values "
               "in the request arm; R7 the request tuple carries the allocated ID and the reply channel that is awaited; R8 only the driver "
               "loop and the constructor touch the routing maps; R9 a single task forwards items in decode order (no spawn, FIFO channel types).")
TRUSTED = ['tokio mpsc/oneshot channels are FIFO and single-consumer', 'tokio_util Framed calls the decoder on the bytes in order']
UNDECIDED = ['channel and Framed FIFO behaviour (trusted)']
ASSUMPTIONS = []
SHARED = [('C07', ('B2.reader', 'B7.'), 'R14.framing'), ('C06', ('G1.', 'G2.'), 'R14.framing'), ('C05', ('N1.', 'N2.', 'N3.', 'N4.', 'N5.', 'N8.'), 'R11.ids-unique'), ('C02', ('S13.',), 'R12.id-on-the-wire'), ('C10', ('Q4.entries-only.start', 'Q4.entries-only.collects', 'Q4.entries-only.finish'), 'R13.referrals-of-this-search'),
          ('C12', ('O1.scrub-own-id', 'O2.scrub-own-id', 'O3.scrub-key'), 'R15.timeout-disturbs-no-other-operation'),
          ('C17', ('W3.',), 'R16.no-response-from-before-the-tls-upgrade'),
          # C01's clauses "a response whose ID matches no outstanding operation ... does not disturb any other operation" and "each
          # operation sees its responses (the one sent under its own ID)": the one-operation driver (the StartTLS exchange) stops
          # reading and hands the connection back as soon as it believes its operation was answered.  When that belief is set by a
          # message nobody waits for (an unsolicited notification, a response under an unknown ID), that unmatched message ends the
          # exchange: the StartTLS operation never receives the response the server then sends under its own ID.  C04 L6 decides, by
          # induction over the enumerated paths of the select! arms, that the flag which lets the driver hand the connection back
          # becomes true only where a reply was sent on the sender taken out of the result map under the decoded ID
          ('C04', ('L6.',), 'R17.unmatched-response-does-not-end-the-pending-exchange')]      # routing by ID presupposes that concurrent operations never share an ID and that the ID of an operation the client gave up is not handed out again while its late reply may still arrive (numbering only advances); an expired timeout makes the driver forget exactly the timed-out operation: the scrub names that operation's own ID (not whatever the handle issued before it, which may be a running search) and the scrub arm removes nothing else; R16 stands for "a response whose ID matches no outstanding operation is delivered to nobody" across the StartTLS upgrade: the driver that runs over the protected transport decodes only what arrives through it - the rebuilt Framed starts with an empty read buffer, so a message the peer appended in cleartext to the StartTLS response (while no operation with its ID existed) is not kept and handed to the first operation that later takes that ID

RFC4511_SEARCH_RESP = {4: 'SearchItem::Entry', 25: 'SearchItem::Entry', 19: 'SearchItem::Referral', 5: 'SearchItem::Done'}

def decoder_bodies(f):
    """Bodies reachable from <LdapCodec as Decoder>::decode that call lber::Parser::parse."""
    out = []
    for path, h in f.hir.items():
        if (path.startswith('ldap3::') or path.startswith('<ldap3::')) and any((callee_of(n) or '') == 'lber::parse::Parser::parse' for n, c in walk(h['body']) if n['k'] == 'MethodCall'):
            out.append(path)
    return out

def run(ctx):
    f = ctx.facts
    C = anchors.Conn(f)
    L = C.loop
    ctx.analysed['bodies'].update([C.loop_path, C.op_call_path])

    # ------------------------------------------------------------------ R1 id extraction
    decs = decoder_bodies(f)
    ctx.add('R1.decoder', 'frame decoder bodies', '', len(decs) == 1, 'expected one envelope decoder, found %s' % decs)
    import envelope
    for dp in decs:
        ctx.analysed['bodies'].add(dp)
        B = hirq.Body(f, f.hir[dp])
        # R1.envelope-path, for every input at once (the decoder interpreted with the parser's answer left symbolic): whatever the
        # decoder delivers is a triple (ID, (Tag::StructureTag(operation), controls)) - the driver's response arm takes it apart as
        # such, and its arm for any other Tag variant panics (reviewed as infeasible in C11's cone on this ground)
        outs = absx.Interp(f, B, combinators=True).run()
        succ = []
        for o in outs:
            if o.kind in ('val', 'ret'):
                v = o.val
                if v[0] == 'ctor' and v[1] == 'Ok' and v[2] and v[2][0][0] == 'ctor' and v[2][0][1] == 'Some':
                    succ.append((o, v[2][0][2][0]))
        ctx.floor('R1', 'decoder success paths', len(succ), 2)
        for o, msg in succ:
            ok, why = check_envelope_path(o, msg)
            ctx.add('R1.envelope-path', dp + '|' + path_sig(o), loc(B.root), ok, why)
        # Which child of the envelope becomes the ID, which the operation and which the controls, what is and what is not an
        # envelope, and how the content octets of the messageID element become the RequestId are decided by exact interpretation of
        # the decoder on element trees (rules/envelope.py): the parser's answer fixed to one tree at a time - a well-formed
        # LDAPMessage and its single-field mutations, with generic leaves where the decoder must not care (any protocolOp, any
        # control list, any ID content).  A tree is delivered under exactly the number its first child denotes as a
        # two's-complement INTEGER within 0 .. maxInt, with its second child as the operation; anything else is delivered to nobody.
        #   R1.envelope-tree          the shapes: (id, op), (id, op, controls) for no / one / two controls / any control list, any operation
        #   R1.message-id-exact       the ID's content octets: 0, 1, 127 | 128 ..; the sign octet; 2^31 - 1 | 2^31; wider than the
        #                             reader's 64 bits; none at all (an ID read modulo 2^64 or 2^32, or a negative one read unsigned, is
        #                             delivered to the operation whose ID the truncated number happens to be); and, for any content, the
        #                             number is the unsigned reader's value of all of it, narrowed only under a range test
        #   R1.malformed-envelope-reaches-nobody   the mutations (an element in front of the ID, a second INTEGER, ID and operation
        #                             swapped, a primitive / second / misplaced controls element, ...): no operation is handed a message
        #                             whose ID is not where RFC 4511 puts it
        envelope.check(ctx, f, dp, {'good': 'R1.envelope-tree', 'tolerated': 'R1.envelope-tree', 'bad': 'R1.malformed-envelope-reaches-nobody', 'id': 'R1.message-id-exact',
                                    'generic-id': 'R1.message-id-exact'})

    # ------------------------------------------------------------------ response arm
    resp = C.arms['response']
    rbody = resp['body']
    # R2 / R3 (target, origin of the payload) are path rules: every routing-map access, ID release and reply send of the response arm
    # is judged on the enumerated paths of the arm on which it occurs, by the *terms* the interpreter has for its key / receiver /
    # message - the ID is ('field', MSG, '0') of the message the arm was entered with, however the arm's pattern and the handler
    # take the answer of `stream.next()` apart (`resp => match resp { Some(Ok(r)) => .. }`, `Some(resp) = .. => match resp { Ok(r) .. }`,
    # `let Some(resp) = resp else { break }`).  A site of the arm that lies on no enumerated path must be in a branch the interpreter
    # decided is never taken; otherwise it was not looked at and the rule fails closed.
    def plain(t):
        """a term with integer casts between ID types and references taken off"""
        while isinstance(t, tuple) and t and t[0] == 'cast':
            t = t[1]
        return t
    r2_outs, r2_I = driver.arm_paths(C, 'response')
    n_access = 0
    acc = {}        # id(node) -> (node, which, [(path, event index, method, args)])
    for n, c in walk(rbody):
        if n['k'] != 'MethodCall':
            continue
        for which in ('result', 'search'):
            if C.is_map_place(n['recv'], which):
                n_access += 1
                acc[id(n)] = (n, which, [])
        if C.is_idset_place(n['recv']) and n['args']:
            acc[id(n)] = (n, 'idset', [])
    for o in r2_outs:
        for which in ('result', 'search', 'idset'):
            for i, name, args, node in driver.map_calls(C, o, which):
                if id(node) in acc:
                    acc[id(node)][2].append((o, i, name, args))
    for n, which, occ in acc.values():
        m = n['name']
        inst = ('idset|' + m) if which == 'idset' else '%s|%s' % (which, m)
        rule = 'R2.release-is-decoded-id' if which == 'idset' else 'R2.key-is-decoded-id'
        if not occ:
            ctx.add(rule, inst, loc(n), driver.never_taken(L, r2_I, n), 'a routing-map access / ID release of the response arm lies on no enumerated path of the arm: it was not analysed')
            continue
        if which != 'idset' and any(len(args) < 2 for o, i, name, args in occ):
            ctx.fail('R2.map-method', inst, loc(n), 'routing map used without a key in the response arm')
            continue
        keys = {plain(args[1]) for o, i, name, args in occ if len(args) > 1}
        bad = sorted(absx.fmt(k)[:60] for k in keys if k != driver.DECODED_ID)
        if which == 'idset':
            ctx.add(rule, inst, loc(n), not bad, 'ID %s released in the response arm is not the decoded one' % ', '.join(bad))
            continue
        ctx.add(rule, inst, loc(n), not bad,
                'routing map `%s` accessed with key %s, not the ID decoded from this response' % (which, ', '.join(bad)))
        okm = m in ('get', 'remove', 'get_mut', 'contains_key', 'remove_entry')
        if m == 'insert' and not bad:
            # putting back, under the decoded ID, the sender that was taken out under it: in sum the path leaves the entry as it was
            okm = all(driver.net_registration(C, o, which, driver.DECODED_ID) == 'kept' for o, i, name, args in occ)
        ctx.add('R2.map-method', inst, loc(n), okm, 'unexpected routing-map method `%s` in the response arm' % m)
    ctx.floor('R2', 'routing-map accesses in the response arm', n_access, 2)

    # R3 sends: the delivery calls of the arm, by role (a call on a reply / item sender that is handed a message of the channel's
    # type - driver.hands_over -, whatever the channel flavour calls it)
    sends = {}
    for n, c in walk(rbody):
        for rt, want in ((anchors.T_RESULT_SENDER, 'result'), (anchors.T_ITEM_SENDER, 'search')):
            if driver.hands_over(n, rt):
                sends[id(n)] = (n, want, [])
    ctx.floor('R3', 'reply sends in the response arm', len(sends), 2)
    for o in r2_outs:
        for rt, want in ((anchors.T_RESULT_SENDER, 'result'), (anchors.T_ITEM_SENDER, 'search')):
            to_registered = {id(node) for i, node in driver.replies_to_registered(C, o, driver.DECODED_ID, want)}
            for i, args, node in driver.sends(o, rt):
                if id(node) in sends:
                    foreign = absx.leaves(args[1], lambda x: x[0] in ('param', 'unbound', 'unk', 'fresh') and x != driver.ARM)
                    sends[id(node)][2].append((id(node) in to_registered, args[0], foreign))
    for n, want, occ in sends.values():
        if not occ:
            ctx.add('R3.target-is-lookup-result', want, loc(n), driver.never_taken(L, r2_I, n), 'a reply send of the response arm lies on no enumerated path of the arm: it was not analysed')
            continue
        badt = [absx.fmt(t)[:70] for ok, t, fo in occ if not ok]
        ctx.add('R3.target-is-lookup-result', want, loc(n), not badt,
                'reply is sent on %s, which is not the sender found under the decoded ID in the %s map' % (badt[0] if badt else '', want))
        badp = sorted({absx.fmt(x)[:40] for ok, t, fo in occ for x in fo})
        ctx.add('R3.payload-from-same-message', want, loc(n), not badp,
                'reply payload contains data not originating in the decoded message: %s' % badp)

    # R3 on the enumerated paths of the response arm: what is handed to a waiting operation is the decoded message itself - the
    # protocolOp it carried and the control list it carried, the latter as decoded (not a list that an earlier statement of the
    # arm has emptied, replaced or filtered).  For an entry / referral / intermediate item and for a single-result reply the
    # control list is the vector sent next to the item (the stream resp. op_call hand that vector on: C10 Q2, C03 T2).  The
    # controls of a SearchResultDone have two carriers - `ctrls` of the LdapResult inside SearchItem::Done and the vector next to
    # it - which SearchStream::next_inner combines into the result finish() returns: there the obligation is on the composition
    # (rules/donectrls.py): what the caller finds in LdapResult::ctrls is exactly the decoded list, once.
    import donectrls
    MSG, M_TAG, M_CTRLS = donectrls.MSG, donectrls.M_TAG, donectrls.M_CTRLS
    done_pairs = {}
    for R_, S_, node in donectrls.driver_pairs(C):
        done_pairs.setdefault(node.get('id'), []).append((R_, S_))
    transfers = None
    n_pl = n_done = 0
    for o in driver.arm_paths(C, 'response')[0]:
        for T, want in ((anchors.T_ITEM_SENDER, 'search'), (anchors.T_RESULT_SENDER, 'result')):
            for i, args, node in driver.sends(o, T):
                n_pl += 1
                pl = args[1]
                parts = pl[1] if pl[0] == 'tuple' and len(pl[1]) == 2 else None
                is_done = want == 'search' and parts is not None and parts[0][0] == 'ctor' and parts[0][1] == 'SearchItem::Done'
                if is_done:
                    n_done += 1
                    if transfers is None:
                        from props import C10
                        N = hirq.Body(f, C10.stream_body(f, 'next_inner'))
                        ctx.analysed['bodies'].add(N.path)
                        # (a path of next_inner that ends the stream without storing a final result is C10 Q2's finding, not a statement
                        # about controls: the composition is decided on the paths that do store one - at least one, or fail closed)
                        transfers = [t for t in donectrls.stream_transfers(f, N, [x for x in C10.run_from(f, N, 'Active') if x.kind in ('val', 'ret')], C10.stored_final_result) if t[1]]
                    bad = [(R_, S_, T_) for R_, S_ in done_pairs.get(node.get('id'), []) for T_, okst, _o in transfers if donectrls.compose(T_, R_, S_) != donectrls.EXACT]
                    ok_c = bool(done_pairs.get(node.get('id'))) and bool(transfers) and not bad
                    why = 'the final result of the search cannot be followed from this send to SearchStream::next_inner'
                    if bad:
                        R_, S_, T_ = bad[0]
                        why = ('the caller of finish() finds LdapResult::ctrls = %s, not exactly the control list decoded from this message: the driver sends '
                               'the SearchResultDone with result.ctrls = %s and, next to it, %s; SearchStream::next_inner stores %s' % (
                                   donectrls.show(donectrls.compose(T_, R_, S_)), donectrls.show(R_), donectrls.show(S_), donectrls.show(T_)))
                    ctx.add('R3.controls-are-the-decoded-ones', want, loc(node), ok_c, why)
                else:
                    ok_c = parts is not None and donectrls.norm(parts[1], {M_CTRLS: 'D'}) == donectrls.EXACT
                    ctx.add('R3.controls-are-the-decoded-ones', want, loc(node), ok_c,
                            'the control list handed to the waiting %s is %s, not the control list decoded from this message' % (
                                'search' if want == 'search' else 'operation', absx.fmt(parts[1])[:80] if parts else absx.fmt(pl)[:80]))
                if parts is not None:
                    op = parts[0]
                    ok_t = (op == M_TAG) if want == 'result' else (sem.has(op, lambda x: x == M_TAG) and not sem.has(op, lambda x: x == M_CTRLS or x[0] in ('default', 'unk')))
                    ctx.add('R3.protocol-op-is-the-decoded-one', want, loc(node), ok_t,
                            'the response handed to the waiting %s is %s, not the protocolOp decoded from this message' % (want, absx.fmt(op)[:80]))
    ctx.floor('R3', 'sends of a SearchResultDone on the enumerated paths of the response arm (composition with the stream decided)', n_done, 1)
    ctx.floor('R3', 'reply sends on the enumerated paths of the response arm', n_pl, 4)

    # R4 classification table, decided by evaluating the response arm once per protocolOp number (finite partition: every number
    # the code compares with, and a representative of the rest); what is read off is what the arm *does* for that number - which
    # SearchItem it forwards to the search's channel and whether it ends the search's routing - not how the table is written
    msg = ('variant', ('variant', driver.ARM, 'Some', 0), 'Ok', 0)
    def id_hook_for(n):
        def hook(base, name, st):
            if name == 'id' and sem.has(base, lambda x: x == driver.ARM) and sem.has(base, lambda x: x[0] == 'variant' and x[2] == 'Tag::StructureTag'):
                return ('lit', n)
            return None
        return hook
    consts = set()
    for n, c in walk(rbody):
        if n['k'] in ('Lit',) and isinstance(n.get('v'), int) and not isinstance(n.get('v'), bool) and 0 <= n['v'] < 64:
            consts.add(n['v'])
        if n['k'] == 'Match':
            for a in n['arms']:
                ls = hirq.pat_lits(a['pat'])
                for v in (ls or ()):
                    if isinstance(v, int) and 0 <= v < 64:
                        consts.add(v)
    for cpath in {x.get('def') for x, _ in walk(rbody) if x.get('k') == 'Path' and str(x.get('defkind', '')).startswith('Const')} | \
                 {a['pat']['e'].get('def') for n, c in walk(rbody) if n['k'] == 'Match' for a in n['arms'] if a['pat'].get('k') == 'PExpr' and str(a['pat']['e'].get('defkind', '')).startswith('Const')}:
        v = hirq.const_eval(f, {'k': 'Path', 'res': 'def', 'defkind': 'Const', 'def': cpath}) if cpath else None
        if isinstance(v, int) and 0 <= v < 64:
            consts.add(v)
    domain = sorted(consts | set(RFC4511_SEARCH_RESP) | {0, 1, 6, 30})
    ctx.floor('R4', 'protocolOp numbers evaluated', len(domain), 6)
    for v in domain:
        outs, _I = driver.arm_paths(C, 'response', field_hook=id_hook_for(v))
        items, ends, delivered = set(), set(), 0
        for o in outs:
            # paths on which the decoded ID belongs to an active search and the consumer is alive
            snd = driver.sends(o, anchors.T_ITEM_SENDER)
            for i, args, node in snd:
                pl = args[1]
                kind = pl[1][0][1] if pl[0] == 'tuple' and pl[1] and pl[1][0][0] == 'ctor' else absx.fmt(pl)[:40]
                items.add(kind)
                sid = node.get('id')
                if sem.succeeded(o, lambda x: sem.has(x, lambda y: y[0] == 'call' and y[3] == sid)) or not sem.tested(o, lambda x: sem.has(x, lambda y: y[0] == 'call' and y[3] == sid)):
                    delivered += 1
                    ends.add(driver.net_registration(C, o, 'search', ('field', MSG, '0')) != 'kept')
        exp = RFC4511_SEARCH_RESP.get(v)
        if exp is None:
            ctx.add('R4.entry', 'op %d' % v, loc(rbody), not items,
                    'protocolOp %d under a search ID is forwarded as %s; RFC 4511 defines no search response with that number' % (v, sorted(items)))
            # ... and such a message leaves the search as it was: still routed (its later items must still reach it), its ID still reserved
            touched = [o for o in outs if o.kind != 'div' and (driver.net_registration(C, o, 'search', ('field', MSG, '0')) != 'kept' or driver.map_calls(C, o, 'idset', ('remove',)))]
            stray = [o for o in touched if any(t and a[0] == 'is' and a[2] == 'Some' and a[1][0] == 'call' and 'HashMap' in a[1][1] and a[1][2] and driver.norm_self(a[1][2][0]) == ('field', driver.SELF, C.searchmap) for a, t in o.st.pc)]
            ctx.add('R4.stray-message-leaves-the-search-alone', 'op %d' % v, loc(rbody), not stray,
                    'a message with protocolOp %d (no search response) under the ID of a running search un-routes the search or releases its ID: the search\'s remaining items are then delivered to nobody' % v)
        else:
            ok = items == {exp} and ends == {exp == 'SearchItem::Done'}
            ctx.add('R4.entry', 'op %d' % v, loc(rbody), ok,
                    'protocolOp %d is forwarded as %s and ends the search: %s; RFC 4511 says %s, ends the search: %s' % (v, sorted(items), sorted(ends), exp, exp == 'SearchItem::Done'))

    # R5 a message nobody waits for is delivered to nobody and changes nothing.  A path rule over the enumerated paths of the response
    # arm: wherever a path sends a reply, registers something in a routing map or touches the in-use set (a release), a lookup of the
    # ID decoded from this very message has answered Some earlier on that path - an operation is registered under it.  Where the
    # statement stands does not matter: inside the `Some` arm of the lookup, or after a `match` / `let .. else` / `if` whose `None`
    # alternative left the arm by `continue` are the same paths.  (Which sender the reply goes to, and under which key the release
    # is made, are R3.target-is-lookup-result and R2.release-is-decoded-id.)  Every such site of the arm must lie on an enumerated
    # path, or in a branch the interpreter decided is never taken; otherwise it was not looked at and the rule fails closed.
    r5_sites = {}
    for n, c in walk(rbody):
        if n['k'] == 'MethodCall':
            rt = hirq.strip_refs(n['recv'].get('ty', ''))
            if driver.hands_over(n, anchors.T_RESULT_SENDER) or driver.hands_over(n, anchors.T_ITEM_SENDER) or (n['name'] == 'insert' and rt in (anchors.T_RESULTMAP, anchors.T_SEARCHMAP)) or C.is_idset_place(n['recv']):
                r5_sites[id(n)] = (n, [])
    r5_outs, r5_I = driver.arm_paths(C, 'response')
    for o in r5_outs:
        evs = [(i, node) for T in (anchors.T_RESULT_SENDER, anchors.T_ITEM_SENDER) for i, args, node in driver.sends(o, T)]
        evs += [(i, node) for w in ('result', 'search') for i, name, args, node in driver.map_calls(C, o, w, ('insert',))]
        evs += [(i, node) for i, name, args, node in driver.map_calls(C, o, 'idset')]
        for i, node in evs:
            if id(node) not in r5_sites:
                r5_sites[id(node)] = (node, [])
            r5_sites[id(node)][1].append(driver.found_before(C, o, i, driver.DECODED_ID))
    ctx.floor('R5', 'reply sends / registrations / ID releases of the response arm', len(r5_sites), 3)
    for n, verdicts in r5_sites.values():
        if not verdicts:
            ctx.add('R5.only-under-successful-lookup', n.get('name') or n['k'], loc(n), driver.never_taken(L, r5_I, n),
                    'a send / registration / release in the response arm lies on no enumerated path of the arm: it was not analysed')
            continue
        ctx.add('R5.only-under-successful-lookup', n.get('name') or n['k'], loc(n), all(verdicts),
                'a send / registration / release happens on a path of the response arm on which no lookup of the decoded ID has found a registered operation: '
                'a message nobody waits for is delivered to somebody, or changes routing / ID state')

    # ------------------------------------------------------------------ R10 an abandoned operation is unrouted
    # (responses the server still sends under the abandoned ID are then unmatched and, by R5, delivered to nobody)
    REQ = ('variant', driver.ARM, 'Some', 0)
    OPT = ('field', REQ, '1')
    PAY = ('variant', OPT, 'LdapOp::Abandon', 0)
    n_ab = 0
    for o in driver.arm_paths(C, 'request')[0]:
        if o.kind not in ('val', 'cont', 'brk') or absx.pc_variant(o.st.pc, lambda v: v == OPT, 'LdapOp::Abandon') is not True:
            continue
        n_ab += 1
        for w in ('result', 'search'):
            keys = [args[1] for i, name, args, node in driver.map_calls(C, o, w, ('remove',))]
            ctx.add('R10.abandoned-operation-unrouted', w, loc(C.arms['request']['body']), PAY in keys,
                    'the Abandon arm does not remove the %s routing entry of the abandoned ID: later responses under that ID are still delivered to the abandoned operation' % w)
    ctx.floor('R10', 'Abandon paths of the request arm', n_ab, 1)

    # ------------------------------------------------------------------ R6 registration (request arm)
    req = C.arms['request']
    o_req = hirq.project(L.origin_of_bind(req['bindings'][0][0]), ('variant', 'Some', 0))
    comp = lambda i: hirq.project(o_req, ('tup', i))
    ins = [(n, c, w) for w in ('result', 'search') for n, c in anchors.method_calls(req['body'], 'HashMap::<K, V, S, A>::insert', lambda r, w=w: C.is_map_place(r, w))]
    ctx.floor('R6', 'routing registrations', len(ins), 2)
    for n, c, w in ins:
        k = L.origin(n['args'][0])
        ctx.add('R6.key', w, loc(n), k == comp(0), 'registration key %s is not the request tuple\'s ID' % hirq.fmt_origin(k))
        v = L.origin(n['args'][1])
        if w == 'result':
            ctx.add('R6.value', w, loc(n), v == comp(4), 'the registered result sender %s is not the request\'s reply channel' % hirq.fmt_origin(v))
            under = any(cd[0] == 'arm' and hirq.pat_variant(cd[1]['arms'][cd[2]]['pat']) == 'LdapOp::Single' for cd in hirq.conditions(c))
            ctx.add('R6.single-only', w, loc(n), under, 'result routing registered for an operation that is not LdapOp::Single')
        else:
            want = hirq.project(comp(1), ('variant', 'LdapOp::Search', 0))
            ctx.add('R6.value', w, loc(n), v == want, 'the registered item sender %s is not the LdapOp::Search payload' % hirq.fmt_origin(v))
    wire = [(n, c) for n, c in walk(req['body']) if n['k'] == 'MethodCall' and n['name'] == 'send' and 'Framed<' in hirq.strip_refs(n['recv'].get('ty', ''))]
    ctx.floor('R6', 'wire sends', len(wire), 1)
    for n, c in wire:
        o = L.origin(n['args'][0])
        ok = o[0][0] == 'tuple' and len(o[0][1]) == 3 and list(o[0][1]) == [comp(0), comp(2), comp(3)]
        ctx.add('R6.wire-tuple', 'wire', loc(n), ok, 'the message written to the socket is %s, expected (id, request, controls) of the request tuple' % hirq.fmt_origin(o))

    # ------------------------------------------------------------------ R7 allocation -> wire (op_call)
    O = C.op_call
    sends = anchors.method_calls(O.root, 'UnboundedSender::<T>::send', lambda r: hirq.strip_refs(r.get('ty', '')) == anchors.T_REQ_SENDER)
    for s, c in sends:
        tup = hirq.resolve_expr(O, s['args'][0])
        if tup['k'] != 'Tup' or len(tup['elems']) != 5:
            ctx.fail('R7.tuple', O.path, loc(s), 'request tuple has an unexpected shape')
            continue
        e = tup['elems']
        o0 = O.origin(e[0])
        ctx.add('R7.id', O.path, loc(s), o0[0][0] == 'call' and o0[0][1] == C.alloc_path, 'request ID is not the allocator\'s result')
        ctx.add('R7.op', O.path, loc(s), O.origin(e[1]) == (('param', 'op'), ()) or O.origin(e[1])[0][0] == 'param', 'operation kind is not the caller\'s')
        ctx.add('R7.req', O.path, loc(s), O.origin(e[2])[0][0] == 'param', 'request body is not the caller\'s')
        # reply channel: tx of the oneshot pair whose rx is awaited
        otx = O.origin(e[4])
        ok = otx[0][0] == 'call' and otx[0][1].endswith('oneshot::channel') and otx[1] == (('tup', 0),)
        ctx.add('R7.reply-tx', O.path, loc(s), ok, 'the reply sender in the request tuple is not the oneshot pair created for this call')
        awaited = []
        for n, c2 in walk(O.root):
            if n['k'] == 'Await':
                oo = O.origin(n['e'])
                rs = O.roots(oo)
                awaited.append(rs)
        rx_root = otx[0]
        ctx.add('R7.reply-rx-awaited', O.path, loc(s), any(rx_root in rs for rs in awaited),
                'the receiver paired with the registered reply sender is never awaited')
        # last_id
        stores = [n for n, c2 in walk(O.root) if n['k'] == 'Assign' and hirq.peel_refs(n['l'])['k'] == 'Field' and hirq.peel_refs(n['l'])['name'] == 'last_id']
        for st in stores:
            ctx.add('R7.last-id', O.path, loc(st), O.origin(st['r']) == o0, 'last_id is not the allocated ID')

    # ------------------------------------------------------------------ R8 who may touch the routing maps
    ctor_bodies = set()
    for path, h in f.hir.items():
        for n, c in walk(h['body']):
            if n['k'] == 'Struct' and n.get('def') == C.driver_struct:
                ctor_bodies.add(path)
    touched = set()
    import controls
    controls.who_may_touch(ctx)
    for path, n, c in hirq.field_accesses(f, lambda n: hirq.strip_refs(n.get('ty', '')) in (anchors.T_RESULTMAP, anchors.T_SEARCHMAP)):
        touched.add(path)
        ctx.add('R8.map-owner', path, loc(n), path == C.loop_path or path in ctor_bodies,
                'routing map accessed outside the driver loop / constructor')
    vis = [fl for it in [f.items[C.driver_struct]] for v in it['variants'] for fl in v['fields'] if fl['name'] in (C.resultmap, C.searchmap)]
    for fl in vis:
        ctx.add('R8.map-private', fl['name'], '', fl['vis'] not in ('pub',), 'routing map field is public')

    # ------------------------------------------------------------------ R9 single forwarding task
    spawns = [n for n, c in walk(L.root) if n['k'] in ('Call', 'MethodCall') and (callee_of(n) or '').split('::')[-1] in ('spawn', 'spawn_local', 'spawn_blocking')]
    ctx.add('R9.no-spawn', L.path, loc(L.root), not spawns, 'the driver loop spawns tasks: responses could be forwarded out of order')
    ctx.add('R9.channel-types', 'ItemSender/ResultSender', '', anchors.T_ITEM_SENDER.startswith('tokio::sync::mpsc::') and anchors.T_RESULT_SENDER.startswith('tokio::sync::oneshot::'),
            'the item channel (%s) is not a tokio mpsc channel (FIFO, single consumer) or the reply channel is not a oneshot' % anchors.T_ITEM_SENDER[:60])


def arm_result(b):
    """(SearchItem variant constructed, remove flag literal) of a classification arm, or None."""
    e = b
    while e['k'] == 'Block' and not e['stmts'] and e.get('expr') is not None:
        e = e['expr']
    if e['k'] != 'Tup' or len(e['elems']) != 2:
        return None
    item, flag = e['elems']
    if item['k'] == 'Call' and item['f'].get('defkind', '').startswith('Ctor'):
        v = hirq.short_def(item['f'].get('ctor_of') or item['f'].get('def'))
        fl = flag.get('v') if flag['k'] == 'Lit' else None
        return (v, fl)
    return None

def path_sig(o):
    parts = []
    for a, t in o.st.pc:
        if a[0] == 'bin' and a[1] == 'Eq' and a[3][0] in ('lit', 'ctor'):
            parts.append(('' if t else '!') + absx.fmt(a[3]))
        elif a[0] == 'is' and a[2].startswith('PL::'):
            parts.append(('' if t else '!') + a[2])
    return ','.join(parts) or 'plain'

def check_envelope_path(o, msg):
    """msg = (ID, (Tag::StructureTag(OP), CTRLS)) as terms."""
    if msg[0] != 'tuple' or len(msg[1]) != 2 or msg[1][1][0] != 'tuple' or len(msg[1][1][1]) != 2:
        return False, 'decoded message is not (id, (op, controls))'
    optag = msg[1][1][1][0]
    if not (optag[0] == 'ctor' and optag[1] == 'Tag::StructureTag' and len(optag[2]) == 1):
        return False, 'protocolOp is not wrapped as Tag::StructureTag: the driver\'s response arm panics on any other Tag variant'
    return True, 'delivers (id, (Tag::StructureTag(op), controls))'
