"""C04 - every operation terminates; losing the connection fails all pending work."""
from facts import walk, callee_of, call_args, loc
import hirq, anchors

EXPLANATION = ("L1 reply senders are owned only by the driver's two routing maps, the request tuple and the LdapOp::Search payload; the "
               "driver loop takes the driver by value, so every exit drops them; no mem::forget / ManuallyDrop / Box::leak / into_raw in "
               "the workspace; L2 in the driver loop the closed-channel / end-of-stream alternative of the request, misc and response "
               "arms leaves the loop, a stream error and a failed socket write return Err; L3 on the caller side every send / recv / await "
               "on a channel is propagated with `?`, matched into an Err return or (finish only) logged - never unwrapped, never retried; "
               "L4 the request send (with `?`) precedes every await in the operation issue point; L5 the Unbind arm shuts the socket down "
               "and closes the sink before acknowledging, and the acknowledgement is sent for every non-Single operation. Not decided: "
               "liveness itself (tokio wakes waiters; a stalled write eventually fails; select! fairness).")
TRUSTED = ['dropping a tokio Sender wakes and fails its receiver', 'tokio select!/scheduler fairness']
UNDECIDED = ['liveness under the scheduler', 'fault injection at every byte boundary (dynamic notion)']
ASSUMPTIONS = []

LEAKERS = ('core::mem::forget', 'core::mem::manually_drop::ManuallyDrop::<T>::new', 'alloc::boxed::Box::<T, A>::leak', 'alloc::boxed::Box::<T>::leak',
           'alloc::sync::Arc::<T, A>::into_raw', 'alloc::sync::Arc::<T>::into_raw', 'alloc::boxed::Box::<T, A>::into_raw', 'alloc::boxed::Box::<T>::into_raw',
           'alloc::rc::Rc::<T>::into_raw')

def run(ctx):
    f = ctx.facts
    C = anchors.Conn(f)
    L = C.loop
    ctx.analysed['bodies'].update([C.loop_path, C.op_call_path])

    # ---- L1 holders of reply senders
    holders = []
    for it in f.items.values():
        if it.get('kind') in ('Struct', 'Enum'):
            for v in it['variants']:
                for fl in v['fields']:
                    if anchors.T_RESULT_SENDER in fl['ty'] or anchors.T_ITEM_SENDER in fl['ty']:
                        holders.append((it['path'], v['name'], fl['name'], fl['ty']))
    allowed = {(C.driver_struct, C.resultmap), (C.driver_struct, C.searchmap)}
    for path, var, name, ty in holders:
        ok = (path, name) in allowed or ty.startswith('tokio::sync::mpsc::unbounded::Unbounded') \
            or (path == 'ldap3::protocol::LdapOp' and var == 'Search') \
            or (path == 'ldap3::result::LdapError' and ty.startswith('tokio::sync::mpsc::error::SendError<'))   # the unsent request handed back to its own caller
        ctx.add('L1.sender-holder', '%s::%s.%s' % (path, var, name), '', ok, 'a reply sender is stored in %s.%s: it can outlive the driver and keep a waiter hanging' % (path, name))
    ctx.floor('L1', 'holders of reply senders', len(holders), 4)
    statics = [it for it in f.items.values() if it.get('kind', '').startswith('Static') and (anchors.T_RESULT_SENDER in it.get('ty', '') or anchors.T_ITEM_SENDER in it.get('ty', ''))]
    ctx.add('L1.no-static-holder', 'statics', '', not statics, 'a static holds reply senders')
    leaks = hirq.all_calls(f, lambda c: c in LEAKERS or c.endswith('::forget') and c.startswith('core::mem'))
    ctx.add('L1.no-leak-primitives', 'workspace', leaks[0][1]['sp'][0] if leaks else '', not leaks,
            'mem::forget / ManuallyDrop / leak / into_raw used: %s' % [(p, loc(n)) for p, n, c in leaks][:3])
    it = f.items.get(C.loop_path)
    by_value = it is not None and it['inputs'] and it['inputs'][0] == C.driver_struct
    ctx.add('L1.loop-takes-driver-by-value', C.loop_path, '', by_value, 'the driver loop borrows the driver: its senders survive the loop\'s exit')

    # ---- L2 loop exits
    main_loop = None
    for n, c in walk(L.root):
        if n['k'] == 'Loop' and any(x is C.arms['request']['match'] for x, _ in walk(n)):
            main_loop = n
            break
    def leaves_loop(e):
        if e is None:
            return False
        for n, c in walk(e):
            if n['k'] == 'Ret':
                return hirq.diverges(e)
            if n['k'] == 'Break' and n.get('target') == main_loop.get('id'):
                return hirq.diverges(e)
        return False
    for role in ('request', 'misc'):
        a = C.arms.get(role)
        if a is None:
            continue
        b = a['bindings'][0][0]
        ifs = [n for n, c in walk(a['body']) if n['k'] == 'If' and n['cond']['k'] == 'LetExpr' and hirq.local_of(n['cond']['init']) == b and hirq.pat_variant(n['cond']['pat']) == 'Some']
        ms = [n for n, c in walk(a['body']) if n['k'] == 'Match' and hirq.local_of(n['scrut']) == b]
        ok = False
        for i in ifs:
            ok = ok or leaves_loop(i.get('els'))
        for m in ms:
            for arm in m['arms']:
                if hirq.pat_variant(arm['pat']) == 'None':
                    ok = ok or leaves_loop(arm['body'])
        ctx.add('L2.closed-channel-leaves-loop', role, loc(a['body']), ok,
                'when the %s channel is closed (all handles dropped) the driver loop does not end' % role)
    # the scrub arm ignores a closed channel; that is only harmless while select! picks its starting branch at random
    rng = [n for n, c in walk(L.root) if n['k'] == 'Call' and (callee_of(n) or '') == 'tokio::macros::support::thread_rng_n']
    sb = C.arms['scrub']['bindings'][0][0]
    scrub_none_leaves = any(n['k'] == 'If' and n['cond']['k'] == 'LetExpr' and hirq.local_of(n['cond']['init']) == sb and leaves_loop(n.get('els')) for n, c in walk(C.arms['scrub']['body']))
    ctx.add('L2.closed-scrub-channel-cannot-starve-exit', 'select fairness', loc(main_loop), bool(rng) or scrub_none_leaves,
            'the select! is biased and its first-polled arm (ID scrub) is permanently ready with None once all handles are dropped: the arms that end the loop are never reached and the driver spins forever')
    resp = C.arms['response']
    rb = resp['bindings'][0][0]
    for m in [n for n, c in walk(resp['body']) if n['k'] == 'Match' and hirq.local_of(n['scrut']) == rb]:
        for arm in m['arms']:
            pv = hirq.pat_variant(arm['pat'])
            inner = arm['pat']['pats'][0] if arm['pat'].get('k') == 'PTupleStruct' and arm['pat']['pats'] else None
            if pv == 'None':
                ctx.add('L2.eof-leaves-loop', 'response', loc(arm['body']), leaves_loop(arm['body']), 'end of the byte stream does not end the driver loop')
            if pv == 'Some' and inner is not None and hirq.pat_variant(inner) == 'Err':
                rets = [x for x, _ in walk(arm['body']) if x['k'] == 'Ret' and x.get('e') and x['e']['k'] == 'Call' and hirq.short_def(x['e']['f'].get('def', '')) == 'Err']
                ctx.add('L2.stream-error-returns-err', 'response', loc(arm['body']), bool(rets) and hirq.diverges(arm['body']), 'a read/decode error does not make the driver return Err')
    wire = [(n, c) for n, c in walk(C.arms['request']['body']) if n['k'] == 'MethodCall' and n['name'] == 'send' and 'Framed<' in hirq.strip_refs(n['recv'].get('ty', ''))]
    for n, c in wire:
        # the awaited result is tested for Err and that branch returns Err
        ok = False
        for a, role in reversed(c):
            if a['k'] == 'LetExpr' and hirq.pat_variant(a['pat']) == 'Err':
                iff = [x for x, r in c if x['k'] == 'If' and x['cond'] is a]
                if iff:
                    ok = leaves_loop(iff[0]['then']) and any(x['k'] == 'Ret' for x, _ in walk(iff[0]['then']))
            if a['k'] == 'Try':
                ok = True
        ctx.add('L2.write-error-returns-err', 'request', loc(n), ok, 'a failed socket write does not end the driver with Err')
    ctx.floor('L2', 'wire sends', len(wire), 1)

    # ---- L3 caller side
    caller_bodies = [C.op_call_path]
    for suffix in ('::next_inner', '::finish_inner'):
        caller_bodies += [p for p in f.hir if p.startswith('ldap3::search::SearchStream') and p.endswith(suffix)]
    caller_bodies += [p for p in f.hir if p == 'ldap3::ldap::Ldap::get_peer_certificate']
    n_sites = 0
    for p in caller_bodies:
        B = hirq.Body(f, f.hir[p])
        ctx.analysed['bodies'].add(p)
        for n, c in walk(B.root):
            is_chan_call = n['k'] == 'MethodCall' and n['name'] in ('send', 'recv') and 'tokio::sync::' in hirq.strip_refs(n['recv'].get('ty', ''))
            is_rx_await = n['k'] == 'Await' and 'tokio::sync::oneshot::Receiver' in (n['e'].get('ty') or '')
            is_timeout_await = n['k'] == 'Await' and (n['e'].get('ty') or '').startswith('tokio::time::timeout::Timeout<')
            if not (is_chan_call or is_rx_await or is_timeout_await):
                continue
            n_sites += 1
            verdict = consumption(B, n, c)
            in_loop = any(a['k'] in ('Loop', 'While', 'For') for a, _ in c)
            ok = verdict in ('try', 'match-err-returns', 'logged') and not in_loop
            if verdict == 'logged' and not p.endswith('::finish_inner'):
                ok = False
            ctx.add('L3.channel-result-handled', '%s|%s' % (p, n.get('name', 'await')), loc(n), ok,
                    'result of a channel operation is %s%s: a closed channel does not become an error for the caller' % (verdict, ' inside a loop' if in_loop else ''))
    ctx.floor('L3', 'caller-side channel operations', n_sites, 7)

    # ---- L4 fail fast
    O = C.op_call
    sends = anchors.method_calls(O.root, 'UnboundedSender::<T>::send', lambda r: hirq.strip_refs(r.get('ty', '')) == anchors.T_REQ_SENDER)
    awaits = [n for n, c in walk(O.root) if n['k'] == 'Await']
    for s, c in sends:
        tried = any(a['k'] == 'Try' for a, _ in c[-2:])
        ctx.add('L4.send-propagates', O.path, loc(s), tried, 'a failed request send (driver gone) is not returned to the caller')
        ctx.add('L4.send-before-await', O.path, loc(s), all(O.before(s, a) for a in awaits), 'the operation awaits something before the request is handed to the driver')

    # ---- L5 unbind
    req = C.arms['request']
    def in_arm(n, variant):
        return any(c[0] == 'arm' and hirq.pat_variant(c[1]['arms'][c[2]]['pat']) == variant for c in hirq.conditions(L.context(n)))
    shut = [n for n, c in walk(req['body']) if n['k'] == 'MethodCall' and n['name'] == 'shutdown' and in_arm(n, 'LdapOp::Unbind')]
    close = [n for n, c in walk(req['body']) if n['k'] == 'MethodCall' and n['name'] == 'close' and in_arm(n, 'LdapOp::Unbind') and 'Framed<' in hirq.strip_refs(n['recv'].get('ty', ''))]
    acks = [n for n, c in walk(req['body']) if n['k'] == 'MethodCall' and n['name'] == 'send' and hirq.strip_refs(n['recv'].get('ty', '')) == anchors.T_RESULT_SENDER]
    ctx.add('L5.unbind-shutdown', 'unbind arm', loc(req['body']), len(shut) == 1, 'Unbind does not shut the transport down')
    ctx.add('L5.unbind-close', 'unbind arm', loc(req['body']), len(close) == 1, 'Unbind does not close the framed sink')
    ctx.add('L5.ack', 'request arm', loc(req['body']), len(acks) == 1, 'expected one acknowledgement send for non-Single operations')
    o_req = hirq.project(L.origin_of_bind(req['bindings'][0][0]), ('variant', 'Some', 0))
    for a in acks:
        ctx.add('L5.ack-target', 'request arm', loc(a), L.origin(a['recv']) == hirq.project(o_req, ('tup', 4)), 'the acknowledgement is not sent to the request\'s reply channel')
        ctx.add('L5.ack-after-unbind-work', 'request arm', loc(a), all(L.before(x, a) for x in shut + close), 'Unbind is acknowledged before the transport is closed')
        ctx.add('L5.ack-not-under-single', 'request arm', loc(a), not in_arm(a, 'LdapOp::Single'), 'acknowledgement sent for Single operations')
        # reachable from every non-Single arm: no diverging arm among Search / Abandon / Unbind
        m = [n for n, c in walk(req['body']) if n['k'] == 'Match' and any(hirq.pat_variant(x['pat']) == 'LdapOp::Unbind' for x in n['arms'])]
        for mm in m:
            for arm in mm['arms']:
                v = hirq.pat_variant(arm['pat'])
                if v and v != 'LdapOp::Single':
                    ctx.add('L5.ack-reached', v, loc(arm['body']), not hirq.diverges(arm['body']) and L.before(mm, a),
                            'the %s arm never reaches the acknowledgement: its caller would wait forever' % v)

def consumption(B, n, c):
    """How the result of node n is consumed: 'try', 'match-err-returns', 'logged', 'unwrapped', 'ignored', 'other'."""
    node = n
    for a, role in reversed(c):
        k = a['k']
        if k == 'Await' and role == 'e':
            node = a; continue
        if k == 'Call' and (callee_of(a) or '') == 'tokio::time::timeout::timeout':
            node = a; continue
        if k == 'Try':
            return 'try'
        if k == 'MethodCall' and role == 'recv':
            if a['name'] in ('unwrap', 'expect', 'unwrap_or', 'unwrap_or_default', 'unwrap_unchecked'):
                return 'unwrapped'
            if a['name'] in ('map_err', 'map', 'and_then', 'or_else'):
                node = a; continue
            if a['name'] in ('ok', 'is_ok', 'is_err'):
                return 'ignored'
            return 'other'
        if k == 'LetExpr' and role == 'init':
            if hirq.pat_variant(a['pat']) == 'Err':
                return 'logged'
            return 'match-err-returns'
        if k == 'Match' and role == 'scrut':
            for arm in a['arms']:
                if hirq.pat_variant(arm['pat']) in ('None', 'Err') and any(x['k'] == 'Ret' for x, _ in walk(arm['body'])):
                    return 'match-err-returns'
            return 'other'
        if k == 'Let' and role == 'init':
            bs = list(hirq.pat_bindings(a['pat']))
            if len(bs) == 1:
                return binding_consumption(B, bs[0][0])
            return 'other'
        if k == 'Semi':
            return 'ignored'
        if k == 'Expr':
            node = a; continue
        if k == 'Block':
            if a.get('expr') is node:
                node = a; continue
            return 'other'
        if k == 'If' and role in ('then', 'els'):
            node = a; continue
        if k in ('Closure',):
            return 'other'
        node = a
    return 'other'

def binding_consumption(B, b):
    res = set()
    for n, c in walk(B.root):
        if n['k'] == 'Path' and n.get('bind') == b:
            anc, role = c[-1]
            if anc['k'] == 'Try':
                res.add('try')
            elif anc['k'] == 'MethodCall' and role == 'recv' and anc['name'] in ('is_err', 'is_ok'):
                continue
            elif anc['k'] == 'Match' and role == 'scrut':
                good = any(hirq.pat_variant(arm['pat']) in ('None', 'Err') and any(x['k'] == 'Ret' for x, _ in walk(arm['body'])) for arm in anc['arms'])
                res.add('match-err-returns' if good else 'other')
            elif anc['k'] == 'MethodCall' and role == 'recv' and anc['name'] in ('unwrap', 'expect'):
                res.add('unwrapped')
            else:
                res.add('other')
    if res == {'try'}:
        return 'try'
    if res == {'match-err-returns'}:
        return 'match-err-returns'
    if 'unwrapped' in res:
        return 'unwrapped'
    return 'other' if res else 'ignored'
