"""C04 - every operation terminates; losing the connection fails all pending work."""
from facts import walk, callee_of, call_args, loc
import hirq, anchors, absx, sem, driver

EXPLANATION = ("L1 reply senders are owned only by the driver's two routing maps, the request tuple and the LdapOp::Search payload; the "
               "driver loop takes the driver by value, so every exit drops them; no mem::forget / ManuallyDrop / Box::leak / into_raw in "
               "the workspace; L2 / L11 what the select! of the driver loop does with the answer that says a source has ended - None from the request / misc channel, None from the transport's stream - is read off the macro's expansion (the branch's piece of the poll closure interpreted with the future's answer fixed to that value): it is handed to the arm (a refutable branch pattern that does not match None makes the macro swallow it: the branch is only switched off for that call and `else` runs only when every branch is), and every path of the arm's handler on it leaves the loop; "
               "a stream error (Some(Err)) is handed to the response arm and every path on it returns Err, as does every path of the request arm on which the socket write failed, and an arm awaits nothing but the driver's own transport (never a channel send, lock or timer whose completion is up to a consumer); L3 on the caller side every send / recv / await "
               "on a channel is propagated with `?`, matched into an Err return or (finish only) logged - never unwrapped, never retried (the stream's stepping functions are evaluated from the values of the stream state "
               "in which their one referencing shim reaches the call, so a branch on an excluded state is not an answer to a closed channel); "
               "L4 the request send (with `?`) precedes every await in the operation issue point; L5 on the enumerated paths of the request arm: every path that serves an Unbind has awaited the transport's shutdown "
               "and the sink's close before it acknowledges; every path on which the operation is not Single and the driver goes on sends exactly one acknowledgement on the reply sender that came with the request (sends on other senders are not acknowledgements of this request), a path a Single operation takes sends none; L6 the one-operation driver (StartTLS set-up) hands the connection back only on paths that have established that no reply is owed: the flag such a path tests is shown, by induction over the arms' enumerated paths, to become true only where a reply was sent on the sender taken out of the result map under the decoded ID; L7 the transport wrapper's AsyncRead / AsyncWrite methods each delegate, per variant, to the same method of the wrapped stream (shutdown reaches the socket of every transport kind); L9 on every path of the request arm on which the operation is Unbind the driver loop is left, so the reply senders of operations still waiting are dropped. Not decided: "
               "liveness itself (tokio wakes waiters; a stalled write eventually fails; select! fairness).")
TRUSTED = ['dropping a tokio Sender wakes and fails its receiver', 'tokio select!/scheduler fairness']
UNDECIDED = ['liveness under the scheduler', 'fault injection at every byte boundary (dynamic notion)']
ASSUMPTIONS = []
SHARED = [('C16', ('A2.follow-up-error-returned',), 'L8.paged-follow-up-failure-is-an-error'),
          # C04's clause "when the server ... sends an undecodable frame ... each operation or stream still waiting for a response returns an
          # error (it never hangs)": L2 decides that a decode *error* ends the driver and drops every reply sender; what makes an undecodable
          # frame an error rather than an everlasting request for more input is that the TLV parser never answers Incomplete for a frame
          # whose announced octets have all arrived - C11's H3 family, decided on the parser's paths
          ('C11', ('H3.',), 'L10.undecodable-frame-is-an-error-not-a-wait')]

LEAKERS = ('core::mem::forget', 'core::mem::manually_drop::ManuallyDrop::<T>::new', 'alloc::boxed::Box::<T, A>::leak', 'alloc::boxed::Box::<T>::leak',
           'alloc::sync::Arc::<T, A>::into_raw', 'alloc::sync::Arc::<T>::into_raw', 'alloc::boxed::Box::<T, A>::into_raw', 'alloc::boxed::Box::<T>::into_raw',
           'alloc::rc::Rc::<T>::into_raw')

def paths_from_entry_states(ctx, f, B):
    """The paths of a caller-side body, evaluated in the states it can be entered in.  A private stepping function of the search
    stream (next_inner, finish_inner) is entered through one shim only (next(), finish()), and the shim tests the stream's state
    before it calls: a branch of the stepping function on a state the shim never lets through is dead code, not a way a closed
    channel is answered.  Decided, not assumed, on every run: (1) every reference to the function in the workspace (call or function
    value) lies in one body of the stream type; (2) that body is evaluated from each value of the stream's state field - the field
    whose type is a fieldless enum of the crate, a finite domain - and the states in which some path of it reaches the call are
    collected; the function is then evaluated once from each of those states.  If (1) does not hold, or the state field cannot be
    identified, the function is evaluated without any knowledge of the state (every branch counts), as before."""
    plain = lambda: sem.paths(f, B, result_combinators=True)[0]
    it = f.items.get(B.path) or {}
    dom = sem.finite_state_field(f, B.path)
    if dom is None:
        return plain()
    fname, values = dom
    refs = set()
    for path, h in f.hir.items():
        if path == B.path:
            continue
        for n, c in walk(h['body']):
            if (n['k'] in ('Call', 'MethodCall') and callee_of(n) == B.path) or (n['k'] == 'Path' and n.get('defkind') in ('Fn', 'AssocFn') and (n.get('inst') or n.get('def')) == B.path):
                refs.add(path)
    if len(refs) != 1 or (f.items.get(next(iter(refs))) or {}).get('impl_self') != it.get('impl_self'):
        return plain()
    shim = hirq.Body(f, f.hir[next(iter(refs))])
    ctx.analysed['bodies'].add(shim.path)
    place = ('field', ('param', 'self'), fname)
    entered = []
    for val in values:
        outs = absx.Interp(f, shim, result_combinators=True).run(root=sem.entry(shim), heap={place: val})
        if any(e[0] == 'call' and e[1] == B.path for o in outs for e in o.st.ev):
            entered.append(val)
    ctx.add('L3.stepping-function-entry-states', B.path, loc(B.root), bool(entered),
            '%s is referenced only from %s, which reaches it from no value of the stream\'s state' % (B.path, shim.path))
    out = []
    for val in entered:
        out += [o for o in absx.Interp(f, B, result_combinators=True).run(root=sem.entry(B), heap={place: val}) if o.kind in ('val', 'ret', 'div', 'loop')]
    return out

def f_field_ty(f, name):
    st = f.items.get('ldap3::search::SearchStream') or {}
    for v in st.get('variants', []):
        for fl in v['fields']:
            if fl['name'] == name:
                return fl['ty']
    return None

def run(ctx):
    f = ctx.facts
    C = anchors.Conn(f)
    L = C.loop
    ctx.analysed['bodies'].update([C.loop_path, C.op_call_path])

    # ---- L1 holders of reply senders
    holders = []
    for it in f.items.values():
        if it.get('kind') in ('Struct', 'Enum'):
            for v in it['variants']:
                for fl in v['fields']:
                    if anchors.T_RESULT_SENDER in fl['ty'] or anchors.T_ITEM_SENDER in fl['ty']:
                        holders.append((it['path'], v['name'], fl['name'], fl['ty']))
    allowed = {(C.driver_struct, C.resultmap), (C.driver_struct, C.searchmap)}
    for path, var, name, ty in holders:
        ok = (path, name) in allowed or ty.startswith('tokio::sync::mpsc::unbounded::Unbounded') \
            or (path == 'ldap3::protocol::LdapOp' and var == 'Search') \
            or (path == 'ldap3::result::LdapError' and ty.startswith('tokio::sync::mpsc::error::SendError<'))   # the unsent request handed back to its own caller
        ctx.add('L1.sender-holder', '%s::%s.%s' % (path, var, name), '', ok, 'a reply sender is stored in %s.%s: it can outlive the driver and keep a waiter hanging' % (path, name))
    ctx.floor('L1', 'holders of reply senders', len(holders), 4)
    statics = [it for it in f.items.values() if it.get('kind', '').startswith('Static') and (anchors.T_RESULT_SENDER in it.get('ty', '') or anchors.T_ITEM_SENDER in it.get('ty', ''))]
    ctx.add('L1.no-static-holder', 'statics', '', not statics, 'a static holds reply senders')
    leaks = hirq.all_calls(f, lambda c: c in LEAKERS or c.endswith('::forget') and c.startswith('core::mem'))
    import controls
    controls.leak_primitives(ctx, lambda c: c in LEAKERS or c.endswith('::forget') and c.startswith('core::mem'))
    ctx.add('L1.no-leak-primitives', 'workspace', leaks[0][1]['sp'][0] if leaks else '', not leaks,
            'mem::forget / ManuallyDrop / leak / into_raw used: %s' % [(p, loc(n)) for p, n, c in leaks][:3])
    it = f.items.get(C.loop_path)
    by_value = it is not None and it['inputs'] and it['inputs'][0] == C.driver_struct
    ctx.add('L1.loop-takes-driver-by-value', C.loop_path, '', by_value, 'the driver loop borrows the driver: its senders survive the loop\'s exit')

    # ---- L2 loop exits
    main_loop = None
    for n, c in walk(L.root):
        if n['k'] == 'Loop' and any(x is C.arms['request']['match'] for x, _ in walk(n)):
            main_loop = n
            break
    # What becomes of the answer that tells the driver "this source has ended" - None from the request / misc channel (every handle
    # dropped), None from the transport's stream (the server closed the connection).  Decided on what the select! does with that
    # very answer (driver.select_answer: the branch's piece of the macro's poll closure interpreted with the future's answer fixed
    # to None) and on the paths of the arm's handler run on it - not on how the arm is spelled (`x = fut => match x { None => break,
    # .. }`, `let Some(x) = x else { break }`, an `if let` with the exit in the `else`): the answer must be handed to the handler,
    # and every path of the handler on it must leave the loop.  A refutable branch pattern that does not match None
    # (`Some(x) = fut => ..`) means the macro swallows the answer: it switches the branch off for this call and goes on polling the
    # others; the loop is left only through `else`, which runs only when every branch is switched off in the same call.
    EXITS = {'val': 'falls out of the arm', 'cont': '`continue`s', 'loop': 'stays in an inner loop', 'div': 'panics'}
    def ended_source_ends_loop(role, rule_delivered, rule_exit, what, consequence):
        r = driver.answer_fate(C, role, driver.NONE)
        a = C.arms[role]
        ctx.add(rule_delivered, role, loc(a['body']), not r['unread'],
                'what the select! of the driver loop does with the answer None of the %s branch could not be read off the macro\'s expansion (%d path(s) of its poll code end in neither `return Ready(Out::_n(..))` nor `continue`)' % (role, len(r['unread'])))
        if r['consumed']:
            ctx.fail(rule_delivered, role + '|None', loc(a['body']),
                     '%s (its future answers None) the select! of the driver loop does not hand that answer to the %s arm: the arm\'s pattern does not match None, so the macro only switches '
                     'the branch off for this call of select! and goes on polling the other branches; %s - the loop is not left, the driver polls the ended source again on every turn and %s'
                     % (what, role, driver.why_not_left(C, role), consequence))
        else:
            ctx.add(rule_delivered, role + '|None', loc(a['body']), bool(r['delivered']), 'no path of the %s branch\'s poll code hands the answer None to the arm' % role)
        for o in r['handler'] or []:
            ctx.add(rule_exit, '%s|%s' % (role, o.kind), loc(a['body']), driver.leaves_driver_loop(C, o, main_loop),
                    '%s the %s arm %s instead of leaving the driver loop: %s' % (what, role, EXITS.get(o.kind, o.kind), consequence))
        return r
    for role in ('request', 'misc'):
        if C.arms.get(role) is None:
            continue
        ended_source_ends_loop(role, 'L2.closed-channel-leaves-loop', 'L2.closed-channel-leaves-loop', 'when the %s channel is closed (all handles dropped)' % role,
                               'the driver never ends')
    # the scrub arm ignores a closed channel; that is only harmless while select! picks its starting branch at random
    rng = [n for n, c in walk(L.root) if n['k'] == 'Call' and (callee_of(n) or '') == 'tokio::macros::support::thread_rng_n']
    _sf = driver.answer_fate(C, 'scrub', driver.NONE)
    scrub_none_leaves = bool(_sf['handler']) and not _sf['consumed'] and not _sf['unread'] and all(driver.leaves_driver_loop(C, o, main_loop) for o in _sf['handler'])
    ctx.add('L2.closed-scrub-channel-cannot-starve-exit', 'select fairness', loc(main_loop), bool(rng) or scrub_none_leaves,
            'the select! is biased and its first-polled arm (ID scrub) is permanently ready with None once all handles are dropped: the arms that end the loop are never reached and the driver spins forever')
    # an arm that ends the loop must always be polled: a `, if <cond>` precondition on it switches the exit off
    pre = hirq.select_preconditions(main_loop)
    n_arms = len(hirq.select_arms(main_loop))
    ctx.add('L2.every-branch-has-its-precondition-slot', 'select!', loc(main_loop), len(pre) == n_arms and n_arms >= 3,
            'the select! of the driver loop has %d arms but %d precondition slots were found: the macro expansion is not understood' % (n_arms, len(pre)))
    for role in ('request', 'response'):
        a = C.arms[role]
        idx = a['index']
        cond = pre[idx] if idx < len(pre) else None
        ok = cond is not None and cond['k'] == 'Lit' and cond.get('v') is True
        ctx.add('L2.exit-arm-always-polled', role, loc(a['body']), ok,
                'the %s arm of the driver loop has a precondition (`, if ...`): while it is false the driver no longer notices %s, so pending operations wait forever' % (
                    role, 'that the last handle was dropped' if role == 'request' else 'end of stream, a reset or an undecodable frame'))
    # L11 "when the server closes the connection ... every pending operation and stream returns an error": the end of the transport's
    # stream (`stream.next()` answering None) reaches an exit of the loop - the answer is handed to the response arm and every path
    # of the arm on it leaves the loop (which drops the driver, and with it every reply sender)
    resp = C.arms['response']
    r_none = ended_source_ends_loop('response', 'L11.end-of-stream-reaches-the-arm', 'L2.eof-leaves-loop', 'when the server closes the connection (the transport\'s stream ends)',
                                    'operations and search streams still waiting for a response hang instead of failing')
    ctx.floor('L11', 'paths of the response arm\'s poll code and handler for the end of the stream', len(r_none['delivered']) + len(r_none['consumed']) + len(r_none['handler'] or []), 1)
    # a read / decode error (the stream answers Some(Err(e))) is handed to the arm as well, and every path of the arm on it returns Err
    SOME_ERR = ('ctor', 'Some', (('ctor', 'Err', (('param', 'E'),)),))
    r_err = driver.answer_fate(C, 'response', SOME_ERR)
    ctx.add('L2.stream-error-returns-err', 'response|delivered', loc(resp['body']), bool(r_err['delivered']) and not r_err['consumed'] and not r_err['unread'],
            'a read / decode error of the transport (Some(Err(e))) is not handed to the response arm: %s' % (
                'the arm\'s pattern does not match it, the select! switches the branch off and the error is lost' if r_err['consumed'] else 'the macro\'s expansion could not be read'))
    for o in r_err['handler'] or []:
        ctx.add('L2.stream-error-returns-err', 'response|%s' % o.kind, loc(resp['body']), o.kind == 'ret' and sem.is_err_result(o.val),
                'a read/decode error does not make the driver return Err (the response arm %s)' % (EXITS.get(o.kind, 'returns %s' % absx.fmt(o.val)[:40] if o.kind == 'ret' else o.kind)))
    # a failed socket write ends the driver with Err: on every path of the request arm on which the awaited write of the request to
    # the transport is known to have failed
    n_wire = 0
    seen_wire = set()
    for o in driver.arm_paths(C, 'request')[0]:
        for i, cal, args, node in sem.calls(o, lambda c: c.rsplit('::', 1)[-1] == 'send'):
            if 'Framed<' not in sem.recv_ty(node):
                continue
            seen_wire.add(node.get('id'))
            w = ('call', cal, tuple(args), node.get('id'))
            if sem.failed(o, lambda v, w=w: v == ('await', w)):
                n_wire += 1
                ctx.add('L2.write-error-returns-err', 'request|%s' % o.kind, loc(node), o.kind == 'ret' and sem.is_err_result(o.val), 'a failed socket write does not end the driver with Err')
    wire = [n for n, c in walk(C.arms['request']['body']) if n['k'] == 'MethodCall' and n['name'] == 'send' and 'Framed<' in hirq.strip_refs(n['recv'].get('ty', ''))]
    for n in wire:
        if n.get('id') not in seen_wire:
            ctx.fail('L2.write-error-returns-err', 'request', loc(n), 'a write to the transport in the request arm lies on no enumerated path of the arm: it was not analysed')
    ctx.floor('L2', 'paths of the request arm on which the socket write failed', n_wire, 1)

    # ---- L2 the driver never waits, inside an arm, for anything but its own transport.  While an arm's body runs nothing else of
    # the loop does: the socket is not read, requests are not taken, end of stream and a closed request channel go unnoticed.  The
    # only futures an arm may await are therefore those of the transport the driver owns (the framed socket and the stream inside
    # it: write, shutdown, close) - they complete or fail with the socket.  Awaiting anything whose completion is up to a user of
    # the library - room in a bounded queue that a search consumer drains, a lock, a timer, another channel - lets one lagging
    # consumer stall every pending operation.  (Sends on the unbounded item / oneshot reply channels are not futures: they cannot wait.)
    fr_fields = [fl for v in f.items[C.driver_struct]['variants'] for fl in v['fields'] if fl['ty'].startswith('tokio_util::codec::framed::Framed<')]
    transport_tys = set()
    for fl in fr_fields:
        transport_tys.add(fl['ty'])
        inner = fl['ty'][len('tokio_util::codec::framed::Framed<'):]
        depth, cut = 0, None
        for i, ch in enumerate(inner):
            if ch in '<(':
                depth += 1
            elif ch in '>)':
                depth -= 1
            elif ch == ',' and depth == 0:
                cut = i
                break
        if cut is not None:
            transport_tys.add(inner[:cut])
    ctx.add('L2.arm-awaits-only-the-transport', 'transport field', '', len(fr_fields) == 1, 'expected one framed transport in the driver struct, found %d' % len(fr_fields))
    n_aw = 0
    for role, a in C.arms.items():
        for arm in (a if isinstance(a, list) else [a]):
            for n, c in walk(arm['body']):
                if n['k'] != 'Await':
                    continue
                n_aw += 1
                fut = hirq.peel_refs(n['e'])
                recv = fut.get('recv') if fut['k'] == 'MethodCall' else (fut['args'][0] if fut['k'] == 'Call' and fut.get('args') else None)
                on_transport = recv is not None and hirq.strip_refs(hirq.peel_refs(recv).get('ty') or '') in transport_tys
                what = (callee_of(fut) or fut['k']) if fut['k'] in ('MethodCall', 'Call') else fut['k']
                rty = hirq.strip_refs(hirq.peel_refs(recv).get('ty') or '') if recv is not None else ''
                why = 'a channel send that waits for room in the queue: a consumer that lags behind' if 'tokio::sync::mpsc' in rty else 'something other than the driver\'s own transport'
                ctx.add('L2.arm-awaits-only-the-transport', '%s|%s' % (role if isinstance(role, str) else 'other', what.rsplit('::', 2)[-2:] and '::'.join(what.rsplit('::', 2)[-2:])), loc(n), on_transport,
                        'the %s arm of the driver loop awaits `%s` (%s) - until it completes the driver reads nothing from the socket, takes no request and does not notice end of stream: every other pending operation hangs with it'
                        % (role if isinstance(role, str) else 'other', what, why))
    ctx.floor('L2', 'awaits inside the select! arms', n_aw, 3)

    # ---- L3 / L4 caller side, decided on the enumerated paths of each caller body
    caller_bodies = [C.op_call_path]
    for suffix in ('::next_inner', '::finish_inner'):
        caller_bodies += [p for p in f.hir if p.startswith('ldap3::search::SearchStream') and p.endswith(suffix)]
    caller_bodies += [p for p in f.hir if p == 'ldap3::ldap::Ldap::get_peer_certificate']
    n_sites = 0
    for p in caller_bodies:
        B = hirq.Body(f, f.hir[p])
        ctx.analysed['bodies'].add(p)
        outs = paths_from_entry_states(ctx, f, B)
        sites = {}      # node id -> (kind, node, result-term predicate)
        for o in outs:
            for i, cal, args, node in sem.calls(o, lambda c: c.rsplit('::', 1)[-1] in ('send', 'recv')):
                if 'tokio::sync::' in sem.recv_ty(node):
                    sites.setdefault(node.get('id'), (node['name'], node))
            for i, t, node in sem.awaits(o):
                ty = node['e'].get('ty') or ''
                if 'tokio::sync::oneshot::Receiver' in ty or ty.startswith('tokio::time::timeout::Timeout<'):
                    sites.setdefault(node.get('id'), ('await', node))
        for sid, (kind, node) in sorted(sites.items(), key=lambda kv: str(kv[0])):
            n_sites += 1
            inst = '%s|%s' % (p, kind)
            def derived(v, sid=sid, node=node):
                """v is the result of this site or a component of it"""
                return sem.has(v, lambda x: (x[0] == 'call' and x[3] == sid) or (x[0] == 'await' and node['k'] == 'Await' and sem.strip_site(x[1]) == sem.strip_site(await_arg.get(sid))))
            await_arg = {}
            if node['k'] == 'Await':
                for o in outs:
                    for i, t, n2 in sem.awaits(o):
                        if n2 is node:
                            await_arg[sid] = t
            fail_paths = [o for o in outs if sem.failed(o, derived)]
            unwrapped = [e for o in outs for e in o.st.ev if e[0] in ('may-panic', 'panic') and any(derived(a) for a in e[2])]
            in_loop = any(a['k'] in ('Loop', 'While', 'For') for a, _ in B.context(node))
            if unwrapped:
                ok, verdict = False, 'unwrapped'
            elif not fail_paths:
                ok, verdict = False, 'never tested (a closed channel goes unnoticed)'
            elif p.endswith('::finish_inner') and kind == 'send':
                ok, verdict = True, 'logged'
            else:
                bad = [o for o in fail_paths if not (o.kind in ('ret', 'val') and sem.is_err_result(o.val))]
                ok, verdict = not bad, ('returned as an error' if not bad else 'tested, but a failure path returns %s' % absx.fmt(bad[0].val)[:50])
            ctx.add('L3.channel-result-handled', inst, loc(node), ok and not in_loop,
                    'result of a channel operation is %s%s: a closed channel does not become an error for the caller' % (verdict, ' inside a loop' if in_loop else ''))
    ctx.floor('L3', 'caller-side channel operations', n_sites, 7)
    # what was delivered is returned: the stream reports its end only when the item channel itself yielded None (closed and drained)
    for p in [q for q in caller_bodies if q.endswith('::next_inner')]:
        B = hirq.Body(f, f.hir[p])
        outs = paths_from_entry_states(ctx, f, B)
        is_recv = lambda t: t[0] == 'call' and t[1].startswith('tokio::sync::mpsc::') and t[1].endswith('Receiver::<T>::recv')     # bounded or unbounded: recv() is None exactly when the channel is closed and drained
        def recv_result(v):
            if v[0] == 'await' and is_recv(v[1]):
                return True
            return v[0] == 'variant' and v[2] == 'Ok' and v[1][0] == 'await' and v[1][1][0] == 'call' and v[1][1][1] == 'tokio::time::timeout::timeout' and is_recv(v[1][1][2][1])
        n_eos = 0
        for o in outs:
            if o.kind in ('ret', 'val') and sem.has(o.val, lambda x: x[0] == 'ctor' and x[1] == 'LdapError::EndOfStream'):
                n_eos += 1
                # ... or there is no channel any more: the path found the receiver field empty (nothing can have been delivered that
                # was not handed out)
                no_channel = absx.pc_variant(o.st.pc, lambda t: t[0] == 'field' and t[1] == ('param', 'self') and 'Receiver<' in (f_field_ty(f, t[2]) or ''), 'None') is True
                ctx.add('L3.end-of-stream-only-when-channel-closed', p, loc(B.root), sem.failed(o, recv_result) or no_channel,
                        'the stream reports EndOfStream on a path where the item channel did not itself yield None: delivered items can be lost')
        items = [o for o in outs if o.kind in ('ret', 'val') and sem.is_ok_result(o.val) and sem.has(o.val, lambda x: x[0] == 'ctor' and x[1].endswith('ResultEntry'))]
        for o in items:
            ctx.add('L3.item-is-what-was-received', p, loc(B.root), sem.succeeded(o, recv_result),
                    'an item is returned on a path where the channel receive did not yield it')
        ctx.floor('L3', 'end-of-stream paths', n_eos, 1)

    # ---- L4 fail fast: on every path the request is handed to the driver before the first await, and a failed hand-over ends the call
    O = C.op_call
    outs, _I = sem.paths(f, O, result_combinators=True)
    for o in outs:
        snd = [(i, args, node) for i, cal, args, node in sem.calls(o, lambda c: c.endswith('UnboundedSender::<T>::send')) if sem.recv_ty(node) == anchors.T_REQ_SENDER]
        aws = sem.awaits(o)
        if aws:
            ctx.add('L4.send-before-await', O.path, loc(O.root), bool(snd) and snd[0][0] < aws[0][0], 'the operation awaits something before the request is handed to the driver')
        for i, args, node in snd:
            sid = node.get('id')
            if sem.failed(o, lambda v: sem.has(v, lambda x: x[0] == 'call' and x[3] == sid)):
                ctx.add('L4.send-propagates', O.path, loc(node), sem.is_err_result(o.val) and not aws, 'a failed request send (driver gone) is not returned to the caller at once')

    # ---- L5 unbind / the acknowledgement of a request the driver concludes itself.  Decided on the enumerated paths of the request
    # arm (helpers expanded, logging skipped), not on where a `send` stands in the text:
    #   * the acknowledgement of the request being served is a delivery on the reply sender that came with the request tuple (TX) -
    #     a send on any other sender of that type (one taken out of a routing map, say) is not an acknowledgement of this request
    #     and is none of L5's business (C13 K10 / C01 decide what may be sent to other operations);
    #   * every path on which the operation can be something other than Single and on which the driver goes on (not the return
    #     with the socket-write error) acknowledges exactly once; a path on which it can be Single never does (its reply is the
    #     server's response);
    #   * on an Unbind path the transport's shutdown and the sink's close have both been awaited before the acknowledgement.
    req = C.arms['request']
    REQ = ('variant', driver.ARM, 'Some', 0)
    OP, TX = ('field', REQ, '1'), ('field', REQ, '4')      # components of anchors.T_REQ_TUPLE (by which the request channel is anchored)
    OPS = ('LdapOp::Single', 'LdapOp::Search', 'LdapOp::Abandon', 'LdapOp::Unbind')
    def recv_of(node):
        return node.get('recv') if node.get('k') == 'MethodCall' else ((node.get('args') or [None])[0] if node.get('k') == 'Call' else None)
    def awaited_calls(o, name, ty_ok):
        """event indices of the awaits of a call `name` on (something of) the transport"""
        out = []
        for i, cal, args, node in sem.calls(o, lambda c: c.rsplit('::', 1)[-1] == name):
            r = recv_of(node)
            if r is None or not ty_ok(hirq.strip_refs(hirq.peel_refs(r).get('ty') or '')):
                continue
            t = ('call', cal, tuple(args), node.get('id'))
            out += [j for j, at, _n in sem.awaits(o) if at == t and j > i]
        return out
    n_l5 = 0
    reached = {v: [] for v in OPS[1:]}
    for o in driver.arm_paths(C, 'request')[0]:
        if o.kind == 'div' or absx.pc_variant(o.st.pc, lambda v: v == driver.ARM, 'Some') is not True:
            continue
        if o.kind == 'ret' and sem.is_err_result(o.val):
            continue        # the driver ends with an error: every sender is dropped with it
        if any(sem.failed(o, lambda v, w=('call', cal, tuple(args), node.get('id')): v == ('await', w))
               for i, cal, args, node in sem.calls(o, lambda c: c.rsplit('::', 1)[-1] == 'send') if 'Framed<' in sem.recv_ty(node)):
            continue        # the request could not be written to the transport: it was not served, nothing is to be acknowledged (L2 decides what a failed write leads to)
        kind = {v: sem.variant_truth(o.st.pc, lambda t: t == OP, v, OPS) for v in OPS}
        which = next((v for v in OPS if kind[v] is True), None)
        sig = '%s|%s|%s' % ((which or 'kind not looked at').rsplit('::', 1)[-1], o.kind,
                            ','.join(('' if t else '!') + absx.fmt(sem.strip_site(a[1]))[:24] for a, t in o.st.pc if a[0] == 'is' and a[2] in ('Ok', 'Some') and a[1] != driver.ARM)[:120])
        res_sends = driver.sends(o, anchors.T_RESULT_SENDER)
        own = [(i, args, node) for i, args, node in res_sends if args[0] == TX]
        others = [(i, args, node) for i, args, node in res_sends if args[0] != TX]
        n_l5 += 1
        if kind['LdapOp::Single'] is not False:
            ctx.add('L5.ack-not-under-single', sig, loc(own[0][2]) if own else loc(req['body']), not own,
                    'a path of the request arm that a Single operation takes sends the driver\'s own acknowledgement on the request\'s reply channel: its caller gets that instead of the server\'s response')
        # `oneshot::Sender::is_closed()` is true iff the receiver was dropped or closed, and stays true: on a path that has found the
        # request's own reply channel closed nobody is there to acknowledge to (a send could only fail), so none is owed
        nobody_listens = any(t is True and a[0] == 'call' and a[1].endswith('oneshot::Sender::<T>::is_closed') and tuple(a[2]) == (TX,) for a, t in o.st.pc)
        if kind['LdapOp::Single'] is not True:
            what = (which or 'Search / Abandon / Unbind').rsplit('::', 1)[-1]
            ctx.add('L5.ack', sig, loc(req['body']), len(own) == 1 or (nobody_listens and not own),
                    'a path of the request arm that serves %s %s request sends %d acknowledgements on the request\'s own reply channel (expected exactly one): %s'
                    % ('an' if what[0] in 'AU' else 'a', what, len(own), 'its caller is failed instead of being told that the request was served' if not own else 'the second send cannot be delivered'))
            ctx.add('L5.ack-target', sig, loc(others[0][2]) if others else loc(req['body']), bool(own) or not others,
                    'the acknowledgement is not sent to the request\'s reply channel but on %s' % ', '.join(absx.fmt(sem.strip_site(a[0]))[:50] for _i, a, _n in others))
            if which in reached:
                reached[which].append(bool(own))
        if kind['LdapOp::Unbind'] is True:
            shut = awaited_calls(o, 'shutdown', lambda ty: ty in transport_tys)
            close = awaited_calls(o, 'close', lambda ty: ty.startswith('tokio_util::codec::framed::Framed<'))
            ctx.add('L5.unbind-shutdown', sig, loc(req['body']), bool(shut), 'a path of the request arm that serves an Unbind does not shut the transport down (no awaited shutdown of the driver\'s transport)')
            ctx.add('L5.unbind-close', sig, loc(req['body']), bool(close), 'a path of the request arm that serves an Unbind does not close the framed sink (no awaited close of the driver\'s transport)')
            for i, args, node in own:
                ctx.add('L5.ack-after-unbind-work', sig, loc(node), all(j < i for j in shut + close),
                        'Unbind is acknowledged before the transport is closed')
    for v, acks_ in reached.items():
        ctx.add('L5.ack-reached', v, loc(req['body']), bool(acks_) and all(acks_),
                'the %s operation never reaches the acknowledgement on %s: its caller would %s' % (v, 'any path of the request arm' if not any(acks_) else 'some path of the request arm', 'find no path that serves it (none was enumerated)' if not acks_ else 'be failed although the request was served'))
    ctx.floor('L5', 'paths of the request arm on which the driver goes on serving', n_l5, 4)

    # ---- L9 Unbind ends the driver: after the transport was shut down nothing more can arrive that the client should wait for;
    # a driver that goes on polling keeps every reply sender alive, so operations still waiting hang for as long as the peer
    # keeps its side of the connection open.  On every path of the request arm on which the operation is Unbind the loop is left.
    VARS = ('LdapOp::Single', 'LdapOp::Search', 'LdapOp::Abandon', 'LdapOp::Unbind')
    # Which paths: those on which the operation is known to be Unbind, and those that go on serving without having looked at the kind
    # of operation at all (an Unbind takes such a path too: what Unbind does must not depend on anything else the arm may test first,
    # such as whether its caller still listens).  Not asked of a path that ends the driver with an error.
    unbind_paths, unlooked = [], set()
    for o in driver.arm_paths(C, 'request')[0]:
        if o.kind == 'div' or absx.pc_variant(o.st.pc, lambda v: v == driver.ARM, 'Some') is not True:
            continue
        is_unbind = sem.variant_truth(o.st.pc, lambda t: t == OP, 'LdapOp::Unbind', VARS)
        if is_unbind is True:
            unbind_paths.append(o)
        elif is_unbind is None and not any(a[0] == 'is' and a[2] in VARS and a[1] == OP for a, t in o.st.pc) and not (o.kind == 'ret' and sem.is_err_result(o.val)):
            unbind_paths.append(o)
            unlooked.add(id(o))
    n_unbind = len(unbind_paths)
    # (for the message: what the paths that stay in the loop have in common - the tests they all found failed, e.g. the
    # acknowledgement that could not be delivered because the unbind() future was dropped)
    fails = lambda o: {absx.fmt(sem.strip_site(a[1]))[:60] for a, t in o.st.pc if a[0] == 'is' and a[2] in ('Ok', 'Some') and not t}
    staying = [o for o in unbind_paths if o.kind not in ('brk', 'ret') and id(o) not in unlooked]
    common = sorted(set.intersection(*[fails(o) for o in staying])) if staying else []
    for o in unbind_paths:
        ctx.add('L9.unbind-ends-the-driver', 'request arm|' + o.kind, loc(req['body']), o.kind in ('brk', 'ret'),
                'after an Unbind the driver loop goes on (path ends in `%s`%s): operations still waiting for a response are not failed but hang until the peer closes its side of the connection'
                % (o.kind, ', before the kind of operation is looked at: an Unbind takes this path too' if id(o) in unlooked else (', taken when %s failed' % ' and '.join(common)) if common else ''))
    ctx.floor('L9', 'paths of the request arm for Unbind', n_unbind, 1)

    # ---- L6 a driver that hands the connection back (the one-operation mode used while StartTLS is negotiated: its caller keeps
    # the returned connection, and with it the routing maps) must not do so while a caller still waits for a reply: the waiting
    # operation's sender would stay alive inside the kept connection and the operation would hang instead of failing.  Decided on
    # the paths of the code that follows the driver loop (and of any `return Ok(..)` inside an arm): whenever such a path returns
    # Ok with the driver in it and the path is possible in a mode other than the continuous one, a reply has been handed to the operation: a flag is set which starts false and is set only where the response arm hands a reply to the
    # sender taken out of the result map (an empty result map is not enough: the request may not have been taken from the request
    # channel yet when the peer closes).  (`drive()`, the continuous mode's only caller, discards the value, which drops the maps.)
    import driver as drv
    modes = [it for it in f.items.values() if it.get('kind') == 'Enum' and it['path'].startswith('ldap3::conn::') and
             any(it['path'] in (inp or '') for inp in (f.items.get(C.loop_path, {}).get('inputs') or []))]
    keeps = []
    if modes and main_loop is not None:
        mode_ty = modes[0]['path']
        cont_variants = [v['name'] for v in modes[0]['variants'] if v['name'].lower().startswith('cont')]
        # the block that holds the loop: the statements after it and the tail expression
        holder = None
        for n, c in walk(L.root):
            if n['k'] == 'Block' and (any(st.get('e') is main_loop or st is main_loop or st.get('init') is main_loop for st in n.get('stmts', [])) or n.get('expr') is main_loop):
                holder = n
        tail_outs = []
        if holder is not None:
            idx = next((i for i, st in enumerate(holder.get('stmts', [])) if st.get('e') is main_loop or st is main_loop or st.get('init') is main_loop), None)
            after = holder['stmts'][idx + 1:] if idx is not None else []
            tail = {'k': 'Block', 'stmts': after, 'expr': holder.get('expr') if idx is not None else None, 'id': 'tail', 'ty': holder.get('ty'), 'sp': holder.get('sp')}
            I = absx.Interp(f, L, result_combinators=True)
            env = I.param_env()
            for b, d in L.defs.items():
                if d['kind'] == 'let' and d.get('src') is not None and d['src'].get('k') == 'Path' and d['src'].get('res') == 'local' and d['src']['bind'] in env and not d['proj']:
                    env[b] = env[d['src']['bind']]
            tail_outs = [o for o in I.ev(tail, absx.St(env)) if o.kind in ('val', 'ret')]
        arm_rets = []
        for role in C.arms:
            if isinstance(C.arms[role], dict):
                arm_rets += [o for o in drv.arm_paths(C, role)[0] if o.kind == 'ret']
        def hands_back(v):
            v = drv.norm_self(v)
            return v[0] == 'ctor' and v[1] == 'Ok' and sem.has(v, lambda x: x == drv.SELF)
        def continuous_only(o):
            for a, t in o.st.pc:
                if a[0] == 'is' and a[1][0] == 'param' and a[2].rsplit('::', 1)[-1] in cont_variants and t:
                    return True
                if a[0] == 'is' and a[1][0] == 'param' and a[2].startswith(mode_ty.rsplit('::', 1)[-1] + '::') and a[2].rsplit('::', 1)[-1] not in cont_variants and t is False and len(modes[0]['variants']) == 2:
                    return True
            return False
        _flag = {}
        def answered_flag(b):
            """(holds, why not): the local b is a flag with the invariant  b  =>  a reply has been handed to a waiting operation.
            Decided by induction over the iterations of the driver loop, on the enumerated paths of the select! arms - not on how
            the assignments are spelled (`b = true` inside the `Some` arm, `b |= matched` / `b = b || matched` with `matched` the
            value of a `match` on the lookup, `if matched { b = true }` after it, a flattened arm whose `None` alternative left
            by `continue`: all give the same paths):
              base   b is declared outside the loop and starts false;
              step   every arm is evaluated with b = false on entry (when b is already true the invariant holds whatever the arm
                     does: a reply handed over stays handed over).  On every path that leaves the arm with b anything but false,
                     the path has sent a reply on the sender it took out of the result map under the ID decoded from the message
                     at hand (the lookup answered Some on that path) - the one event that answers a single-result operation;
              frame  nothing else writes b: every assignment lies inside an arm (and so on its paths), and no `&mut` of it is
                     handed to code the paths do not show (mem::take / mem::replace on it are modelled)."""
            if b in _flag:
                return _flag[b]
            _flag[b] = res = _answered_flag(b)
            return res
        def _answered_flag(b):
            d = L.defs.get(b)
            if d is None or d.get('kind') != 'let' or d['proj'] or d.get('src') is None:
                return False, 'it is not a plain local with an initial value'
            if main_loop is None or any(x is d['node'] for x, _ in walk(main_loop)):
                return False, 'it is declared inside the loop: it does not carry anything from one message to the next'
            init = [o for o in absx.Interp(f, L, result_combinators=True).ev(d['src'], absx.St({}))]
            if len(init) != 1 or init[0].kind != 'val' or init[0].val != absx.FALSE:
                return False, 'it does not start as false'
            arm_node = {}
            for role, a in C.arms.items():
                if isinstance(a, dict):
                    for x, _ in walk(a['body']):
                        arm_node[id(x)] = role
            for a in L.assigns.get(b, []):
                if id(a) not in arm_node:
                    return False, 'it is assigned at %s, outside the select! arms (not on their enumerated paths)' % loc(a)
            for x, c in walk(L.root):
                if x['k'] == 'AddrOf' and x.get('mut') and hirq.local_of(x['e']) == b:
                    par = c[-1][0] if c else None
                    if not (par is not None and par['k'] == 'Call' and (callee_of(par) or '') in ('core::mem::take', 'core::mem::replace') and par['args'] and par['args'][0] is x):
                        return False, 'a mutable reference to it is handed on at %s' % loc(x)
                if x['k'] == 'Closure' and any(y['k'] == 'Path' and y.get('res') == 'local' and y.get('bind') == b for y, _ in walk(x)) and id(x) != id(L.root):
                    return False, 'a closure captures it at %s' % loc(x)
            for role, a in C.arms.items():
                if not isinstance(a, dict):
                    if any(id(x) in {id(n) for n in L.assigns.get(b, [])} for arm in a for x, _ in walk(arm['body'])):
                        return False, 'it is assigned in an arm of the select! that is not one of the driver\'s four'
                    continue
                for o in drv.arm_paths(C, role, locals_={b: absx.FALSE})[0]:
                    if o.kind == 'div':
                        continue
                    v = o.st.env.get(b)
                    if v == absx.FALSE:
                        continue
                    if not drv.replies_to_registered(C, o, drv.DECODED_ID, 'result', taken_out=True):
                        pcs = ', '.join(('' if t else 'not ') + absx.fmt(sem.strip_site(x))[:70] for x, t in o.st.pc if x[0] == 'is' and x[1][0] == 'call')
                        return False, ('a path of the %s arm leaves it %s without having handed a reply to the operation registered under the decoded message ID%s'
                                       % (role, 'true' if v == absx.TRUE else 'possibly true (%s)' % absx.fmt(v)[:40], (' (path: %s)' % pcs) if pcs else ''))
            return True, ''
        def no_waiter(o):
            # (a) a flag that records "the reply has been handed over" is set on this path
            why = None
            for a, t in o.st.pc:
                if a[0] == 'unbound' and t is True:
                    ok, w = answered_flag(a[1])
                    if ok:
                        return True, ''
                    why = 'the flag `%s` it relies on does not mean "answered": %s' % (a[2], w)
            # (b) the path itself (a `return Ok(..)` inside the response arm) has handed a reply to the sender taken out of the result map under the decoded ID
            if drv.replies_to_registered(C, o, drv.DECODED_ID, 'result', taken_out=True):
                return True, ''
            return False, why or 'the path tests no flag that records a delivered reply, and delivers none itself'
        for o in tail_outs + arm_rets:
            if not hands_back(o.val) or continuous_only(o):
                continue
            keeps.append(o)
            nw, why = no_waiter(o)
            ctx.add('L6.handed-back-connection-holds-no-waiter', 'after the loop|%s' % ','.join(('' if t else '!') + absx.fmt(a)[-40:] for a, t in o.st.pc)[:100], loc(main_loop), nw,
                    'in the one-operation mode the driver returns the connection to a caller that keeps it (StartTLS set-up) on a path that has not '
                    'established that the operation was answered: when the peer closes, or sends something else, before answering, the pending operation\'s sender '
                    'stays alive in the returned connection and connection establishment waits forever [%s]' % why)
        ctx.floor('L6', 'paths handing the connection back outside the continuous mode', len(keeps), 1)

    # ---- L7 the transport wrapper hands every AsyncRead / AsyncWrite call to the stream it wraps (Unbind's shutdown and close end there)
    transport_delegation(ctx, f)

def transport_delegation(ctx, f, rule='L7'):
    """The transport enum (the type the Framed sink is built over) implements AsyncRead / AsyncWrite by handing each call to the
    stream it wraps.  Every path of every such method must be the call of the *same* trait method on the payload of one variant,
    with the method's own remaining parameters in order; each variant must have its path.  (A poll_shutdown that lands in
    poll_flush never closes that kind of transport; a poll_read that lands in another variant's stream reads nothing.)"""
    impls = [p for p, it in f.items.items() if it.get('kind') == 'AssocFn' and (it.get('impl_trait_def') or '').startswith('tokio::io::')
             and (it.get('impl_self') or '').startswith('ldap3::') and p in f.hir]
    n = 0
    for p in sorted(impls):
        it = f.items[p]
        ty = f.items.get(it['impl_self'])
        if ty is None or ty.get('kind') != 'Enum':
            continue
        B = hirq.Body(f, f.hir[p])
        ctx.analysed['bodies'].add(p)
        meth = p.rsplit('::', 1)[-1]
        trait = it['impl_trait_def']
        outs, I = sem.paths(f, B, result_combinators=True)
        params = [v for k, v in sorted(I.param_env().items(), key=lambda kv: [int(x) for x in kv[0].split('.')])]
        seen = set()
        for o in outs:
            n += 1
            v = o.val
            ok, why = False, 'the method does not end in a call'
            if o.kind in ('val', 'ret') and v and v[0] == 'call':
                callee, args = v[1], v[2]
                same = callee.endswith(' as %s>::%s' % (trait, meth)) or callee == '%s::%s' % (trait, meth)
                var = absx.leaves(args[0], lambda x: x[0] == 'variant' and len(x) == 4 and sem.has(x[1], lambda y: y == params[0])) if args else []
                if not same:
                    why = 'it calls %s, which is not %s::%s of the wrapped stream' % (callee.rsplit(' as ', 1)[-1].replace('>::', '::') if ' as ' in callee else callee, trait.rsplit('::', 1)[-1], meth)
                elif not var:
                    why = 'the receiver is not the stream wrapped by the matched variant'
                elif tuple(args[1:]) != tuple(params[1:]):
                    why = 'the remaining arguments are not this method\'s own parameters in order'
                else:
                    ok = True
                    seen.add(var[0][2])
                    # the variant delegated to is the variant the path matched
                    pcv = [a[2] for a, t in o.st.pc if t and a[0] == 'is']
                    if pcv and var[0][2] not in pcv:
                        ok, why = False, 'the path matched %s but delegates to the stream of %s' % (pcv[-1], var[0][2])
            ctx.add(rule + '.transport-method-delegates', '%s|%s' % (meth, '&'.join(sorted(a[2] for a, t in o.st.pc if t and a[0] == 'is')) or 'last variant'), loc(B.root), ok,
                    '%s of the transport wrapper: %s' % (meth, why))
        variants = set('%s::%s' % (it['impl_self'].rsplit('::', 1)[-1], v['name']) for v in ty['variants'])
        ctx.add(rule + '.transport-method-covers-variants', meth, loc(B.root), variants <= seen,
                '%s of the transport wrapper has no delegating path for %s' % (meth, sorted(variants - seen)))
    ctx.floor(rule, 'delegating paths of the transport wrapper (AsyncRead/AsyncWrite for ConnType)', n, 8)

def consumption(B, n, c):
    """How the result of node n is consumed: 'try', 'match-err-returns', 'logged', 'unwrapped', 'ignored', 'other'."""
    node = n
    for a, role in reversed(c):
        k = a['k']
        if k == 'Await' and role == 'e':
            node = a; continue
        if k == 'Call' and (callee_of(a) or '') == 'tokio::time::timeout::timeout':
            node = a; continue
        if k == 'Try':
            return 'try'
        if k == 'MethodCall' and role == 'recv':
            if a['name'] in ('unwrap', 'expect', 'unwrap_or', 'unwrap_or_default', 'unwrap_unchecked'):
                return 'unwrapped'
            if a['name'] in ('map_err', 'map', 'and_then', 'or_else'):
                node = a; continue
            if a['name'] in ('ok', 'is_ok', 'is_err'):
                return 'ignored'
            return 'other'
        if k == 'LetExpr' and role == 'init':
            if hirq.pat_variant(a['pat']) == 'Err':
                return 'logged'
            return 'match-err-returns'
        if k == 'Match' and role == 'scrut':
            for arm in a['arms']:
                if hirq.pat_variant(arm['pat']) in ('None', 'Err') and any(x['k'] == 'Ret' for x, _ in walk(arm['body'])):
                    return 'match-err-returns'
            return 'other'
        if k == 'Let' and role == 'init':
            bs = list(hirq.pat_bindings(a['pat']))
            if len(bs) == 1:
                return binding_consumption(B, bs[0][0])
            return 'other'
        if k == 'Semi':
            return 'ignored'
        if k == 'Expr':
            node = a; continue
        if k == 'Block':
            if a.get('expr') is node:
                node = a; continue
            return 'other'
        if k == 'If' and role in ('then', 'els'):
            node = a; continue
        if k in ('Closure',):
            return 'other'
        node = a
    return 'other'

def binding_consumption(B, b):
    res = set()
    for n, c in walk(B.root):
        if n['k'] == 'Path' and n.get('bind') == b:
            anc, role = c[-1]
            if anc['k'] == 'Try':
                res.add('try')
            elif anc['k'] == 'MethodCall' and role == 'recv' and anc['name'] in ('is_err', 'is_ok'):
                continue
            elif anc['k'] == 'Match' and role == 'scrut':
                good = any(hirq.pat_variant(arm['pat']) in ('None', 'Err') and any(x['k'] == 'Ret' for x, _ in walk(arm['body'])) for arm in anc['arms'])
                res.add('match-err-returns' if good else 'other')
            elif anc['k'] == 'MethodCall' and role == 'recv' and anc['name'] in ('unwrap', 'expect'):
                res.add('unwrapped')
            else:
                res.add('other')
    if res == {'try'}:
        return 'try'
    if res == {'match-err-returns'}:
        return 'match-err-returns'
    if 'unwrapped' in res:
        return 'unwrapped'
    return 'other' if res else 'ignored'
