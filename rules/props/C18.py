"""C18 - connection setup honours the URL and fails cleanly on bad input."""
import os
from facts import walk, callee_of, call_args, loc
import hirq, anchors, absx, cone, engine, sem, strdom

EXPLANATION = ("U1 panic-source cone (MIR call graph) from the eight public constructors, stopped at the operation issue point and the "
               "driver loop (what lies behind them is driven by server data and decided by C11): every diverging call, Assert terminator "
               "and may-panic external call must be absent or reviewed in rules/triage/C18.tsv; U2 all paths of the TCP constructor: the "
               "address connected to is `<host>:<port>` with host = the URL's host, or localhost when it is absent or empty, and port = "
               "the URL's port, else 389 for ldap and 636 for ldaps; any other scheme returns UnknownScheme; the mode of every connection handed back, read off the path's events, is the scheme's: ldaps = TLS from the first byte whatever the StartTLS setting says, ldap = StartTLS exactly when the setting is requested, cleartext otherwise (the setting as the path found it: a getter applied after builder calls is resolved by the meaning of the builder interface, not by where the test sits); ldapi goes to the Unix "
               "constructor; U3 the Unix constructor: empty path -> EmptyUnixPath, ':' in the path -> PortInUnixPath; the FUNCTION from the URL's host string to the path handed to UnixStream::connect is exactly one percent-decoding D (percent_decode / percent_decode_str + decode_utf8_lossy / decode_utf8; text-preserving conversions looked through; helpers introduced later are expanded, so a decoding inside a helper and one at the call site compose visibly): D(host) - host itself or D(D(host)) name another file (`%2541` names `%41`, twice decoded dials `A`); the emptiness test is made on the host string (or its one decoding, empty exactly when the host is), the ':' test on the UNDECODED host (an encoded `%3A` is part of the path); and the same function is decided a second time by exact evaluation on literal hosts that tell the candidates apart (rules/strdom.py, the decoder evaluated exactly on literals; an empty or absent host together with a port is not a value a Url can hold - url 2.x refuses it - so which error such a path answers is not observable); "
               "a pre-opened Unix stream is accepted and a TCP/invalid one is MismatchedStreamType; the "
               "TCP constructor accepts a pre-opened TCP stream and rejects the others; U4 when a connection timeout is set the future of "
               "the whole TCP constructor (which contains StartTLS and the handshake) is wrapped in tokio::time::timeout with that duration "
               "and expiry is propagated as an error; U6 every builder method of the settings struct, evaluated on literals in every reachable state of the struct (the states enumerated from the constructors by the builder methods themselves), leaves every other setting reading as before - StartTLS through its getter, the verification setting in the default connector - and every opaque field (timeout, connector, stream) `self`'s own; how the struct keeps its settings (a bool each, bits of a flags byte) is not read (a method that resets another setting drops what was requested before it in the chain); U6.request-recorded after set_x(v) every Option-valued setting x (connection timeout, pre-opened stream, the caller's connector / configuration) reads v - the payload its consumer takes out of the field is the setter's argument - from every reachable state, the one in which x was already set included (Option's `&mut self` methods are modelled exactly: `= Some(v)`, replace, insert, mem::replace are the same, get_or_insert keeps the first value and is reported). Not decided: unreachable endpoints (OS behaviour); the url crate's parser.")
TRUSTED = ['url crate parsing', 'OS connect behaviour', 'rules/triage/C18.tsv']
UNDECIDED = ['unreachable endpoints (OS)', 'exotic URL strings inside the url crate']
ASSUMPTIONS = ['code behind the operation issue point / driver loop is driven by server data, not by URL or settings (C11)']
SHARED = [('C14', ('T.',), 'U5.sync-constructors')]
TRIAGE = os.path.join(engine.VERIF, 'rules', 'triage', 'C18.tsv')
AC = 'ldap3::conn::LdapConnAsync::'

def strip_site(t):
    """call-site ids removed, and a value taken out of a place (`Option::take`, `mem::take`) read as the value the place held: the
    rules below ask what was tested about the pre-opened stream / which value flows where, however it was moved out of the settings"""
    if isinstance(t, tuple):
        if t and t[0] == 'call' and len(t) == 4:
            if t[1] == absx.Interp.TAKE and len(t[2]) == 1:
                return strip_site(t[2][0])
            return ('call', t[1], tuple(strip_site(x) for x in t[2]), None)
        return tuple(strip_site(x) for x in t)
    return t

def one_param(ctx, f, B, what, pred):
    """the parameter of a constructor anchored by its type"""
    ps = sem.params_of_type(f, B, pred)
    ctx.add('U0.parameter', '%s of %s' % (what, B.path.rsplit('::', 1)[-1]), loc(B.root), len(ps) == 1, 'no single parameter of type %s: anchor lost' % what)
    return ('param', ps[0] if ps else what)


def check_setters(ctx, f, R):
    """U6 - "every settings combination": the settings are assembled by chaining the public builder methods, in any order, so a
    combination reaches connection setup only if every builder method leaves all the *other* settings as it found them.  Each public
    `fn(LdapConnSettings, T) -> LdapConnSettings` is evaluated in every reachable state of the settings struct, with every argument
    (anchors.ConnSettings: the state fields of `self` hold literals, exhaustively): afterwards every other setting *reads* as it did
    before the call - StartTLS through the public getter, the verification setting in the default connector of the handshake helper;
    how the struct keeps them (a bool each, one bit each of a flags byte) is not read - and every field that holds an opaque value
    (timeout, connector, pre-opened stream) is `self`'s own.  A method that fills another setting from somewhere else
    (`..Default::default()` as the base of a struct-update, a constant, `flags &= BIT` for `flags &= !BIT`) silently undoes what
    was requested before it in the chain: the timeout, StartTLS, the verification setting, the caller's connector."""
    n = 0
    bool_roles = [r for r in R.setter if r in R.BOOL]
    # scalar state fields that no setter of a setting with a reader ever changes have no reader to be judged through: compared as they are
    role_owned = {F for t in R.trans if R.role_of_setter.get(t['setter']) in R.BOOL for F in R.S if t['state'][F] != R.nodes[t['node']]['state'][F]}
    for p in sorted(R.effects):
        eff = R.effects[p]
        nm = p.rsplit('::', 1)[-1]
        where = loc(f.body(p)['body'])
        if 'unreadable' in eff:
            ctx.fail('U6.setter-preserves-other-settings', nm, where, 'the builder method %s could not be read as a settings value built from `self` and its argument (%s): what it does to the other settings is not decided' % (nm, eff['unreadable'][:120]))
            continue
        n += 1
        lost = []
        for F, t in sorted(eff['resets'].items()):
            role = R.role_of_field(F)
            lost.append('%s%s becomes %s' % (F, ' (what %s recorded)' % R.setter[role].rsplit('::', 1)[-1] if role in R.setter else '', absx.fmt(t)[:30]))
        own_role = R.role_of_setter.get(p)
        ts = [t for t in R.trans if t['setter'] == p]
        # the scalar fields an unlisted bool setter distinguishes its two arguments in are its own
        own_scalar = {F for t in ts for u in ts if t['node'] == u['node'] and t['arg'] is not u['arg'] for F in R.S if t['state'][F] != u['state'][F]} if own_role is None else set()
        said = set()
        for t in ts:
            before_st = R.nodes[t['node']]['state']
            if t['state'] == before_st:
                continue        # the same scalar state: every reader answers what it answered before
            for r in bool_roles:
                if r == own_role or r in said:
                    continue
                b, a = R.read(r, before_st)[0], R.read(r, t['state'])
                if a[0] is None and b is None:
                    continue    # a reader the analysis can decide neither before nor after the call is the reader's problem (reported by C17 W4 / W7 in every state)
                if a[0] is None or a[0] != b:
                    said.add(r)
                    lost.append('%s after %s: what %s recorded reads %s%s, it read %s before the call' % (
                        t['call'], R.where(t['node']), R.setter[r].rsplit('::', 1)[-1], {True: 'true', False: 'false', None: 'undecided'}[a[0]], ' (%s)' % a[1] if a[0] is None else '', {True: 'true', False: 'false', None: 'undecided'}[b]))
            for F in R.S:
                if F not in role_owned and F not in own_scalar and F not in said and t['state'][F] != before_st[F]:
                    said.add(F)
                    lost.append('%s after %s: %s becomes %s' % (t['call'], R.where(t['node']), F, absx.fmt(t['state'][F])[:30]))
        own = eff['own'] or (R.setter.get(own_role) and 'the %s setting' % own_role) or 'its own setting'
        ctx.add('U6.setter-preserves-other-settings', nm, where, not lost,
                '%s() does not only set its own setting (%s): %s - what was set before it in the builder chain is silently dropped (LdapConnSettings::new().<the other setter>(x).%s(..) behaves as if <the other setter> had never been called)' % (
                    nm, own, '; '.join(lost), nm))
    ctx.floor('U6', 'builder methods of the settings struct evaluated', n, 2)      # without a TLS back end: set_conn_timeout, set_std_stream
    check_requests_recorded(ctx, f, R)

def check_requests_recorded(ctx, f, R):
    """U6.request-recorded - "crossed with all settings (StartTLS, pre-opened stream, timeout)": a settings value is whatever a chain
    of builder calls leaves, and the documented contract of the builder interface is that a setter called again replaces the value.
    For every Option-valued setting x (connection timeout, pre-opened stream, the caller's connector / configuration): after
    `set_x(v)` the setting reads v FROM EVERY REACHABLE STATE of the settings - every reachable scalar state, and both cases of
    x's own field: not yet set, and already set by an earlier call (anchors.ConnSettings: the setter's paths are enumerated, Option's
    `&mut self` methods modelled exactly, so `= Some(v)`, `replace(v)`, `insert(v)`, `mem::replace(.., Some(v))` are one and the same
    and `get_or_insert(v)` is not).  What x *reads* is what its consumer takes out of the field (the payload of Some): the duration
    from_url_with_settings hands to the timeout (U4), the stream new_tcp / new_unix use (U3), the connector of the handshake helper
    (C17 W4).  (C17 W7.request-recorded states the same for the bool settings.)"""
    n = 0
    for role in sorted(R.OPT):
        if role not in R.field:
            continue
        F = R.field[role]
        for p in sorted(q for q in R.setter_paths if R.role_of_setter.get(q) == role and 'unreadable' not in R.effects.get(q, {})):
            nm = p.rsplit('::', 1)[-1]
            ts = [t for t in R.trans if t['setter'] == p and R.feasible(t)]
            bad, said = [], set()
            for t in ts:
                got = R.opt_reading(role, t)
                if got == ('arg',):
                    continue
                case = R.prior_case(t, F)
                key = (got[0], case)
                if key in said:
                    continue
                said.add(key)
                state = {'Some': 'with %s already set (%s.%s(a).%s(%s))' % (F, R.where(t['node']), R.setter[role].rsplit('::', 1)[-1], nm, t['argname']),
                         'None': 'with %s not yet set (%s.%s(%s))' % (F, R.where(t['node']), nm, t['argname']),
                         None: 'after %s, whatever %s held' % (R.where(t['node']), F)}[case]
                what = {'earlier': 'the setting keeps the earlier value `a`: the first value set sticks and this call is ignored',
                        'unset': 'the setting stays unset: the call is ignored',
                        'as-before': 'the field is left as it was found',
                        'other': 'the field holds %s' % absx.fmt(got[1])[:60] if len(got) > 1 else ''}[got[0]]
                bad.append('%s %s' % (state, what))
            n += 1
            ctx.add('U6.request-recorded', nm, loc(f.body(p)['body']), bool(ts) and not bad,
                    '%s(%s) does not make the setting read `%s` from every reachable state of the settings: %s - %s is not what the caller asked for last (%d of %d setter paths over the reachable states)' % (
                        nm, ts[0]['argname'] if ts else '..', ts[0]['argname'] if ts else '..', '; '.join(bad) or 'the setter has no feasible path', R.OPT_READER[role], len([t for t in ts if R.opt_reading(role, t) != ('arg',)]), len(ts)))
    ctx.floor('U6.request-recorded', 'Option-valued setters evaluated (timeout, pre-opened stream; connector / configuration with a TLS back end)', n, 2)

# ---- U3: the function from the URL's host string to the path that is dialled

PCT = ('percent_encoding::percent_decode', 'percent_encoding::percent_decode_str')
SAME_TEXT = ('as_ref', 'as_str', 'as_bytes', 'as_mut', 'deref', 'borrow', 'to_string', 'to_owned', 'into_owned', 'into', 'from', 'clone', 'to_vec', 'into_bytes', 'into_string', 'as_os_str', 'as_path')

def decodings(t, host):
    """t read as D^n(host): D = one percent-decoding, `percent_decode(x) / percent_decode_str(x)` followed by `.decode_utf8_lossy()`
    or by the Ok payload of `.decode_utf8()`; conversions between the string types that keep the text (SAME_TEXT: borrowing,
    owning, Cow / String / &str / &[u8] / Path views of the same octets) are looked through.  Returns (n, None) when t is exactly
    that, (n, rest) with the sub-term that is neither when it is not."""
    n = 0
    while True:
        if t == host:
            return n, None
        if t[0] == 'call' and len(t[2]) == 1 and t[1].rsplit('::', 1)[-1] in SAME_TEXT:
            t = t[2][0]; continue
        if t[0] == 'ctor' and t[1] in ('Cow::Borrowed', 'Cow::Owned', 'Borrowed', 'Owned') and len(t[2]) == 1:
            t = t[2][0]; continue
        if t[0] in ('ref', 'deref', 'cast') and len(t) >= 2 and isinstance(t[1], tuple):
            t = t[1]; continue
        d = None
        if t[0] == 'call' and t[1].endswith('::decode_utf8_lossy') and len(t[2]) == 1:
            d = t[2][0]
        elif t[0] == 'variant' and t[2] == 'Ok' and t[3] == 0 and t[1][0] == 'call' and t[1][1].endswith('::decode_utf8') and len(t[1][2]) == 1:
            d = t[1][2][0]
        if d is not None and d[0] == 'call' and d[1] in PCT and len(d[2]) == 1:
            n += 1
            t = d[2][0]; continue
        return n, t

LITERAL_HOSTS = ['%2Ftmp%2Fa', '%2Ftmp%2Fa%2541', '%252F', 'sock', 'a%3Ab', '%2Ftmp%2F%C3%A9', '100%', '', '[::1]', None]

def check_unix_path_function(ctx, f, U, USETT, F_STREAM):
    """U3.path-function - "ldapi to the percent-decoded Unix socket path", decided a second time by exact evaluation on literal host
    strings that tell the candidates apart (rules/strdom.py: str functions and the percent-decoder evaluated exactly on literals;
    nothing is executed): a path that needs decoding, one whose decoded form still contains an escape (`%2541` names `%41`: decoding
    once gives `%41`, twice gives `A`, not at all leaves `%2541`), `%252F`, a host without escapes, an encoded colon (part of the
    path, not a port), a non-ASCII octet pair, a lone `%`, the empty host, a host with ':' and an absent host.  With no pre-opened
    stream: the socket dialled is exactly the one decoding of the host (Url::port() absent), EmptyUnixPath for the empty / absent
    host, PortInUnixPath for a ':' in the undecoded host or a port, and nothing is dialled on an error path."""
    dom = strdom.StrDomain(f)
    ss = ('field', USETT, F_STREAM)
    def reduce(t):
        if t[0] == 'variant' and t[2] == 'Ok' and t[3] == 0 and t[1][0] == 'utf8' and t[1][1][0] == 'lit':
            d = strdom.pct_decode_exact(t[1][1][1])
            return ('lit', d) if d is not None else t
        if t[0] == 'call' and len(t[2]) == 1 and t[1].rsplit('::', 1)[-1] in SAME_TEXT:
            return reduce(t[2][0])
        return t
    n = 0
    for host in LITERAL_HOSTS:
        def inputs(I, cal, args, node, st, host=host):
            if cal == 'url::Url::host_str' and len(args) == 1:
                return [absx.Out('val', strdom.NONE if host is None else strdom.some(('lit', host)), st)]
            return None
        outs = absx.Interp(f, U, summaries=[inputs, dom.summary], unroll=1, combinators=True, domain=dom).run(root=U.root['body'] if U.root['k'] == 'Closure' else U.root)
        shown = 'an absent host' if host is None else 'host `%s`' % host
        want_err = 'LdapError::EmptyUnixPath' if not host else 'LdapError::PortInUnixPath' if ':' in host else None
        want_path = None if want_err else strdom.pct_decode_exact(host)
        dialled = 0
        for o in outs:
            pcs = [(strip_site(a), t) for a, t in o.st.pc]
            if absx.pc_variant(pcs, lambda v: v == ss, 'None') is not True:
                continue
            n += 1
            v = strip_site(o.val)
            if v[0] == 'tryerr' and v[1][0] == 'ctor' and v[1][1] == 'Err':
                v = v[1]
            con = [e for e in o.st.ev if e[0] == 'call' and e[1].endswith('UnixStream::connect')]
            port = absx.pc_variant(pcs, lambda v: v[0] == 'call' and v[1] == 'url::Url::port', 'Some')
            err = v[2][0][1] if o.kind == 'ret' and v[0] == 'ctor' and v[1] == 'Err' and v[2][0][0] == 'ctor' else None
            if want_err or port is True:
                w = want_err or 'LdapError::PortInUnixPath'
                # (an empty or absent host together with a port is not a value a Url can hold - url 2.x: "Port with an empty host"
                # is ParseError::EmptyHost, set_port refuses a URL without host - so which of the two errors such a path of the
                # constructor answers is not observable; the url crate's parser is trusted)
                either = not host and port is True and err in ('LdapError::EmptyUnixPath', 'LdapError::PortInUnixPath')
                ctx.add('U3.path-function', '%s|error' % (host,), loc(U.root), (err == w or either) and not con,
                        'for %s%s the Unix constructor %s; expected %s and no connection' % (shown, ' with a port' if port is True and not want_err else '',
                            'dials %s' % absx.fmt(strip_site(con[0][2][0]))[:60] if con else 'answers %s' % (err or absx.fmt(v)[:50]), w.split('::')[-1]))
                continue
            if not con:
                ctx.add('U3.path-function', '%s|dial' % (host,), loc(U.root), False,
                        'for %s (no port) a path of the Unix constructor ends in %s without dialling' % (shown, err or absx.fmt(v)[:50]))
                continue
            dialled += 1
            got = reduce(strip_site(con[0][2][0]))
            twice = strdom.pct_decode_exact(want_path) if want_path is not None else None
            why = ('it is not reduced to a literal: %s' % absx.fmt(got)[:80] if got[0] != 'lit' else
                   'the path is not decoded at all' if got[1] == host and host != want_path else
                   'the path is decoded twice: the file `%s` is named, `%s` is dialled' % (want_path, got[1]) if got[1] == twice and twice != want_path else
                   'it dials `%s`' % (got[1],))
            ctx.add('U3.path-function', '%s|dial' % (host,), loc(con[0][3]), got == ('lit', want_path),
                    'for %s the socket path must be its one percent-decoding `%s`: %s' % (shown, want_path, why))
        if not want_err:
            ctx.add('U3.path-function', '%s|coverage' % (host,), loc(U.root), dialled >= 1, 'for %s no path of the Unix constructor dials a socket' % shown)
    ctx.floor('U3.path-function', 'paths of the Unix constructor evaluated on literal hosts (no pre-opened stream)', n, 2 * len(LITERAL_HOSTS))


def check_mode(ctx, f, B, outs, sc, SETT, R):
    """U2.mode-per-scheme - "ldap URLs connect over TCP ..., ldaps over TLS": which protection a connection gets is decided by the
    scheme, and for `ldap` by the StartTLS setting.  On every path of the TCP constructor that hands back a connection, the mode -
    read off the events of the path: no handshake = cleartext; the StartTLS exchange, then the handshake = StartTLS; the handshake
    with no LDAP operation before it = TLS from the first byte - is
        ldap,  StartTLS not requested  -> cleartext            ldap, StartTLS requested -> StartTLS
        ldaps, whatever the setting    -> TLS from the first byte
    An `ldaps://` URL combined with set_starttls(true) must not dial the LDAPS port and then talk cleartext LDAP to it (the StartTLS
    request): a TLS listener answers that with an alert, an attacker in the path with whatever he likes.  The setting as the path
    found it is read from the path condition (the getter applied to the caller's settings; a call of set_starttls in between is
    accounted for by the builder algebra), not from where in the function the test sits."""
    GET = R.GETTER['starttls']
    seen = set()
    for o in outs:
        if not (o.kind in ('val', 'ret') and o.val[0] == 'ctor' and o.val[1] == 'Ok'):
            continue
        pcs = [(strip_site(a), t) for a, t in o.st.pc]
        schemes = {a[3][1]: t for a, t in pcs if a[0] == 'bin' and a[1] == 'Eq' and a[2] == sc and a[3][0] == 'lit'}
        scheme = 'ldap' if schemes.get('ldap') else 'ldaps' if schemes.get('ldaps') else '?'
        asked = next((t for a, t in pcs if a[0] == 'call' and a[1] == GET and a[2] == (SETT,)), None)
        hs = [i for i, e in enumerate(o.st.ev) if e[0] == 'call' and e[1].endswith('LdapConnAsync::create_tls_stream')]
        ops = [(i, e) for i, e in enumerate(o.st.ev) if e[0] == 'call' and e[1].startswith('ldap3::ldap::Ldap::') and e[1] != 'ldap3::ldap::Ldap::clone' and (not hs or i < hs[0])]
        is_starttls = lambda e: e[1] == 'ldap3::ldap::Ldap::extended' and e[2][1] in (('ctor', 'starttls::StartTLS', ()), ('const', 'ldap3::exop_impl::starttls::StartTLS'))
        mode = 'cleartext' if not hs else 'TLS from the first byte' if not ops else 'StartTLS' if all(is_starttls(e) for i, e in ops) else 'LDAP operations in cleartext, then TLS'
        want = 'TLS from the first byte' if scheme == 'ldaps' else {True: 'StartTLS', False: 'cleartext'}.get(asked, 'decided by the StartTLS setting') if scheme == 'ldap' else 'none (unknown scheme)'
        key = '%s|starttls setting=%s' % (scheme, {True: 'requested', False: 'not requested', None: 'not consulted'}[asked])
        seen.add((scheme, mode))
        ctx.add('U2.mode-per-scheme', key, loc(B.root), mode == want,
                'for an %s URL with the StartTLS setting %s the TCP constructor hands back a connection in mode "%s"; the scheme calls for "%s"%s' % (
                    scheme, {True: 'requested', False: 'not requested', None: 'not consulted'}[asked], mode, want,
                    ': `ldaps://` + set_starttls(true) dials the LDAPS port and sends a cleartext StartTLS request to it' if scheme == 'ldaps' and mode == 'StartTLS' else ''))
    needs = [('ldap', 'cleartext')] + ([('ldap', 'StartTLS'), ('ldaps', 'TLS from the first byte')] if R.TS in f.hir else [])
    for need in needs:
        ctx.add('U2.mode-coverage', '%s|%s' % need, loc(B.root), need in seen, 'no path of the TCP constructor hands back an %s connection in mode "%s"' % need)


def run(ctx):
    f = ctx.facts
    C = anchors.Conn(f)
    # ------------------------------------------------------------------ U1
    G = cone.Graph(f, engine.REPO)
    entries = [AC + n for n in ('new', 'with_settings', 'from_url', 'from_url_with_settings')]
    entries += [p for p in ('ldap3::sync::LdapConn::new', 'ldap3::sync::LdapConn::with_settings', 'ldap3::sync::LdapConn::from_url', 'ldap3::sync::LdapConn::from_url_with_settings') if p in f.mir]
    stop = {C.op_call_path, C.op_call_path + '::{closure#0}', C.loop_path, C.loop_path + '::{closure#0}'}
    saved = {p: G.edges[p] for p in stop if p in G.edges}
    for p in saved:
        G.edges[p] = []
    parent = G.cone(entries)
    for p, e in saved.items():
        G.edges[p] = e
    inner = {p for p in parent if p in stop}
    srcs, ext = G.sources({p: v for p, v in parent.items() if p not in stop})
    ctx.analysed['bodies'].update(parent.keys())
    ctx.analysed['notes'].append({'external_callees': {k: list(v) for k, v in sorted(ext.items())}, 'cone_stopped_at': sorted(inner)})
    triage = cone.load_triage(TRIAGE)
    ctx._cone = (G, {p: v for p, v in parent.items() if p not in stop}, None, srcs)
    import controls
    controls.panic_cone(ctx)
    cone.judge(ctx, 'U1.panic-source', cone.group_keys(srcs), triage,
               lambda s: 'panic source reachable from connection setup (%s) via %s' % (s.kind, ' -> '.join(x.split('::')[-1] if '{closure' not in x else x.split('::')[-2] + '::{closure}' for x in G.chain(parent, s.fn))))
    ctx.floor('U1', 'bodies in the setup cone', len(parent), 10)

    # ------------------------------------------------------------------ U2 TCP constructor paths
    R = anchors.ConnSettings(f)         # the settings' private fields, each anchored as the field its public setter writes
    F_STREAM, F_TIMEOUT = R.field.get('std-stream'), R.field.get('conn-timeout')
    check_setters(ctx, f, R)
    ctx.add('U0.settings-fields', R.ST, '', F_STREAM is not None and F_TIMEOUT is not None, 'set_std_stream / set_conn_timeout do not write a field of the settings: anchor lost')
    is_url = lambda t: t == 'url::Url'
    is_settings = lambda t: t == R.ST
    B = hirq.Body(f, f.body(AC + 'new_tcp'))
    # (R.algebra: `settings.starttls()` after `settings = settings.set_starttls(false)` answers false - the meaning of the builder
    # interface, established by U6 / C17 W7 for every reachable state of the struct - wherever in the function the test sits)
    outs = absx.Interp(f, B, unroll=1, combinators=True, summaries=[R.algebra]).run(root=B.root['body'] if B.root['k'] == 'Closure' else B.root)
    URL, SETT = one_param(ctx, f, B, '&Url', is_url), one_param(ctx, f, B, 'LdapConnSettings', is_settings)
    hs = ('call', 'url::Url::host_str', (URL,), None)
    pt = ('call', 'url::Url::port', (URL,), None)
    sc = ('call', 'url::Url::scheme', (URL,), None)
    seen = set()
    n_conn = 0
    for o in outs:
        pcs = [(strip_site(a), t) for a, t in o.st.pc]
        schemes = {a[3][1]: t for a, t in pcs if a[0] == 'bin' and a[1] == 'Eq' and a[2] == sc and a[3][0] == 'lit'}
        scheme = 'ldap' if schemes.get('ldap') else 'ldaps' if schemes.get('ldaps') else 'other' if set(schemes) >= {'ldap'} and not any(schemes.values()) else '?'
        con = [e for e in o.st.ev if e[0] == 'call' and e[1] == 'tokio::net::tcp::stream::TcpStream::connect']
        if scheme == 'other':
            seen.add('unknown-scheme')
            v = strip_site(o.val)
            ok = o.kind == 'ret' and v[0] == 'ctor' and v[1] == 'Err' and v[2][0][0] == 'ctor' and v[2][0][1] == 'LdapError::UnknownScheme' and not con \
                and absx.leaves(v, lambda x: x == sc) != []
            ctx.add('U2.unknown-scheme-is-error', 'other', loc(B.root), ok, 'an unknown scheme must return UnknownScheme(<scheme>) without connecting')
            continue
        if not con:
            continue
        n_conn += 1
        has_host = any(a == ('is', hs, 'Some') and t for a, t in pcs) and any(a[0] == 'call' and a[1].endswith('::is_empty') and a[2][0] == ('variant', hs, 'Some', 0) and not t for a, t in pcs)
        has_port = next((t for a, t in pcs if a == ('is', pt, 'Some')), None)
        exp_host = ('variant', hs, 'Some', 0) if has_host else ('lit', 'localhost')
        exp_port = ('variant', pt, 'Some', 0) if has_port else ('lit', 389 if scheme == 'ldap' else 636)
        addr = strip_site(con[0][2][0])
        disp = [x[2][0] for x in absx.leaves(addr, lambda x: x[0] == 'call' and x[1].endswith('new_display'))]
        lits = [x for x in absx.leaves(addr, lambda x: x[0] == 'lit' and isinstance(x[1], (str, bytes)))]
        got = None
        if has_host:
            ok = disp == [exp_host, exp_port] and any(b':' in (x[1] if isinstance(x[1], bytes) else x[1].encode()) for x in lits)
            got = disp
        else:
            # format!("localhost:{}", port): the literal part carries the host
            ok = (disp == [exp_port] and any(b'localhost:' in (x[1] if isinstance(x[1], bytes) else x[1].encode()) for x in lits)) or \
                (disp == [exp_host, exp_port] and any(b':' in (x[1] if isinstance(x[1], bytes) else x[1].encode()) for x in lits))
            got = disp
        key = '%s|host=%s|port=%s' % (scheme, 'url' if has_host else 'missing', 'url' if has_port else 'default')
        seen.add(key)
        ctx.add('U2.address', key, loc(con[0][3]), ok, 'connects to an address built from %s; expected host %s and port %s' % ([absx.fmt(x)[:40] for x in got], absx.fmt(exp_host)[:40], absx.fmt(exp_port)))
    ctx.floor('U2', 'connecting paths', n_conn, 8)
    check_mode(ctx, f, B, outs, sc, SETT, R)
    has_tls = (AC + 'create_tls_stream') in f.hir
    needs = ['unknown-scheme', 'ldap|host=url|port=default', 'ldap|host=missing|port=default', 'ldap|host=url|port=url']
    if has_tls:
        needs += ['ldaps|host=url|port=default', 'ldaps|host=missing|port=url']
    for need in needs:
        ctx.add('U2.coverage', need, loc(B.root), need in seen, 'no path for ' + need)
    # stream kinds in the TCP constructor
    seen_kinds = set()
    for o in outs:
        pcs = [(strip_site(a), t) for a, t in o.st.pc]
        ss = ('field', SETT, F_STREAM)
        kinds = [a[2] for a, t in pcs if t and a[0] == 'is' and (a[1] == ss or a[1] == ('variant', ss, 'Some', 0))]
        if 'StdStream::Tcp' in kinds:
            fs = [e for e in o.st.ev if e[0] == 'call' and e[1].endswith('TcpStream::from_std')]
            con = [e for e in o.st.ev if e[0] == 'call' and e[1].endswith('TcpStream::connect')]
            if o.kind == 'val':
                seen_kinds.add('Tcp')
                ctx.add('U3.tcp-preopened-used', 'Tcp', loc(B.root), len(fs) == 1 and not con and strip_site(fs[0][2][0]) == ('variant', ('variant', ss, 'Some', 0), 'StdStream::Tcp', 0),
                        'a pre-opened TCP stream must be used instead of connecting')
        elif 'Some' in kinds and 'StdStream::Tcp' not in kinds:
            seen_kinds.add('non-Tcp')
            v = strip_site(o.val)
            if v[0] == 'tryerr' and v[1][0] == 'ctor' and v[1][1] == 'Err':
                v = v[1]            # `helper(..)?` propagating the helper's Err(x) is the same result as `return Err(x)`
            ok = o.kind == 'ret' and v == ('ctor', 'Err', (('ctor', 'LdapError::MismatchedStreamType', ()),))
            ctx.add('U3.tcp-mismatched-stream', 'non-Tcp', loc(B.root), ok, 'a pre-opened stream that is not TCP must be rejected with MismatchedStreamType')
    for need in ('Tcp', 'non-Tcp'):
        ctx.add('U3.coverage-tcp', need, loc(B.root), need in seen_kinds, 'no path of the TCP constructor for a pre-opened %s stream' % need)

    # a new connection is dialled only when the settings carry no pre-opened stream at all (whatever its kind: a cloned settings
    # value holds StdStream::Invalid); decided on the path condition of every dialling path, so a catch-all arm is seen
    n_dial = 0
    for o in outs:
        con = [e for e in o.st.ev if e[0] == 'call' and e[1].endswith('TcpStream::connect')]
        if not con:
            continue
        n_dial += 1
        ss = ('field', SETT, F_STREAM)
        # (the settings value may have gone through a builder call such as set_starttls(false) first: it is still the caller's)
        is_ss = lambda v: v[0] == 'field' and v[2] == F_STREAM and (v[1] == ss[1] or absx.leaves(v[1], lambda x: x == ss[1]) != [])
        none = absx.pc_variant([(strip_site(a), t) for a, t in o.st.pc], is_ss, 'None')
        ctx.add('U3.dial-only-without-preopened-stream', 'new_tcp', loc(con[0][3]), none is True,
                'the TCP constructor dials the URL\'s address on a path that has not established that no pre-opened stream was supplied: a stream of the wrong or invalid kind is silently ignored instead of being rejected with MismatchedStreamType')
    ctx.floor('U3.dial', 'dialling paths of the TCP constructor', n_dial, 4)

    # dispatcher
    D = hirq.Body(f, f.body(AC + 'from_url_with_settings'))
    ctx.analysed['bodies'].add(D.path)
    douts = absx.Interp(f, D, unroll=1, combinators=True).run(root=D.root['body'] if D.root['k'] == 'Closure' else D.root)
    DURL, DSETT = one_param(ctx, f, D, '&Url', is_url), one_param(ctx, f, D, 'LdapConnSettings', is_settings)
    sc = ('call', 'url::Url::scheme', (DURL,), None)
    seen = set()
    for o in douts:
        pcs = [(strip_site(a), t) for a, t in o.st.pc]
        ldapi = next((t for a, t in pcs if a == ('bin', 'Eq', sc, ('lit', 'ldapi'))), None)
        unix = [e for e in o.st.ev if e[0] == 'call' and e[1] == AC + 'new_unix']
        tcp = [e for e in o.st.ev if e[0] == 'call' and e[1] == AC + 'new_tcp']
        if ldapi is True:
            seen.add('ldapi')
            ctx.add('U2.ldapi-goes-to-unix', 'ldapi', loc(D.root), len(unix) == 1 and not tcp and unix[0][2] == (DURL, DSETT), 'ldapi must use the Unix constructor with (url, settings)')
            continue
        if len(tcp) != 1:
            ctx.fail('U2.tcp-constructor', 'non-ldapi', loc(D.root), 'non-ldapi URLs must go through the TCP constructor exactly once'); continue
        tfut = ('call', tcp[0][1], tcp[0][2], tcp[0][3].get('id'))
        tmo = [e for e in o.st.ev if e[0] == 'call' and e[1] == 'tokio::time::timeout::timeout']
        # (strip_site reads `settings.conn_timeout.take()` as the duration the settings held)
        tmo_field = ('field', DSETT, F_TIMEOUT)
        has_to = absx.pc_variant(pcs, lambda v: v == tmo_field, 'Some')
        ok_args = tcp[0][2][0] == DURL and tcp[0][2][1] == DSETT
        ctx.add('U2.tcp-constructor-arguments', 'timeout=%s' % has_to, loc(D.root), ok_args, 'the TCP constructor is not given (url, settings)')
        if has_to is True:
            seen.add('timed')
            ok = len(tmo) == 1 and tmo[0][2][1] == tfut and strip_site(tmo[0][2][0]) == ('variant', tmo_field, 'Some', 0)
            ctx.add('U4.timeout-wraps-establishment', 'conn_timeout set', loc(D.root), ok, 'the connection timeout must wrap the future of the whole TCP constructor with the configured duration')
            if o.kind in ('val',) and len(tmo) == 1:
                tt = ('await', ('call', tmo[0][1], tmo[0][2], tmo[0][3].get('id')))
                okp = any(a == ('is', strip_site(tt), 'Ok') and t for a, t in pcs)
                ctx.add('U4.expiry-is-error', 'conn_timeout set', loc(D.root), okp, 'an elapsed connection timeout is not propagated as an error')
        elif has_to is False:
            seen.add('untimed')
            ctx.add('U4.no-timeout-no-wrap', 'conn_timeout unset', loc(D.root), not tmo, 'timeout applied although none is configured')
    for need in ('ldapi', 'timed', 'untimed'):
        ctx.add('U4.coverage', need, loc(D.root), need in seen, 'no dispatcher path for ' + need)

    # ------------------------------------------------------------------ U3 Unix constructor
    up = AC + 'new_unix'
    U = hirq.Body(f, f.body(up))
    ctx.analysed['bodies'].add(up)
    uouts = absx.Interp(f, U, unroll=1, combinators=True).run(root=U.root['body'] if U.root['k'] == 'Closure' else U.root)
    UURL, USETT = one_param(ctx, f, U, '&Url', is_url), one_param(ctx, f, U, 'LdapConnSettings', is_settings)
    hs = ('call', 'url::Url::host_str', (UURL,), None)
    HOST = ('variant', hs, 'Some', 0)
    check_unix_path_function(ctx, f, U, USETT, F_STREAM)
    seen = set()
    for o in uouts:
        pcs = [(strip_site(a), t) for a, t in o.st.pc]
        ss = ('field', USETT, F_STREAM)
        v = strip_site(o.val)
        if v[0] == 'tryerr' and v[1][0] == 'ctor' and v[1][1] == 'Err':
            v = v[1]            # `helper(..)?` propagating the helper's Err(x) is the same result as `return Err(x)`
        con = [e for e in o.st.ev if e[0] == 'call' and e[1].endswith('UnixStream::connect')]
        none = absx.pc_variant(pcs, lambda v: v == ss, 'None')
        if none is True:
            empty = next((t for a, t in pcs if a[0] == 'call' and a[1].endswith('::is_empty')), None)
            colon = next((t for a, t in pcs if a[0] == 'call' and a[1].endswith('::contains') and a[2][1] == ('lit', ':')), None)
            other_contains = [a for a, t in pcs if a[0] == 'call' and a[1].endswith('::contains') and a[2][1] != ('lit', ':')]
            if other_contains:
                ctx.fail('U3.port-test', 'contains', loc(U.root), 'the socket path is tested for %s instead of ":"' % absx.fmt(other_contains[0][2][1]))
            # which strings the tests are made on: emptiness on the host string (or on its one decoding: D maps a non-empty string to
            # a non-empty one - every escape and every other octet yields at least one octet, a lossy conversion at least one
            # character per invalid sequence - so the two tests agree); "port-bearing" on the UNDECODED host, as the property
            # names it and the code always did: an encoded colon (`%3A`) is part of the socket path, a test on the decoded
            # path would refuse it
            absent = any(a == ('is', hs, 'Some') and not t for a, t in pcs)
            for a, t in pcs:
                if a[0] == 'call' and a[1].endswith('::is_empty') and len(a[2]) == 1:
                    nd, rest = decodings(a[2][0], HOST)
                    if rest == ('lit', '') and absent:
                        rest = None         # the default that stands for the absent host (`unwrap_or("")`)
                    ctx.add('U3.tests-on-the-host-string', 'empty', loc(U.root), rest is None and nd <= 1, 'the emptiness test of the ldapi path is made on %s, not on the URL\'s host string' % absx.fmt(a[2][0])[:80])
                elif a[0] == 'call' and a[1].endswith('::contains') and len(a[2]) == 2 and a[2][1] == ('lit', ':'):
                    nd, rest = decodings(a[2][0], HOST)
                    if rest == ('lit', '') and absent:
                        rest = None
                    ctx.add('U3.tests-on-the-host-string', 'port', loc(U.root), rest is None and nd == 0,
                            'the ":" test of the ldapi path is made on %s, not on the undecoded host string: %s' % (absx.fmt(a[2][0])[:80],
                                'a socket path with an encoded colon (`%3A`) is refused as port-bearing' if rest is None else 'which string is tested is not decided'))
            if empty is True:
                seen.add('empty')
                ctx.add('U3.empty-path', 'ldapi:///', loc(U.root), v == ('ctor', 'Err', (('ctor', 'LdapError::EmptyUnixPath', ()),)) and not con, 'an empty socket path must be EmptyUnixPath')
            elif colon is True:
                seen.add('colon')
                ctx.add('U3.port-in-path', 'ldapi://x:1/', loc(U.root), v == ('ctor', 'Err', (('ctor', 'LdapError::PortInUnixPath', ()),)) and not con, 'a ":" in the socket path must be PortInUnixPath')
            elif con:
                seen.add('connect')
                # Url::host_str() never contains the port (the url crate splits it off), so a port-bearing ldapi URL is only
                # seen through Url::port(): the socket must not be dialled on a path that did not find the port absent
                noport = absx.pc_variant(pcs, lambda v: v[0] == 'call' and v[1] == 'url::Url::port', 'Some')
                ctx.add('U3.port-bearing-url-rejected', 'ldapi://path:port', loc(con[0][3]), noport is False,
                        'the Unix socket is dialled on a path that never tested Url::port(): `ldapi://%2Fsock:389` connects instead of returning PortInUnixPath')
                # the FUNCTION from the host string to what is dialled: exactly one percent-decoding D of the URL's host string -
                # host itself names another file whenever the path needs an escape, D(D(host)) whenever the decoded path contains
                # `%` + two hex digits (`%2541` names `%41` and `A` would be dialled)
                arg = strip_site(con[0][2][0])
                nd, rest = decodings(arg, HOST)
                ctx.add('U3.percent-decoded-path', 'connect', loc(con[0][3]), nd == 1 and rest is None,
                        'the socket path must be the URL\'s host string percent-decoded exactly once: %s (%s)' % (
                            'what is dialled is not read as percent-decodings of the host string, at %s' % absx.fmt(rest)[:60] if rest is not None else
                            'the host string is dialled undecoded' if nd == 0 else
                            'it is decoded %d times: `ldapi://%%2Ftmp%%2Fldapi%%2541.sock` names the file /tmp/ldapi%%41.sock and /tmp/ldapiA.sock is dialled' % nd, absx.fmt(arg)[:100]))
        else:
            kinds = [a[2] for a, t in pcs if t and a[0] == 'is' and a[1] == ('variant', ss, 'Some', 0)]
            if 'StdStream::Unix' in kinds:
                seen.add('unix-stream')
                fs = [e for e in o.st.ev if e[0] == 'call' and e[1].endswith('UnixStream::from_std')]
                if o.kind == 'val':
                    ctx.add('U3.unix-preopened-used', 'Unix', loc(U.root), len(fs) == 1 and not con, 'a pre-opened Unix stream must be used')
            else:
                seen.add('mismatch')
                ctx.add('U3.unix-mismatched-stream', 'Tcp/Invalid', loc(U.root), v == ('ctor', 'Err', (('ctor', 'LdapError::MismatchedStreamType', ()),)), 'a TCP or invalid pre-opened stream must be rejected for ldapi')
    for need in ('empty', 'colon', 'connect', 'unix-stream', 'mismatch'):
        ctx.add('U3.coverage', need, loc(U.root), need in seen, 'no Unix constructor path for ' + need)


def run_thorough(ctx):
    """cross-engine agreement: clippy's restriction lints (an independent, lexical implementation) inside the cone's bodies"""
    if ctx.cfg != 'default':
        return          # clippy is run with the default feature set: compared in that configuration only
    G, parent, regions, srcs = ctx._cone
    sites, info = engine.clippy_sites()
    n = cone.clippy_agreement(ctx, 'U1.cross-engine-agreement', G, parent, regions, srcs, sites)
    ctx.floor('U1.cross-engine', 'clippy sites inside the connection-setup cone', n, 3)
    ctx.note('cross-engine agreement: %d constructs reported by clippy restriction lints lie inside the %d bodies of the cone; each must coincide with a MIR panic source' % (n, len(parent)))
