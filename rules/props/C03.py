"""C03 - results returned to the caller are exactly what the server sent."""
from facts import walk, callee_of, call_args, loc
import sem, hirq, anchors, absx

EXPLANATION = ("T1 path-sensitive extraction of LdapResultExt::from: on every success path resultCode = parse_uint of child 0 required "
               "universal ENUMERATED primitive, matchedDN = UTF-8 of child 1, diagnosticMessage = UTF-8 of child 2; the dispatch table "
               "on the context tag of the remaining children is {3 -> referral list via parse_refs, 7 -> SASL creds, 10 -> responseName, "
               "11 -> responseValue} as in RFC 4511, each stored to the variable that feeds the matching field of the returned struct; "
               "Tag::Null yields the all-empty success; T2 op_call returns (result with the envelope's controls, exop, creds) of that "
               "decoded response and every public operation returns the component its signature names; T3 parse_controls decided as a function by exact literal evaluation: with the content of the [0] Controls element fixed to every "
               "list of 0..3 (and one of 8) literal controls over the ways criticality and value can be written (each control with an OID and a value of its own; a lone control with every "
               "BOOLEAN content octet 00..ff, an empty value, every OID of the known-type table) the returned vector holds one entry per element, in the order of the elements (SEQUENCE OF), "
               "each with controlType = the text of its OID octets, criticality = content octet != 0 (absent: false), value = its octets (absent: None) and the table's entry for its OID "
               "as recognised type - whatever walks the list (for / while-let over next or pop / drain / index loop / map-collect); the known-OID table equals the RFC OIDs; T4 success()/non_error()/equal() "
               "are decided completely by evaluating them over the finite partition of result codes induced by the constants they "
               "compare with; T9 (C11 H8) the frame decoder interpreted exactly on element trees: a well-formed envelope - without, with an empty, with one / two / any controls - is delivered with its operation and with what parse_controls makes of exactly its controls element. Not decided: equality of arbitrary strings through String::from_utf8 / Vec moves (library semantics).")
TRUSTED = ['String::from_utf8 / Vec move semantics', 'lber TLV parser above the length reader (C07 B1 / B7)']
UNDECIDED = ['byte-level equality of arbitrary strings (std semantics)']
ASSUMPTIONS = []
SHARED = [('C01', ('R3.controls', 'R3.protocol-op'), 'T6.driver-forwards-the-message'), ('C16', ('A2.no-paging-control', 'A2.last-page-strips-control'), 'T5.paged-result-controls'),
          # "the referral list handed to the caller equals what the server encoded": the one place a decoded referral list is edited
          # before the caller sees it is EntriesOnly::finish (Ldap::search), which may only append the URIs of the reference messages to
          # the list decoded from the SearchResultDone - on every path
          ('C10', ('Q4.entries-only.finish-merges-refs',), 'T7.search-result-referrals-kept'),
          # "... equal the fields the server encoded, regardless of legal BER length-form variations in the encoding" (quantifier: "all
          # definite-length BER encodings of them"): whatever form a peer chose for a length - short, long, long with leading zeros, split
          # across reads anywhere inside the length field - the decoder must see the same length; that is what C07's B2 reader family decides
          # about lber's length reader (form by the first octet, exactly n octets read, their big-endian value, a field that has not
          # arrived completely is Incomplete and never an error or a shorter value, nothing refused for how it is written)
          ('C07', ('B2.reader',), 'T8.any-legal-length-form-reads-the-same'),
          # "response controls (OID, criticality, value) ... handed to the caller equal the fields the server encoded", over "all control
          # lists with and without criticality and value" - the empty list is one, and so is no list: the controls the caller is handed
          # are what the frame decoder makes of the envelope's trailing `controls [0] Controls OPTIONAL` element (RFC 4511 4.1.1), and
          # the result itself reaches the caller only if the envelope around it is delivered at all.  C11 H8 decides this by exact
          # interpretation of the frame decoder on element trees (rules/envelope.py): a well-formed LDAPMessage without a controls
          # element, with one that is empty, with one and two controls and with any control list (for any protocolOp) is delivered
          # with the operation element it holds and with what `parse_controls` (T3) makes of exactly that controls element - for the
          # empty element the empty vector is the same thing (T3.empty-list-decodes-to-no-controls) -, and never answered with a
          # decoding error, which would end the connection instead of handing the result to the caller
          ('C11', ('H8.well-formed-envelope-is-delivered',), 'T9.envelope-controls-are-the-decoded-controls-element')]      # the one place a response control list is edited before the caller sees it: exactly the paging control may go

RFC4511_RESULT_TAGS = {3: 'refs', 7: 'sasl_creds', 10: 'exop_name', 11: 'exop_val'}
RFC_CONTROL_OIDS = {
    'ControlType::PagedResults': '1.2.840.113556.1.4.319',       # RFC 2696
    'ControlType::PostReadResp': '1.3.6.1.1.13.2',               # RFC 4527
    'ControlType::PreReadResp': '1.3.6.1.1.13.1',                # RFC 4527
    'ControlType::SyncDone': '1.3.6.1.4.1.4203.1.9.1.3',         # RFC 4533
    'ControlType::SyncState': '1.3.6.1.4.1.4203.1.9.1.2',        # RFC 4533
    'ControlType::ManageDsaIt': '2.16.840.1.113730.3.4.2',       # RFC 3296
    'ControlType::MatchedValues': '1.2.826.0.1.3344810.2.3',     # RFC 3876
}
FROM = '<ldap3::result::LdapResultExt as core::convert::From<lber::structures::Tag>>::from'

def calls_above(t, stop):
    """Short names of the calls of term t that are not inside a sub-term satisfying `stop` (what is applied *to* such a sub-term)."""
    out = []
    def rec(x):
        if isinstance(x, tuple):
            if x and isinstance(x[0], str) and stop(x):
                return
            if x and x[0] == 'call' and isinstance(x[1], str):
                out.append(x[1].rsplit('::', 1)[-1])
            for y in x:
                rec(y)
    rec(t)
    return out

def calls_in(t):
    return [x[1].rsplit('::', 1)[-1] for x in absx.leaves(t, lambda x: x[0] == 'call')]

def nths(t):
    return sorted({x[3] for x in absx.leaves(t, lambda x: x[0] == 'nth')})

def struct_fields(v):
    return dict(v[2]) if v[0] == 'struct' else {}

# ---------------------------------------------------------------------------------------
# T3 (C19: Z) - the response-control list decoder, decided as a FUNCTION by exact literal evaluation.
#
# RFC 4511 4.1.11:  Controls ::= SEQUENCE OF control Control;  Control ::= SEQUENCE { controlType LDAPOID, criticality BOOLEAN
# DEFAULT FALSE, controlValue OCTET STRING OPTIONAL }.  The content of the `[0] Controls` element handed to the decoder is fixed to
# one literal list at a time - every list of 0, 1, 2 and 3 controls over the six ways the two optional components can be written
# (absent / BOOLEAN TRUE / BOOLEAN FALSE / BOOLEAN TRUE + value / BOOLEAN FALSE + value / value only), each control with an OID
# and a value of its own, one longer list, single controls with every content octet a BOOLEAN can have, an empty value, every OID
# of the known-type table and OIDs that are not in it - and the decoder is interpreted on it: the accessors of the tree type
# inlined, local vectors and iterators tracked element by element (whatever walks the list: `for` over into_iter / drain / iter,
# `while let` over next / pop, an index loop, map + collect; `absx` options places + exact_seqs), UTF-8 conversion of literal
# octets and the lookup in the known-type table answered exactly.  There must be exactly one outcome, a vector, and it must hold
# one entry per element of the list, IN THE ORDER OF THE ELEMENTS (the list is a SEQUENCE OF: ordered), each with the OID, the
# criticality (content octet != 0; absent: false) and the value (absent: None; present: exactly its octets, empty included) of its
# own element, and as recognised type the table's entry for that OID.  Nothing of the library is executed.  A decoder the
# interpreter cannot evaluate to a single literal outcome fails closed (rule <R>.control-list-decided).
ST_TAG = 'lber::structure::StructureTag'
def lit_prim(cls, id_, octs):
    return ('struct', ST_TAG, (('class', ('ctor', 'TagClass::' + cls, ())), ('id', ('lit', id_)), ('payload', ('ctor', 'PL::P', (('lit', octs),)))), None)
def lit_cons(cls, id_, kids):
    return ('struct', ST_TAG, (('class', ('ctor', 'TagClass::' + cls, ())), ('id', ('lit', id_)), ('payload', ('ctor', 'PL::C', (('vec', tuple(kids)),)))), None)

CONTROL_CASES = [     # (name, content of the criticality BOOLEAN or None, controlValue or None)
    ('absent', None, None), ('boolean TRUE', b'\xff', None), ('boolean FALSE', b'\x00', None),
    ('boolean TRUE + value', b'\xff', b'v\x00\xff'), ('boolean FALSE + value', b'\x00', b'w'), ('value only', None, b'u\x80'),
]
OTHER_OIDS = ['1.2.3.4.5', '2.5.4.3', '1.3.6.1.1.12', '0.9.2342.19200300.100.1.1', '1.2.840.113556.1.4.473']      # not in the known-type table

def control_lists():
    """[(description, [(case name, OID, criticality content | None, value | None), ...])]: the literal lists the decoder is evaluated on"""
    import itertools
    pool = []
    known = sorted(RFC_CONTROL_OIDS.values())
    for i in range(max(len(known), len(OTHER_OIDS))):
        pool += [x[i] for x in (OTHER_OIDS, known) if i < len(x)]
    def mk(cases, rot=0):
        # every control of a list has an OID of its own and (where it has one) a value of its own: what comes out can be told apart
        return [(c[0], pool[(rot + i) % len(pool)], c[1], (c[2] + bytes([0x41 + i])) if c[2] is not None else None) for i, c in enumerate(cases)]
    lists = [('an empty list', [])]
    k = 0
    for n in (1, 2, 3):
        for cs in itertools.product(CONTROL_CASES, repeat=n):
            k += 1
            lists.append(('a list of %d control%s' % (n, 's' if n > 1 else ''), mk(cs, k)))
    lists.append(('a list of 8 controls', mk([CONTROL_CASES[i % 6] for i in (3, 0, 5, 1, 2, 4, 0, 3)], 1)))
    # every content octet a BOOLEAN can have (X.690 8.2.2: FALSE is zero, TRUE is any non-zero octet), alone and with a value
    for v in range(256):
        lists.append(('a list of 1 control', [('boolean %02x' % v, OTHER_OIDS[0], bytes([v]), None)]))
    for v in (0x01, 0x80):
        lists.append(('a list of 1 control', [('boolean %02x + value' % v, OTHER_OIDS[1], bytes([v]), b'x')]))
    lists.append(('a list of 1 control', [('empty value', OTHER_OIDS[2], None, b'')]))
    lists.append(('a list of 1 control', [('boolean TRUE + empty value', OTHER_OIDS[2], b'\x01', b'')]))
    for oid in known:
        lists.append(('a list of 1 control', [('boolean TRUE + value', oid, b'\xff', b'\x30\x00')]))
    return lists

def control_tree(ctls):
    kids = []
    for _case, oid, crit, val in ctls:
        comp = [lit_prim('Universal', 4, oid.encode())]
        if crit is not None:
            comp.append(lit_prim('Universal', 1, crit))
        if val is not None:
            comp.append(lit_prim('Universal', 4, val))
        kids.append(lit_cons('Universal', 16, comp))
    return lit_cons('Context', 0, kids)

def known_type_table(f):
    """(initialiser, {variant: OID} as inserted, {OID: variant} the table holds, exact) - `exact`: the initialiser does nothing to the
    map but insert constant pairs (a later insert of the same key replaces the earlier one), so the table holds exactly those"""
    init = [h for p, h in f.hir.items() if p.startswith('<ldap3::controls_impl::CONTROLS as core::ops::deref::Deref>::deref::__static_ref_initialize')]
    init = anchors.one('CONTROLS initialiser', init)
    got, holds, exact = {}, {}, True
    for n, c in walk(init['body']):
        if n['k'] == 'MethodCall' and n['name'] == 'insert' and len(n['args']) == 2:
            oid = hirq.const_eval(f, n['args'][0])
            v = hirq.short_def(n['args'][1].get('ctor_of') or n['args'][1].get('def') or '')
            got[v] = oid
            if isinstance(oid, str) and v:
                holds[oid] = v
            else:
                exact = False
        elif n['k'] == 'MethodCall' or (n['k'] == 'Call' and not str(callee_of(n) or '').endswith('::new')):
            exact = False
    return init, got, holds, exact

def check_parse_controls(ctx, f, R='T3'):
    """The control list decoder (shared by C03 T3 and C19's envelope clause)."""
    P = hirq.Body(f, f.body('ldap3::controls_impl::parse_controls'))
    ctx.analysed['bodies'].add(P.path)
    L = loc(P.root)
    init, got_table, holds, table_exact = known_type_table(f)
    params = [b for b, d in P.defs.items() if d['kind'] == 'param' and not d['proj']]
    if len(params) != 1:
        ctx.fail(R + '.control-list-decided', 'parameter', L, 'parse_controls does not take the Controls element as its one parameter'); return
    inl = lambda c: c.startswith('lber::structure::') or c.startswith('<lber::structure::') or c.startswith('lber::common::')
    def library(I, cal, args, node, st):
        name = cal.rsplit('::', 1)[-1]
        if cal in ('alloc::string::String::from_utf8', 'core::str::converts::from_utf8') and len(args) == 1 and args[0][0] == 'lit' and isinstance(args[0][1], bytes):
            # from_utf8 of known octets: Ok(the text they encode) when they are well-formed UTF-8, Err otherwise (its definition)
            try:
                return [absx.Out('val', ('ctor', 'Ok', (('lit', args[0][1].decode('utf-8')),)), st)]
            except UnicodeDecodeError:
                return [absx.Out('val', ('ctor', 'Err', (('unk', 'FromUtf8Error'),)), st)]
        if table_exact and name == 'get' and 'HashMap' in cal and len(args) == 2 and args[0] == ('const', 'ldap3::controls_impl::CONTROLS') \
                and args[1][0] == 'lit' and isinstance(args[1][1], str):
            # the known-type table holds exactly the constant pairs its initialiser inserts (known_type_table): get(k) is Some(v) for
            # the pair (k, v) and None for any other key
            v = holds.get(args[1][1])
            return [absx.Out('val', ('ctor', 'Some', (('ctor', v, ()),)) if v is not None else ('ctor', 'None', ()), st)]
        return None
    class Budgeted(absx.Interp):
        # a decoder the models do not evaluate exactly forks on every read of every element: give up (fail closed) instead of enumerating
        steps = 0
        def ev(self, e, st):
            self.steps += 1
            if self.steps > 8000:      # (the decoder as it stands takes about 550 on the longest list)
                raise absx.TooManyPaths()
            return absx.Interp.ev(self, e, st)
    def decode(ctls):
        I = Budgeted(f, P, summaries=[library], unroll=len(ctls) + 2, inline=inl, combinators=True, places=True)
        I.exact_seqs = True
        env = I.param_env()
        env[params[0]] = control_tree(ctls)
        try:
            return [o for o in I.run(env=env) if o.kind in ('val', 'ret', 'div', 'loop')]
        except absx.TooManyPaths:
            return None
    NONE = ('ctor', 'None', ())
    def entry(t):
        """(oid, crit, val, known) of one decoded entry Control(known, RawControl { ctype, crit, val }); None when it is not that"""
        if not (t[0] == 'ctor' and t[1].endswith('Control') and len(t[2]) == 2 and t[2][1][0] == 'struct'):
            return None
        rf = dict(t[2][1][2])
        return rf.get('ctype', ('unk',)), rf.get('crit', ('unk',)), rf.get('val', ('unk',)), t[2][0]
    def show(t):
        if t == NONE:
            return 'None'
        if t[0] == 'ctor' and t[1] == 'Some' and len(t[2]) == 1 and t[2][0][0] == 'lit' and isinstance(t[2][0][1], bytes):
            return 'Some(%s)' % (t[2][0][1].hex() or '""')
        return absx.fmt(t)[:50]
    undecided, order, shape, ctype_bad, cv_bad, known_bad = [], {}, [], {}, {}, {}
    n_eval = 0
    seen_desc = []
    for desc, ctls in control_lists():
        if desc not in seen_desc:
            seen_desc.append(desc)
        outs = decode(ctls)
        n_eval += 1
        what = '[%s]' % ', '.join('%s (%s)' % (c[1], c[0]) for c in ctls)
        if outs is None or len(outs) != 1 or outs[0].kind not in ('val', 'ret') or outs[0].val[0] != 'vec':
            kinds = 'too many paths' if outs is None else ', '.join(sorted('panic' if o.kind == 'div' else 'loop not finished' if o.kind == 'loop' else absx.fmt(o.val)[:40] for o in outs)) or 'no outcome'
            undecided.append('%s: %s' % (what, kinds))
            if len(undecided) >= 12:
                break       # not a decoder this evaluation understands: the rule below fails closed, the rest would say the same
            continue
        ents = [entry(t) for t in outs[0].val[1]]
        if any(x is None for x in ents):
            shape.append('%s: %s' % (what, absx.fmt(outs[0].val)[:80])); continue
        want = [c[1] for c in ctls]
        oids = [x[0][1] if x[0][0] == 'lit' and isinstance(x[0][1], str) else None for x in ents]
        if any(o is None or o not in want for o in oids) or len(set(oids)) != len(oids):
            # an entry whose type is not the OID of any element of the list (or two entries with the type of one element)
            for i, x in enumerate(ents):
                if oids[i] is None or oids[i] not in want or oids.index(oids[i]) != i:
                    case = ctls[i][0] if i < len(ctls) else 'beyond the list'
                    ctype_bad.setdefault(case, []).append('%s decodes to entry %d with controlType %s' % (what, i, absx.fmt(x[0])[:50]))
            continue
        if oids != want:
            if sorted(oids) == sorted(want):
                how = 'comes out reversed' if oids == want[::-1] else 'comes out in another order'
            else:
                missing = [i for i, o in enumerate(want) if o not in oids]
                how = 'comes out with %d: the control%s at position%s %s (counted from 0) %s dropped%s' % (
                    len(oids), 's' if len(missing) > 1 else '', 's' if len(missing) > 1 else '', ', '.join(map(str, missing)), 'are' if len(missing) > 1 else 'is',
                    '' if [o for o in want if o in oids] == oids else ' and the rest comes out in another order')
            order.setdefault(desc, []).append('%s %s: encoded %s, decoded [%s]' % (desc, how, what, ', '.join(oids)))
        # every entry against the element it was decoded from (found by its OID, wherever it ended up)
        for x in ents:
            case, oid, crit, val = ctls[want.index(x[0][1])]
            exp_crit = ('lit', crit is not None and crit[0] != 0)
            exp_val = ('ctor', 'Some', (('lit', val),)) if val is not None else NONE
            if x[1] != exp_crit or x[2] != exp_val:
                cv_bad.setdefault(case, []).append('in %s the control %s decodes to criticality %s, value %s; encoded: criticality %s, value %s' % (
                    what, oid, absx.fmt(x[1])[:40], show(x[2]), ('BOOLEAN %s' % crit.hex()) if crit is not None else 'absent (FALSE)', show(exp_val)))
            exp_known = ('ctor', 'Some', (('ctor', holds[oid], ()),)) if oid in holds else NONE
            if x[3] != exp_known:
                known_bad.setdefault(holds.get(oid, 'an OID that is not in the table'), []).append('in %s the control %s is recognised as %s, the known-type table says %s' % (
                    what, oid, absx.fmt(x[3])[:60], absx.fmt(exp_known)[:60]))
    ctx.add(R + '.control-list-decided', 'literal lists', L, not undecided and not shape,
            'the control list decoder could not be evaluated to one decoded list on %d of %d literal control lists (the interpreter does not understand what walks the list, or the decoder '
            'panics on / does not finish a well-formed list): %s' % (len(undecided) + len(shape), n_eval, '; '.join((undecided + shape)[:3])[:600]))
    for desc in seen_desc:
        bad = order.get(desc, [])
        ctx.add(R + '.control-list-order', desc, L, not bad,
                'a control list does not survive the envelope unchanged (RFC 4511 4.1.11: Controls ::= SEQUENCE OF control - ordered, one entry per element): %s%s'
                % ('; '.join(bad[:2])[:700], ' (and %d more lists)' % (len(bad) - 2) if len(bad) > 2 else ''))
    cases = []
    for _d, ctls in control_lists():
        for c in ctls:
            if c[0] not in cases:
                cases.append(c[0])
    bool_cases = [c for c in cases if c.startswith('boolean ') and len(c) == 10]       # 'boolean xx': one obligation for the 256 contents
    for case in [c for c in cases if c not in bool_cases] + ['boolean content octets 00..ff']:
        members = bool_cases if case.startswith('boolean content') else [case]
        bad = [m for c in members for m in ctype_bad.get(c, [])]
        ctx.add(R + '.control-type', case, L, not bad, 'controlType is not the text of the OID octets of the control\'s own first component: %s' % '; '.join(bad[:2])[:600])
        bad = [m for c in members for m in cv_bad.get(c, [])]
        ctx.add(R + '.criticality-and-value', case, L, not bad,
                'criticality / controlValue are not those of the control\'s own element (criticality = content octet != 0, absent: false; value absent: None, present: its octets), %d list(s): %s'
                % (len(bad), '; '.join(bad[:2])[:700]))
    for k in sorted(set(holds.values()) | {'an OID that is not in the table'}):
        bad = known_bad.get(k, [])
        ctx.add(R + '.known-type-lookup', k, L, table_exact and not bad,
                'the recognised control type is not the known-type table\'s entry for this control\'s own OID: %s' % ('; '.join(bad[:2])[:600] if bad else 'the table\'s initialiser does more than insert constant pairs: its content is not known'))
    if len(undecided) < 12:
        ctx.floor(R, 'literal control lists the list decoder was interpreted on', n_eval, 500)
    # the OID table
    for k in sorted(set(got_table) | set(RFC_CONTROL_OIDS)):
        ctx.add(R + '.oid-table', k, loc(init['body']), got_table.get(k) == RFC_CONTROL_OIDS.get(k), 'OID table: %s -> %s, RFCs: %s' % (k, got_table.get(k), RFC_CONTROL_OIDS.get(k)))



def check_empty_control_list(ctx, f, R='T3'):
    """T3.empty-list-decodes-to-no-controls: a controls element that holds no control (`a0 00`) is a well-formed encoding of the empty
    control list; the control-list decoder interpreted exactly on that literal element (the accessors of the element type inlined)
    answers the empty vector and nothing else - no panic, no phantom control.  (The frame decoder may therefore skip the call for
    such an element: C11 H8 / T9 accept either.)"""
    import envelope
    P = hirq.Body(f, f.body('ldap3::controls_impl::parse_controls'))
    I = absx.Interp(f, P, unroll=2, inline=lambda c: c.startswith('lber::structure::') or c.startswith('<lber::structure::'), combinators=True, places=True)
    I.exact_seqs = True
    ps = [b for b, d in P.defs.items() if d['kind'] == 'param' and not d['proj']]
    outs = I.run(env={b: envelope.CT0 for b in ps}) if len(ps) == 1 else []
    got = sorted({o.kind + ' ' + absx.fmt(o.val)[:40] for o in outs})
    ctx.add(R + '.empty-list-decodes-to-no-controls', 'a0 00', loc(P.root), len(outs) == 1 and outs[0].kind in ('val', 'ret') and outs[0].val == ('vec', ()),
            'the control-list decoder applied to a controls element that holds no control does not answer the empty list: %s' % (got or 'not decided'))


def check_result_helpers(ctx, f, R='T4', only=None):
    """success()/non_error()/equal() decided over the finite partition of result codes (shared with C17 W2)."""
    # ------------------------------------------------------------------ T4 helpers over the finite partition of result codes
    HELPERS = {
        'ldap3::result::LdapResult::success': {0: 'Ok'},
        'ldap3::result::LdapResult::non_error': {0: 'Ok', 10: 'Ok'},
        'ldap3::result::SearchResult::success': {0: 'Ok'},
        'ldap3::result::SearchResult::non_error': {0: 'Ok', 10: 'Ok'},
        'ldap3::result::ExopResult::success': {0: 'Ok'},
        'ldap3::result::ExopResult::non_error': {0: 'Ok', 10: 'Ok'},
        'ldap3::result::CompareResult::equal': {5: 'Ok(false)', 6: 'Ok(true)'},
        'ldap3::result::CompareResult::non_error': {5: 'Ok', 6: 'Ok', 10: 'Ok'},
    }
    consts = set()
    for p in HELPERS:
        for n, c in walk(f.body(p)['body']):
            if n['k'] == 'Lit' and isinstance(n.get('v'), int) and not isinstance(n.get('v'), bool):
                consts.add(n['v'])
            if n['k'] == 'Match':
                for a in n['arms']:
                    for v in (hirq.pat_lits(a['pat']) or []):
                        consts.add(v)
            # named constants, in expression or pattern position
            for d in [n.get('def')] + ([x['e'].get('def') for x in ([n['pat']] + n['pat'].get('pats', [])) if x.get('k') == 'PExpr'] if n.get('k') == 'LetExpr' else []):
                if d and str(n.get('defkind') or 'Const').startswith(('Const', 'AssocConst')) or (d and n.get('k') == 'LetExpr'):
                    v = hirq.const_eval(f, {'k': 'Path', 'res': 'def', 'defkind': 'Const', 'def': d})
                    if isinstance(v, int) and not isinstance(v, bool):
                        consts.add(v)
    partition = sorted(consts | {c + d for c in consts for d in (-1, 1) if c + d >= 0} | {0, 1, 2, 3, 4, 5, 6, 7, 10, 11, 80, 88, 255, 4294967295})
    for p, table in HELPERS.items():
        if only is not None and p not in only:
            continue
        Bh = hirq.Body(f, f.body(p))
        ctx.analysed['bodies'].add(p)
        # rc must only be compared (==, !=, match literal): then the partition is exact
        bad_use = []
        for n, c in walk(Bh.root):
            if n['k'] == 'Field' and n['name'] == 'rc':
                anc, role = c[-1]
                if not ((anc['k'] == 'Binary' and anc['op'] in ('Eq', 'Ne', 'Lt', 'Le', 'Gt', 'Ge')) or (anc['k'] == 'Match' and role == 'scrut')
                        or (anc['k'] == 'LetExpr' and role == 'init')):
                    bad_use.append(anc['k'] + ':' + str(anc.get('op')))
        ctx.add(R + '.comparison-only', p, loc(Bh.root), not bad_use, 'the result code is used other than in ==/match comparisons (%s): the finite partition is not exact' % bad_use)
        wrong = []
        for rc in partition:
            outs = absx.Interp(f, Bh, field_hook=lambda base, name, st, rc=rc: ('lit', rc) if name == 'rc' else None,
                               inline=lambda cal: cal in HELPERS and cal != p).run()      # a helper may delegate to a sibling helper
            rs = set()
            for o in outs:
                v = o.val
                if v[0] == 'ctor' and v[1] == 'Ok':
                    inner = v[2][0]
                    rs.add('Ok(%s)' % str(inner[1]).lower() if inner[0] == 'lit' and isinstance(inner[1], bool) else 'Ok')
                elif v[0] == 'ctor' and v[1] == 'Err':
                    rs.add('Err')
                else:
                    rs.add('?')
            exp = table.get(rc, 'Err')
            if rs != {exp}:
                wrong.append((rc, sorted(rs), exp))
        ctx.add(R + '.helper', p, loc(Bh.root), not wrong, 'result-code classes decided wrongly (rc, got, documented): %s' % wrong[:6])


def run(ctx):
    f = ctx.facts
    # ------------------------------------------------------------------ T1
    B = hirq.Body(f, f.body(FROM))
    ctx.analysed['bodies'].add(B.path)
    outs = absx.Interp(f, B, unroll=1, combinators=True).run()
    succ = [o for o in outs if o.kind in ('val', 'ret') and o.val[0] == 'ctor' and o.val[1].endswith('LdapResultExt')]
    n_struct = 0
    for o in succ:
        res, exop, creds = o.val[2]
        rf = struct_fields(res)
        if any(t and a[0] == 'is' and a[2] == 'Tag::Null' for a, t in o.st.pc):
            ok = rf.get('rc') == ('lit', 0) and rf.get('matched') == ('lit', '') and rf.get('text') == ('lit', '') and struct_fields(exop).get('name') == ('ctor', 'None', ()) \
                and struct_fields(exop).get('val') == ('ctor', 'None', ()) and creds == ('ctor', 'ldap::SaslCreds', (('ctor', 'None', ()),))
            ctx.add('T1.null-is-empty-success', 'Tag::Null', loc(B.root), ok, 'the driver\'s acknowledgement (Tag::Null) must convert to rc 0 with empty fields')
            continue
        n_struct += 1
        rc = rf.get('rc', ('unk',))
        ok = nths(rc) == [0] and all(c in calls_in(rc) for c in ('parse_uint', 'expect_primitive', 'match_id', 'match_class'))
        mid = [x for x in absx.leaves(rc, lambda x: x[0] == 'call' and x[1].endswith('match_id'))]
        ok = ok and any(a == ('lit', 10) or a == ('cast', ('ctor', 'Types::Enumerated', ()), 'u64') for x in mid for a in x[2][1:])
        mcl = [x for x in absx.leaves(rc, lambda x: x[0] == 'call' and x[1].endswith('match_class'))]
        ok = ok and any(a == ('ctor', 'TagClass::Universal', ()) for x in mcl for a in x[2][1:])
        # a path that answers a constant instead (a code the field cannot hold): acceptable when the constant is a refusal - none of the
        # codes the helpers accept - and the path has looked at the decoded element (T1.result-code-exact decides when such a path is taken)
        if not ok and rc[0] == 'lit' and isinstance(rc[1], int) and rc[1] not in (0, 5, 6, 10):
            ok = any(sem.has(a, lambda x: x[0] == 'call' and x[1].endswith('::expect_primitive') and nths(x) == [0]) for a, t in o.st.pc)
        ctx.add('T1.result-code', 'child 0', loc(B.root), ok, 'resultCode is not parse_uint of child 0 as universal ENUMERATED primitive: %s%s' % (absx.fmt(rc)[:120],
                ' - on this path the code handed to the caller is not decoded from the response at all (the default of the integer type is 0 = success): a response whose resultCode element is missing, of another class or tag, or constructed must fail to decode, not pass success()' if not nths(rc) else ''))
        for name, ordn in (('matched', 1), ('text', 2)):
            t = rf.get(name, ('unk',))
            ok = nths(t) == [ordn] and 'from_utf8' in calls_in(t) and 'expect_primitive' in calls_in(t)
            ctx.add('T1.' + name, 'child %d' % ordn, loc(B.root), ok, '%s is not the UTF-8 content of child %d: %s' % (name, ordn, absx.fmt(t)[:120]))
        ctx.add('T1.ctrls-empty', 'ctrls', loc(B.root), rf.get('ctrls') == ('vec', ()),
                'LdapResultExt::from must leave ctrls empty (the envelope controls are added by op_call)')
    ctx.floor('T1', 'success paths of the LDAPResult decoder', n_struct, 1)
    # T1.result-code-exact: how the content octets of the resultCode become the `rc` field is decided by literal evaluation of the
    # decoder itself (whatever reads them): with the content of child 0 fixed to a literal octet string, rc is the number the octets
    # denote whenever the field's type can hold it; a code the field cannot hold must not come out as one of the codes the helpers
    # success() / non_error() / equal() accept (0, 10, 5, 6) - a refusal must never read as success
    import props.C19 as c19
    wrong, n_ev = [], 0
    vecs = c19.int_vectors() + [b'', b'\x01\x00\x00\x00\x00', b'\x01\x00\x00\x00\x0a', b'\x01' + b'\x00' * 8, b'\x80' + b'\x00' * 8, b'\x01' + b'\x00' * 7 + b'\x05', b'\xff' * 9, b'\x02' + b'\x00' * 11 + b'\x06']
    for octets in sorted(set(vecs), key=lambda x: (len(x), x)):
        v = int.from_bytes(octets, 'big')
        def content(I, cal, args, node, st, octets=octets):
            if cal.endswith('::expect_primitive') and len(args) == 1 and nths(args[0]) == [0]:
                return [absx.Out('val', ('ctor', 'Some', (('lit', octets),)), st)]
            return None
        for o in absx.Interp(f, B, summaries=[content], unroll=1, inline=lambda c: c == 'lber::parse::parse_uint', combinators=True).run():
            if o.kind not in ('val', 'ret') or o.val[0] != 'ctor' or len(o.val[2]) != 3 or o.val[2][0][0] != 'struct':
                continue
            if any(t and a[0] == 'is' and a[2] == 'Tag::Null' for a, t in o.st.pc):
                continue            # the driver's own acknowledgement, not a decoded response
            n_ev += 1
            got = struct_fields(o.val[2][0]).get('rc', ('unk',))
            fits = v <= 2**32 - 1
            refusal = got[0] == 'lit' and got[1] not in (0, 5, 6, 10)
            # more than eight content octets is not a minimal encoding of anything the field can hold: exact, or a refusal
            padded_ok = len(octets) > 8 and (got == ('lit', v) or (refusal and v not in (0, 5, 6, 10)))
            if not octets:
                # no content octets: the element denotes no number at all (X.690 8.4 / 8.3.1: at least one) - whatever the caller is
                # handed, it must not be a code the helpers accept
                if not refusal:
                    w = ('(empty)', absx.fmt(got)[:24], 'no code at all')
                    if w not in wrong:
                        wrong.append(w)
                continue
            if not padded_ok and ((fits and got != ('lit', v)) or (not fits and not refusal)):
                w = (octets.hex() or '(empty)', absx.fmt(got)[:24], v if fits else 'does not fit u32')
                if w not in wrong:
                    wrong.append(w)
    ctx.add('T1.result-code-exact', 'child 0', loc(B.root), n_ev > 0 and not wrong,
            'the result code is not read exactly: with the content octets of the resultCode fixed to literal strings, %d differ from the number they denote, or a code too large for the field '
            'comes out as one the success helpers accept; (octets, rc, denotes): %s' % (len(wrong), wrong[:5]))
    # dispatch table, decided by evaluating the decoder once per component tag number (finite partition: the numbers it compares
    # with and representatives of the rest): the component loop is run on one generic trailing component whose tag is that
    # number, and what is read off is which field of the returned value receives (something computed from) that component
    nums = set()
    for n, c in walk(B.root):
        if n['k'] == 'Match':
            for a in n['arms']:
                for v in (hirq.pat_lits(a['pat']) or ()):
                    if isinstance(v, int):
                        nums.add(v)
        if n['k'] == 'Lit' and isinstance(n.get('v'), int) and not isinstance(n.get('v'), bool) and 0 <= n['v'] < 64:
            nums.add(n['v'])
    domain = sorted(nums | set(RFC4511_RESULT_TAGS) | {0, 1, 2, 4, 5, 6, 8, 9, 12, 30})
    is_elem = lambda x: x[0] == 'elem'
    n_eval = 0
    for tagno in domain:
        def hook(base, name, st, tagno=tagno):
            if name == 'id' and base[0] == 'elem':
                return ('lit', tagno)
            return None
        got = set()
        vias = {}
        vias_above = {}
        per_path = []
        for o in absx.Interp(f, B, unroll=1, for_once=True, field_hook=hook).run():
            if not (o.kind in ('val', 'ret') and o.val[0] == 'ctor' and o.val[1].endswith('LdapResultExt')) or any(t and a[0] == 'is' and a[2] == 'Tag::Null' for a, t in o.st.pc):
                continue
            n_eval += 1
            got_before = set(got)
            got.clear()
            per_path.append((o, got))
            res, exop, creds = o.val[2]
            fields = {'refs': struct_fields(res).get('refs', ('unk',)), 'exop_name': struct_fields(exop).get('name', ('unk',)),
                      'exop_val': struct_fields(exop).get('val', ('unk',)), 'sasl_creds': creds}
            for other in ('rc', 'matched', 'text', 'ctrls'):
                if sem.has(struct_fields(res).get(other, ('unk',)), is_elem):
                    got.add(other)
            for k, t in fields.items():
                # the accumulator carried around the loop may itself mention earlier components: look at what this iteration adds
                if sem.has(t, is_elem):
                    got.add(k)
                    vias[k] = calls_in(t)
                    vias_above.setdefault(k, []).extend(calls_above(t, is_elem))
            for e in o.st.ev:
                if e[0] == 'call' and e[1].rsplit('::', 1)[-1] in ('extend', 'push', 'append') and any(sem.has(a, is_elem) for a in e[2][1:]):
                    got.add('refs' if sem.has(fields['refs'], lambda x: True) and e[2][0] == fields['refs'] or True else 'refs')
                    vias['refs'] = [c for a in e[2][1:] for c in calls_in(a)]
            per_path[-1] = (o, set(got))
            got |= got_before
        exp = RFC4511_RESULT_TAGS.get(tagno)
        if exp is not None and per_path:
            # ... on every path, whatever the component contains: a component that is present is never read as absent
            miss = [o for o, g in per_path if exp not in g]
            ctx.add('T1.dispatch-entry-unconditional', '[%d]' % tagno, loc(B.root), not miss,
                    'on a path on which the trailing component [%d] is present, %s does not receive it (%s): a present component is decoded as absent' % (
                        tagno, exp, ', '.join(('' if t else '!') + absx.fmt(a)[:60] for a, t in (miss[0].st.pc[-2:] if miss else []))))
        if exp is None:
            ctx.add('T1.dispatch-default', 'tag %d' % tagno, loc(B.root), not got, 'a trailing component with tag [%d] (not defined for LDAPResult) changes %s' % (tagno, sorted(got)))
            continue
        via = vias.get(exp, [])
        ok = got == {exp}
        if exp == 'refs':
            ok = ok and 'parse_refs' in via
        elif exp in ('sasl_creds', 'exop_val'):
            ok = ok and 'expect_primitive' in via and 'from_utf8' not in via
        elif exp == 'exop_name':
            ok = ok and 'expect_primitive' in via and 'from_utf8' in via
        if exp in ('sasl_creds', 'exop_val', 'exop_name'):
            # the component's content is stored as it is: nothing between the primitive content and the field that could drop,
            # replace or condition it (Option::filter, then_some, a lossy conversion, ...)
            TRANSPARENT = {'expect_primitive', 'into', 'to_vec', 'to_owned', 'clone', 'from', 'into_owned', 'as_ref', 'as_slice', 'into_boxed_slice', 'into_vec'} | ({'from_utf8'} if exp == 'exop_name' else set())
            extra = sorted(set(vias_above.get(exp, [])) - TRANSPARENT)
            ctx.add('T1.dispatch-entry-verbatim', '[%d]' % tagno, loc(B.root), not extra,
                    'component [%d] reaches %s through %s: its content can be dropped or altered on the way' % (tagno, exp, extra))
        ctx.add('T1.dispatch-entry', '[%d]' % tagno, loc(B.root), ok, 'component [%d] feeds %s via %s; RFC 4511: %s' % (tagno, sorted(got), via, exp))
    ctx.floor('T1', 'decoder evaluations over component tags', n_eval, len(domain))

    # ------------------------------------------------------------------ T2
    C = anchors.Conn(f)
    O = C.op_call
    ctx.analysed['bodies'].add(O.path)
    oo = absx.Interp(f, O).run(root=O.root['body'] if O.root['k'] == 'Closure' else O.root)
    okp = [o for o in oo if o.kind in ('val', 'ret') and o.val[0] == 'ctor' and o.val[1] == 'Ok']
    ctx.floor('T2', 'success paths of the operation issue point', len(okp), 2)
    for o in okp:
        tup = o.val[2][0]
        ok = tup[0] == 'tuple' and len(tup[1]) == 3
        if ok:
            res, exop, creds = tup[1]
            conv = [x for x in absx.leaves(res, lambda x: x[0] == 'call' and x[1] == FROM)]
            ok = len(conv) == 1 and res == ('field', conv[0], '0') and exop == ('field', conv[0], '1') and creds == ('field', conv[0], '2')
            if ok:
                resp = conv[0][2][0]      # response.0
                ok = resp[0] == 'field' and resp[2] == '0'
                ctr = o.st.heap.get(('field', res, 'ctrls'))
                ok = ok and ctr == ('field', resp[1], '1')
        ctx.add('T2.op-call-result', 'timed=%s' % any('timeout' in str(a) for a, t in o.st.pc), loc(O.root), ok,
                'op_call must return (from(response.0).0 with ctrls = response.1, .1, .2): %s' % absx.fmt(o.val)[:160])
    # every public operation returns the component its signature names
    n_ops = 0
    for m, comp, wrap in (('simple_bind', '0', None), ('sasl_external_bind', '0', None), ('add', '0', None), ('delete', '0', None), ('modify', '0', None),
                          ('modifydn', '0', None), ('compare', '0', 'result::CompareResult')):
        B2 = hirq.Body(f, f.body('ldap3::ldap::Ldap::' + m))
        ctx.analysed['bodies'].add(B2.path)
        n_ops += 1
        rets = [n for n, c in walk(B2.root) if n['k'] == 'Call' and hirq.short_def(n['f'].get('def', '')) == 'Ok' and any(callee_of(x) == C.op_call_path for x, _ in walk(n))]
        ok = len(rets) >= 1
        for r in rets:
            e = r['args'][0]
            if wrap:
                ok = ok and e['k'] == 'Call' and hirq.short_def(e['f'].get('ctor_of') or '') == wrap
                e = e['args'][0] if ok else e
            o = B2.origin(e)
            ok = ok and o[0][0] == 'call' and o[0][1] == C.op_call_path and o[1] == (('await',), ('try',), ('tup', int(comp)))
        ctx.add('T2.operation-returns-result', m, loc(B2.root), ok, 'Ldap::%s does not return component .%s of op_call\'s result' % (m, comp))
    B2 = hirq.Body(f, f.body('ldap3::ldap::Ldap::extended'))
    ctx.analysed['bodies'].add(B2.path)
    n_ops += 1
    ok = False
    for n, c in walk(B2.root):
        if n['k'] == 'MethodCall' and n['name'] == 'map' and n['args'] and n['args'][0]['k'] == 'Closure':
            cl = n['args'][0]
            t = cl['body']
            while t['k'] == 'Block' and t.get('expr'):
                t = t['expr']
            if t['k'] == 'Call' and hirq.short_def(t['f'].get('ctor_of') or '') == 'result::ExopResult' and len(t['args']) == 2:
                pb = list(hirq.pat_bindings(cl['params'][0]))[0][0]
                a0, a1 = t['args']
                ok = a0['k'] == 'Field' and a0['name'] == '1' and hirq.local_of(a0['e']) == pb and a1['k'] == 'Field' and a1['name'] == '0' and hirq.local_of(a1['e']) == pb
    ctx.add('T2.operation-returns-result', 'extended', loc(B2.root), ok, 'Ldap::extended must return ExopResult(exop = .1, result = .0) of op_call\'s result')
    ctx.floor('T2', 'operation result obligations', n_ops, 8)

    check_parse_controls(ctx, f, 'T3')
    check_empty_control_list(ctx, f, 'T3')
    from props import C07
    C07.check_parse_uint(ctx, f, 'T1')      # the result code (and the message ID) are read with this

    check_result_helpers(ctx, f, 'T4')
