"""C03 - results returned to the caller are exactly what the server sent."""
from facts import walk, callee_of, call_args, loc
import sem, hirq, anchors, absx

EXPLANATION = ("T1 path-sensitive extraction of LdapResultExt::from: on every success path resultCode = parse_uint of child 0 required "
               "universal ENUMERATED primitive, matchedDN = UTF-8 of child 1, diagnosticMessage = UTF-8 of child 2; the dispatch table "
               "on the context tag of the remaining children is {3 -> referral list via parse_refs, 7 -> SASL creds, 10 -> responseName, "
               "11 -> responseValue} as in RFC 4511, each stored to the variable that feeds the matching field of the returned struct; "
               "Tag::Null yields the all-empty success; T2 op_call returns (result with the envelope's controls, exop, creds) of that "
               "decoded response and every public operation returns the component its signature names; T3 parse_controls: child 0 -> "
               "controlType, BOOLEAN second child -> criticality = content[0] != 0 then value, OCTET STRING second child -> value with "
               "criticality false, absent -> (false, None); the known-OID table equals the RFC OIDs; T4 success()/non_error()/equal() "
               "are decided completely by evaluating them over the finite partition of result codes induced by the constants they "
               "compare with; T9 (C11 H8) the frame decoder interpreted exactly on element trees: a well-formed envelope - without, with an empty, with one / two / any controls - is delivered with its operation and with what parse_controls makes of exactly its controls element. Not decided: equality of arbitrary strings through String::from_utf8 / Vec moves (library semantics).")
TRUSTED = ['String::from_utf8 / Vec move semantics', 'lber TLV parser above the length reader (C07 B1 / B7)']
UNDECIDED = ['byte-level equality of arbitrary strings (std semantics)']
ASSUMPTIONS = []
SHARED = [('C01', ('R3.controls', 'R3.protocol-op'), 'T6.driver-forwards-the-message'), ('C16', ('A2.no-paging-control', 'A2.last-page-strips-control'), 'T5.paged-result-controls'),
          # "the referral list handed to the caller equals what the server encoded": the one place a decoded referral list is edited
          # before the caller sees it is EntriesOnly::finish (Ldap::search), which may only append the URIs of the reference messages to
          # the list decoded from the SearchResultDone - on every path
          ('C10', ('Q4.entries-only.finish-merges-refs',), 'T7.search-result-referrals-kept'),
          # "... equal the fields the server encoded, regardless of legal BER length-form variations in the encoding" (quantifier: "all
          # definite-length BER encodings of them"): whatever form a peer chose for a length - short, long, long with leading zeros, split
          # across reads anywhere inside the length field - the decoder must see the same length; that is what C07's B2 reader family decides
          # about lber's length reader (form by the first octet, exactly n octets read, their big-endian value, a field that has not
          # arrived completely is Incomplete and never an error or a shorter value, nothing refused for how it is written)
          ('C07', ('B2.reader',), 'T8.any-legal-length-form-reads-the-same'),
          # "response controls (OID, criticality, value) ... handed to the caller equal the fields the server encoded", over "all control
          # lists with and without criticality and value" - the empty list is one, and so is no list: the controls the caller is handed
          # are what the frame decoder makes of the envelope's trailing `controls [0] Controls OPTIONAL` element (RFC 4511 4.1.1), and
          # the result itself reaches the caller only if the envelope around it is delivered at all.  C11 H8 decides this by exact
          # interpretation of the frame decoder on element trees (rules/envelope.py): a well-formed LDAPMessage without a controls
          # element, with one that is empty, with one and two controls and with any control list (for any protocolOp) is delivered
          # with the operation element it holds and with what `parse_controls` (T3) makes of exactly that controls element - for the
          # empty element the empty vector is the same thing (T3.empty-list-decodes-to-no-controls) -, and never answered with a
          # decoding error, which would end the connection instead of handing the result to the caller
          ('C11', ('H8.well-formed-envelope-is-delivered',), 'T9.envelope-controls-are-the-decoded-controls-element')]      # the one place a response control list is edited before the caller sees it: exactly the paging control may go

RFC4511_RESULT_TAGS = {3: 'refs', 7: 'sasl_creds', 10: 'exop_name', 11: 'exop_val'}
RFC_CONTROL_OIDS = {
    'ControlType::PagedResults': '1.2.840.113556.1.4.319',       # RFC 2696
    'ControlType::PostReadResp': '1.3.6.1.1.13.2',               # RFC 4527
    'ControlType::PreReadResp': '1.3.6.1.1.13.1',                # RFC 4527
    'ControlType::SyncDone': '1.3.6.1.4.1.4203.1.9.1.3',         # RFC 4533
    'ControlType::SyncState': '1.3.6.1.4.1.4203.1.9.1.2',        # RFC 4533
    'ControlType::ManageDsaIt': '2.16.840.1.113730.3.4.2',       # RFC 3296
    'ControlType::MatchedValues': '1.2.826.0.1.3344810.2.3',     # RFC 3876
}
FROM = '<ldap3::result::LdapResultExt as core::convert::From<lber::structures::Tag>>::from'

def calls_above(t, stop):
    """Short names of the calls of term t that are not inside a sub-term satisfying `stop` (what is applied *to* such a sub-term)."""
    out = []
    def rec(x):
        if isinstance(x, tuple):
            if x and isinstance(x[0], str) and stop(x):
                return
            if x and x[0] == 'call' and isinstance(x[1], str):
                out.append(x[1].rsplit('::', 1)[-1])
            for y in x:
                rec(y)
    rec(t)
    return out

def calls_in(t):
    return [x[1].rsplit('::', 1)[-1] for x in absx.leaves(t, lambda x: x[0] == 'call')]

def nths(t):
    return sorted({x[3] for x in absx.leaves(t, lambda x: x[0] == 'nth')})

def struct_fields(v):
    return dict(v[2]) if v[0] == 'struct' else {}

def check_parse_controls(ctx, f, R='T3'):
    """The control list decoder (shared by C03 T3 and C19's envelope clause)."""
    # ------------------------------------------------------------------ T3 parse_controls
    P = hirq.Body(f, f.body('ldap3::controls_impl::parse_controls'))
    ctx.analysed['bodies'].add(P.path)
    pouts = absx.Interp(f, P, unroll=1).run()
    seen = set()
    for o in pouts:
        # the element that one generic control of the list contributes to the result: what a `for` loop over the list pushes,
        # or what the closure of `map(..).collect()` over the list yields (the returned term is then many(list, elem, value))
        pushes = [e[2][1] for e in o.st.ev if e[0] == 'call' and e[1].endswith('Vec::<T, A>::push')]
        if not pushes and o.kind in ('val', 'ret') and o.val[0] == 'many' and o.val[3] != ('skip',):
            pushes = [o.val[3]]
        if not pushes:
            continue
        ctl = pushes[0]
        if not (ctl[0] == 'ctor' and ctl[1].endswith('Control') and len(ctl[2]) == 2 and ctl[2][1][0] == 'struct'):
            ctx.fail(R + '.control-shape', 'push', loc(P.root), 'pushed value is not Control(type, RawControl{..})'); continue
        known, raw = ctl[2]
        rf = dict(raw[2])
        ctype, crit, val = rf.get('ctype'), rf.get('crit'), rf.get('val')
        def inner(t):
            """ordinals read from the per-control component cursor (whose base is itself an element of the control list)"""
            return sorted({x[3] for x in absx.leaves(t, lambda x: x[0] == 'nth') if absx.leaves(x[1], lambda y: y[0] in ('nth', 'elem'))})
        okt = inner(ctype) == [0] and 'from_utf8' in calls_in(ctype) and 'expect_primitive' in calls_in(ctype)
        # ... of a generic element of the list handed in (the constructed content of the parameter), not of some other list
        els = absx.leaves(ctype, lambda x: x[0] == 'elem')
        okt = okt and bool(els) and all('expect_constructed' in calls_in(x[1]) and absx.leaves(x[1], lambda y: y[0] == 'param') for x in els)
        def second_pc(pred):
            return any(t and pred(a) for a, t in o.st.pc)
        absent = absx.pc_variant(o.st.pc, lambda v: v[0] == 'nth' and v[3] == 1 and inner(v) == [1], 'None') is True
        def id_is(a, n, name):
            return a[0] == 'bin' and a[1] == 'Eq' and a[2][0] == 'field' and a[2][2] == 'id' and inner(a[2]) == [1] \
                and (a[3] == ('lit', n) or a[3] == ('cast', ('ctor', 'Types::' + name, ()), 'u64'))
        is_bool = second_pc(lambda a: id_is(a, 1, 'Boolean'))
        is_octet = second_pc(lambda a: id_is(a, 4, 'OctetString'))
        if absent:
            case = 'absent'
            ok = crit == ('lit', False) and val == ('ctor', 'None', ())
        elif is_bool:
            idx = absx.leaves(crit, lambda x: x[0] == 'index')
            okc = crit[0] == 'not' and len(idx) == 1 and idx[0][2] == ('lit', 0) and inner(idx[0][1]) == [1] and crit[1] == ('bin', 'Eq', idx[0], ('lit', 0))
            if val == ('ctor', 'None', ()):
                case = 'boolean'
                ok = okc and absx.pc_variant(o.st.pc, lambda v: v[0] == 'nth' and v[3] == 2, 'None') is True
            else:
                case = 'boolean+value'
                ok = okc and val[0] == 'ctor' and val[1] == 'Some' and inner(val) == [2] and 'expect_primitive' in calls_in(val)
        elif is_octet:
            case = 'octet-string'
            ok = crit == ('lit', False) and val[0] == 'ctor' and val[1] == 'Some' and inner(val) == [1] and 'expect_primitive' in calls_in(val)
        else:
            continue
        seen.add(case)
        ctx.add(R + '.control-type', case, loc(P.root), okt, 'controlType is not the UTF-8 content of child 0')
        ctx.add(R + '.criticality-and-value', case, loc(P.root), ok, 'case %s: crit=%s val=%s' % (case, absx.fmt(crit)[:80], absx.fmt(val)[:80]))
        gets = [x for x in absx.leaves(known, lambda x: x[0] == 'call' and x[1].endswith('HashMap::<K, V, S, A>::get'))]
        okk = known[0] == 'call' and len(gets) == 1 and gets[0][2][1] == ctype and 'CONTROLS' in str(gets[0][2][0])
        ctx.add(R + '.known-type-lookup', case, loc(P.root), okk, 'the recognised control type is not looked up in the OID table with this control\'s own type')
    for need in ('absent', 'boolean', 'boolean+value', 'octet-string'):
        ctx.add(R + '.coverage', need, loc(P.root), need in seen, 'no path of parse_controls for a second component that is ' + need)
    # the OID table
    init = [h for p, h in f.hir.items() if p.startswith('<ldap3::controls_impl::CONTROLS as core::ops::deref::Deref>::deref::__static_ref_initialize')]
    init = anchors.one('CONTROLS initialiser', init)
    got = {}
    for n, c in walk(init['body']):
        if n['k'] == 'MethodCall' and n['name'] == 'insert' and len(n['args']) == 2:
            oid = hirq.const_eval(f, n['args'][0])
            v = hirq.short_def(n['args'][1].get('ctor_of') or n['args'][1].get('def') or '')
            got[v] = oid
    for k in sorted(set(got) | set(RFC_CONTROL_OIDS)):
        ctx.add(R + '.oid-table', k, loc(init['body']), got.get(k) == RFC_CONTROL_OIDS.get(k), 'OID table: %s -> %s, RFCs: %s' % (k, got.get(k), RFC_CONTROL_OIDS.get(k)))



def check_empty_control_list(ctx, f, R='T3'):
    """T3.empty-list-decodes-to-no-controls: a controls element that holds no control (`a0 00`) is a well-formed encoding of the empty
    control list; the control-list decoder interpreted exactly on that literal element (the accessors of the element type inlined)
    answers the empty vector and nothing else - no panic, no phantom control.  (The frame decoder may therefore skip the call for
    such an element: C11 H8 / T9 accept either.)"""
    import envelope
    P = hirq.Body(f, f.body('ldap3::controls_impl::parse_controls'))
    I = absx.Interp(f, P, unroll=2, inline=lambda c: c.startswith('lber::structure::') or c.startswith('<lber::structure::'), combinators=True, places=True)
    I.exact_seqs = True
    ps = [b for b, d in P.defs.items() if d['kind'] == 'param' and not d['proj']]
    outs = I.run(env={b: envelope.CT0 for b in ps}) if len(ps) == 1 else []
    got = sorted({o.kind + ' ' + absx.fmt(o.val)[:40] for o in outs})
    ctx.add(R + '.empty-list-decodes-to-no-controls', 'a0 00', loc(P.root), len(outs) == 1 and outs[0].kind in ('val', 'ret') and outs[0].val == ('vec', ()),
            'the control-list decoder applied to a controls element that holds no control does not answer the empty list: %s' % (got or 'not decided'))


def check_result_helpers(ctx, f, R='T4', only=None):
    """success()/non_error()/equal() decided over the finite partition of result codes (shared with C17 W2)."""
    # ------------------------------------------------------------------ T4 helpers over the finite partition of result codes
    HELPERS = {
        'ldap3::result::LdapResult::success': {0: 'Ok'},
        'ldap3::result::LdapResult::non_error': {0: 'Ok', 10: 'Ok'},
        'ldap3::result::SearchResult::success': {0: 'Ok'},
        'ldap3::result::SearchResult::non_error': {0: 'Ok', 10: 'Ok'},
        'ldap3::result::ExopResult::success': {0: 'Ok'},
        'ldap3::result::ExopResult::non_error': {0: 'Ok', 10: 'Ok'},
        'ldap3::result::CompareResult::equal': {5: 'Ok(false)', 6: 'Ok(true)'},
        'ldap3::result::CompareResult::non_error': {5: 'Ok', 6: 'Ok', 10: 'Ok'},
    }
    consts = set()
    for p in HELPERS:
        for n, c in walk(f.body(p)['body']):
            if n['k'] == 'Lit' and isinstance(n.get('v'), int) and not isinstance(n.get('v'), bool):
                consts.add(n['v'])
            if n['k'] == 'Match':
                for a in n['arms']:
                    for v in (hirq.pat_lits(a['pat']) or []):
                        consts.add(v)
            # named constants, in expression or pattern position
            for d in [n.get('def')] + ([x['e'].get('def') for x in ([n['pat']] + n['pat'].get('pats', [])) if x.get('k') == 'PExpr'] if n.get('k') == 'LetExpr' else []):
                if d and str(n.get('defkind') or 'Const').startswith(('Const', 'AssocConst')) or (d and n.get('k') == 'LetExpr'):
                    v = hirq.const_eval(f, {'k': 'Path', 'res': 'def', 'defkind': 'Const', 'def': d})
                    if isinstance(v, int) and not isinstance(v, bool):
                        consts.add(v)
    partition = sorted(consts | {c + d for c in consts for d in (-1, 1) if c + d >= 0} | {0, 1, 2, 3, 4, 5, 6, 7, 10, 11, 80, 88, 255, 4294967295})
    for p, table in HELPERS.items():
        if only is not None and p not in only:
            continue
        Bh = hirq.Body(f, f.body(p))
        ctx.analysed['bodies'].add(p)
        # rc must only be compared (==, !=, match literal): then the partition is exact
        bad_use = []
        for n, c in walk(Bh.root):
            if n['k'] == 'Field' and n['name'] == 'rc':
                anc, role = c[-1]
                if not ((anc['k'] == 'Binary' and anc['op'] in ('Eq', 'Ne', 'Lt', 'Le', 'Gt', 'Ge')) or (anc['k'] == 'Match' and role == 'scrut')
                        or (anc['k'] == 'LetExpr' and role == 'init')):
                    bad_use.append(anc['k'] + ':' + str(anc.get('op')))
        ctx.add(R + '.comparison-only', p, loc(Bh.root), not bad_use, 'the result code is used other than in ==/match comparisons (%s): the finite partition is not exact' % bad_use)
        wrong = []
        for rc in partition:
            outs = absx.Interp(f, Bh, field_hook=lambda base, name, st, rc=rc: ('lit', rc) if name == 'rc' else None,
                               inline=lambda cal: cal in HELPERS and cal != p).run()      # a helper may delegate to a sibling helper
            rs = set()
            for o in outs:
                v = o.val
                if v[0] == 'ctor' and v[1] == 'Ok':
                    inner = v[2][0]
                    rs.add('Ok(%s)' % str(inner[1]).lower() if inner[0] == 'lit' and isinstance(inner[1], bool) else 'Ok')
                elif v[0] == 'ctor' and v[1] == 'Err':
                    rs.add('Err')
                else:
                    rs.add('?')
            exp = table.get(rc, 'Err')
            if rs != {exp}:
                wrong.append((rc, sorted(rs), exp))
        ctx.add(R + '.helper', p, loc(Bh.root), not wrong, 'result-code classes decided wrongly (rc, got, documented): %s' % wrong[:6])


def run(ctx):
    f = ctx.facts
    # ------------------------------------------------------------------ T1
    B = hirq.Body(f, f.body(FROM))
    ctx.analysed['bodies'].add(B.path)
    outs = absx.Interp(f, B, unroll=1, combinators=True).run()
    succ = [o for o in outs if o.kind in ('val', 'ret') and o.val[0] == 'ctor' and o.val[1].endswith('LdapResultExt')]
    n_struct = 0
    for o in succ:
        res, exop, creds = o.val[2]
        rf = struct_fields(res)
        if any(t and a[0] == 'is' and a[2] == 'Tag::Null' for a, t in o.st.pc):
            ok = rf.get('rc') == ('lit', 0) and rf.get('matched') == ('lit', '') and rf.get('text') == ('lit', '') and struct_fields(exop).get('name') == ('ctor', 'None', ()) \
                and struct_fields(exop).get('val') == ('ctor', 'None', ()) and creds == ('ctor', 'ldap::SaslCreds', (('ctor', 'None', ()),))
            ctx.add('T1.null-is-empty-success', 'Tag::Null', loc(B.root), ok, 'the driver\'s acknowledgement (Tag::Null) must convert to rc 0 with empty fields')
            continue
        n_struct += 1
        rc = rf.get('rc', ('unk',))
        ok = nths(rc) == [0] and all(c in calls_in(rc) for c in ('parse_uint', 'expect_primitive', 'match_id', 'match_class'))
        mid = [x for x in absx.leaves(rc, lambda x: x[0] == 'call' and x[1].endswith('match_id'))]
        ok = ok and any(a == ('lit', 10) or a == ('cast', ('ctor', 'Types::Enumerated', ()), 'u64') for x in mid for a in x[2][1:])
        mcl = [x for x in absx.leaves(rc, lambda x: x[0] == 'call' and x[1].endswith('match_class'))]
        ok = ok and any(a == ('ctor', 'TagClass::Universal', ()) for x in mcl for a in x[2][1:])
        # a path that answers a constant instead (a code the field cannot hold): acceptable when the constant is a refusal - none of the
        # codes the helpers accept - and the path has looked at the decoded element (T1.result-code-exact decides when such a path is taken)
        if not ok and rc[0] == 'lit' and isinstance(rc[1], int) and rc[1] not in (0, 5, 6, 10):
            ok = any(sem.has(a, lambda x: x[0] == 'call' and x[1].endswith('::expect_primitive') and nths(x) == [0]) for a, t in o.st.pc)
        ctx.add('T1.result-code', 'child 0', loc(B.root), ok, 'resultCode is not parse_uint of child 0 as universal ENUMERATED primitive: %s%s' % (absx.fmt(rc)[:120],
                ' - on this path the code handed to the caller is not decoded from the response at all (the default of the integer type is 0 = success): a response whose resultCode element is missing, of another class or tag, or constructed must fail to decode, not pass success()' if not nths(rc) else ''))
        for name, ordn in (('matched', 1), ('text', 2)):
            t = rf.get(name, ('unk',))
            ok = nths(t) == [ordn] and 'from_utf8' in calls_in(t) and 'expect_primitive' in calls_in(t)
            ctx.add('T1.' + name, 'child %d' % ordn, loc(B.root), ok, '%s is not the UTF-8 content of child %d: %s' % (name, ordn, absx.fmt(t)[:120]))
        ctx.add('T1.ctrls-empty', 'ctrls', loc(B.root), rf.get('ctrls') == ('vec', ()),
                'LdapResultExt::from must leave ctrls empty (the envelope controls are added by op_call)')
    ctx.floor('T1', 'success paths of the LDAPResult decoder', n_struct, 1)
    # T1.result-code-exact: how the content octets of the resultCode become the `rc` field is decided by literal evaluation of the
    # decoder itself (whatever reads them): with the content of child 0 fixed to a literal octet string, rc is the number the octets
    # denote whenever the field's type can hold it; a code the field cannot hold must not come out as one of the codes the helpers
    # success() / non_error() / equal() accept (0, 10, 5, 6) - a refusal must never read as success
    import props.C19 as c19
    wrong, n_ev = [], 0
    vecs = c19.int_vectors() + [b'', b'\x01\x00\x00\x00\x00', b'\x01\x00\x00\x00\x0a', b'\x01' + b'\x00' * 8, b'\x80' + b'\x00' * 8, b'\x01' + b'\x00' * 7 + b'\x05', b'\xff' * 9, b'\x02' + b'\x00' * 11 + b'\x06']
    for octets in sorted(set(vecs), key=lambda x: (len(x), x)):
        v = int.from_bytes(octets, 'big')
        def content(I, cal, args, node, st, octets=octets):
            if cal.endswith('::expect_primitive') and len(args) == 1 and nths(args[0]) == [0]:
                return [absx.Out('val', ('ctor', 'Some', (('lit', octets),)), st)]
            return None
        for o in absx.Interp(f, B, summaries=[content], unroll=1, inline=lambda c: c == 'lber::parse::parse_uint', combinators=True).run():
            if o.kind not in ('val', 'ret') or o.val[0] != 'ctor' or len(o.val[2]) != 3 or o.val[2][0][0] != 'struct':
                continue
            if any(t and a[0] == 'is' and a[2] == 'Tag::Null' for a, t in o.st.pc):
                continue            # the driver's own acknowledgement, not a decoded response
            n_ev += 1
            got = struct_fields(o.val[2][0]).get('rc', ('unk',))
            fits = v <= 2**32 - 1
            refusal = got[0] == 'lit' and got[1] not in (0, 5, 6, 10)
            # more than eight content octets is not a minimal encoding of anything the field can hold: exact, or a refusal
            padded_ok = len(octets) > 8 and (got == ('lit', v) or (refusal and v not in (0, 5, 6, 10)))
            if not octets:
                # no content octets: the element denotes no number at all (X.690 8.4 / 8.3.1: at least one) - whatever the caller is
                # handed, it must not be a code the helpers accept
                if not refusal:
                    w = ('(empty)', absx.fmt(got)[:24], 'no code at all')
                    if w not in wrong:
                        wrong.append(w)
                continue
            if not padded_ok and ((fits and got != ('lit', v)) or (not fits and not refusal)):
                w = (octets.hex() or '(empty)', absx.fmt(got)[:24], v if fits else 'does not fit u32')
                if w not in wrong:
                    wrong.append(w)
    ctx.add('T1.result-code-exact', 'child 0', loc(B.root), n_ev > 0 and not wrong,
            'the result code is not read exactly: with the content octets of the resultCode fixed to literal strings, %d differ from the number they denote, or a code too large for the field '
            'comes out as one the success helpers accept; (octets, rc, denotes): %s' % (len(wrong), wrong[:5]))
    # dispatch table, decided by evaluating the decoder once per component tag number (finite partition: the numbers it compares
    # with and representatives of the rest): the component loop is run on one generic trailing component whose tag is that
    # number, and what is read off is which field of the returned value receives (something computed from) that component
    nums = set()
    for n, c in walk(B.root):
        if n['k'] == 'Match':
            for a in n['arms']:
                for v in (hirq.pat_lits(a['pat']) or ()):
                    if isinstance(v, int):
                        nums.add(v)
        if n['k'] == 'Lit' and isinstance(n.get('v'), int) and not isinstance(n.get('v'), bool) and 0 <= n['v'] < 64:
            nums.add(n['v'])
    domain = sorted(nums | set(RFC4511_RESULT_TAGS) | {0, 1, 2, 4, 5, 6, 8, 9, 12, 30})
    is_elem = lambda x: x[0] == 'elem'
    n_eval = 0
    for tagno in domain:
        def hook(base, name, st, tagno=tagno):
            if name == 'id' and base[0] == 'elem':
                return ('lit', tagno)
            return None
        got = set()
        vias = {}
        vias_above = {}
        per_path = []
        for o in absx.Interp(f, B, unroll=1, for_once=True, field_hook=hook).run():
            if not (o.kind in ('val', 'ret') and o.val[0] == 'ctor' and o.val[1].endswith('LdapResultExt')) or any(t and a[0] == 'is' and a[2] == 'Tag::Null' for a, t in o.st.pc):
                continue
            n_eval += 1
            got_before = set(got)
            got.clear()
            per_path.append((o, got))
            res, exop, creds = o.val[2]
            fields = {'refs': struct_fields(res).get('refs', ('unk',)), 'exop_name': struct_fields(exop).get('name', ('unk',)),
                      'exop_val': struct_fields(exop).get('val', ('unk',)), 'sasl_creds': creds}
            for other in ('rc', 'matched', 'text', 'ctrls'):
                if sem.has(struct_fields(res).get(other, ('unk',)), is_elem):
                    got.add(other)
            for k, t in fields.items():
                # the accumulator carried around the loop may itself mention earlier components: look at what this iteration adds
                if sem.has(t, is_elem):
                    got.add(k)
                    vias[k] = calls_in(t)
                    vias_above.setdefault(k, []).extend(calls_above(t, is_elem))
            for e in o.st.ev:
                if e[0] == 'call' and e[1].rsplit('::', 1)[-1] in ('extend', 'push', 'append') and any(sem.has(a, is_elem) for a in e[2][1:]):
                    got.add('refs' if sem.has(fields['refs'], lambda x: True) and e[2][0] == fields['refs'] or True else 'refs')
                    vias['refs'] = [c for a in e[2][1:] for c in calls_in(a)]
            per_path[-1] = (o, set(got))
            got |= got_before
        exp = RFC4511_RESULT_TAGS.get(tagno)
        if exp is not None and per_path:
            # ... on every path, whatever the component contains: a component that is present is never read as absent
            miss = [o for o, g in per_path if exp not in g]
            ctx.add('T1.dispatch-entry-unconditional', '[%d]' % tagno, loc(B.root), not miss,
                    'on a path on which the trailing component [%d] is present, %s does not receive it (%s): a present component is decoded as absent' % (
                        tagno, exp, ', '.join(('' if t else '!') + absx.fmt(a)[:60] for a, t in (miss[0].st.pc[-2:] if miss else []))))
        if exp is None:
            ctx.add('T1.dispatch-default', 'tag %d' % tagno, loc(B.root), not got, 'a trailing component with tag [%d] (not defined for LDAPResult) changes %s' % (tagno, sorted(got)))
            continue
        via = vias.get(exp, [])
        ok = got == {exp}
        if exp == 'refs':
            ok = ok and 'parse_refs' in via
        elif exp in ('sasl_creds', 'exop_val'):
            ok = ok and 'expect_primitive' in via and 'from_utf8' not in via
        elif exp == 'exop_name':
            ok = ok and 'expect_primitive' in via and 'from_utf8' in via
        if exp in ('sasl_creds', 'exop_val', 'exop_name'):
            # the component's content is stored as it is: nothing between the primitive content and the field that could drop,
            # replace or condition it (Option::filter, then_some, a lossy conversion, ...)
            TRANSPARENT = {'expect_primitive', 'into', 'to_vec', 'to_owned', 'clone', 'from', 'into_owned', 'as_ref', 'as_slice', 'into_boxed_slice', 'into_vec'} | ({'from_utf8'} if exp == 'exop_name' else set())
            extra = sorted(set(vias_above.get(exp, [])) - TRANSPARENT)
            ctx.add('T1.dispatch-entry-verbatim', '[%d]' % tagno, loc(B.root), not extra,
                    'component [%d] reaches %s through %s: its content can be dropped or altered on the way' % (tagno, exp, extra))
        ctx.add('T1.dispatch-entry', '[%d]' % tagno, loc(B.root), ok, 'component [%d] feeds %s via %s; RFC 4511: %s' % (tagno, sorted(got), via, exp))
    ctx.floor('T1', 'decoder evaluations over component tags', n_eval, len(domain))

    # ------------------------------------------------------------------ T2
    C = anchors.Conn(f)
    O = C.op_call
    ctx.analysed['bodies'].add(O.path)
    oo = absx.Interp(f, O).run(root=O.root['body'] if O.root['k'] == 'Closure' else O.root)
    okp = [o for o in oo if o.kind in ('val', 'ret') and o.val[0] == 'ctor' and o.val[1] == 'Ok']
    ctx.floor('T2', 'success paths of the operation issue point', len(okp), 2)
    for o in okp:
        tup = o.val[2][0]
        ok = tup[0] == 'tuple' and len(tup[1]) == 3
        if ok:
            res, exop, creds = tup[1]
            conv = [x for x in absx.leaves(res, lambda x: x[0] == 'call' and x[1] == FROM)]
            ok = len(conv) == 1 and res == ('field', conv[0], '0') and exop == ('field', conv[0], '1') and creds == ('field', conv[0], '2')
            if ok:
                resp = conv[0][2][0]      # response.0
                ok = resp[0] == 'field' and resp[2] == '0'
                ctr = o.st.heap.get(('field', res, 'ctrls'))
                ok = ok and ctr == ('field', resp[1], '1')
        ctx.add('T2.op-call-result', 'timed=%s' % any('timeout' in str(a) for a, t in o.st.pc), loc(O.root), ok,
                'op_call must return (from(response.0).0 with ctrls = response.1, .1, .2): %s' % absx.fmt(o.val)[:160])
    # every public operation returns the component its signature names
    n_ops = 0
    for m, comp, wrap in (('simple_bind', '0', None), ('sasl_external_bind', '0', None), ('add', '0', None), ('delete', '0', None), ('modify', '0', None),
                          ('modifydn', '0', None), ('compare', '0', 'result::CompareResult')):
        B2 = hirq.Body(f, f.body('ldap3::ldap::Ldap::' + m))
        ctx.analysed['bodies'].add(B2.path)
        n_ops += 1
        rets = [n for n, c in walk(B2.root) if n['k'] == 'Call' and hirq.short_def(n['f'].get('def', '')) == 'Ok' and any(callee_of(x) == C.op_call_path for x, _ in walk(n))]
        ok = len(rets) >= 1
        for r in rets:
            e = r['args'][0]
            if wrap:
                ok = ok and e['k'] == 'Call' and hirq.short_def(e['f'].get('ctor_of') or '') == wrap
                e = e['args'][0] if ok else e
            o = B2.origin(e)
            ok = ok and o[0][0] == 'call' and o[0][1] == C.op_call_path and o[1] == (('await',), ('try',), ('tup', int(comp)))
        ctx.add('T2.operation-returns-result', m, loc(B2.root), ok, 'Ldap::%s does not return component .%s of op_call\'s result' % (m, comp))
    B2 = hirq.Body(f, f.body('ldap3::ldap::Ldap::extended'))
    ctx.analysed['bodies'].add(B2.path)
    n_ops += 1
    ok = False
    for n, c in walk(B2.root):
        if n['k'] == 'MethodCall' and n['name'] == 'map' and n['args'] and n['args'][0]['k'] == 'Closure':
            cl = n['args'][0]
            t = cl['body']
            while t['k'] == 'Block' and t.get('expr'):
                t = t['expr']
            if t['k'] == 'Call' and hirq.short_def(t['f'].get('ctor_of') or '') == 'result::ExopResult' and len(t['args']) == 2:
                pb = list(hirq.pat_bindings(cl['params'][0]))[0][0]
                a0, a1 = t['args']
                ok = a0['k'] == 'Field' and a0['name'] == '1' and hirq.local_of(a0['e']) == pb and a1['k'] == 'Field' and a1['name'] == '0' and hirq.local_of(a1['e']) == pb
    ctx.add('T2.operation-returns-result', 'extended', loc(B2.root), ok, 'Ldap::extended must return ExopResult(exop = .1, result = .0) of op_call\'s result')
    ctx.floor('T2', 'operation result obligations', n_ops, 8)

    check_parse_controls(ctx, f, 'T3')
    check_empty_control_list(ctx, f, 'T3')
    from props import C07
    C07.check_parse_uint(ctx, f, 'T1')      # the result code (and the message ID) are read with this

    check_result_helpers(ctx, f, 'T4')
