"""C09 - escaped text is inert."""
from facts import walk, callee_of, call_args, loc
import hirq, anchors, absx, unesc

EXPLANATION = ("The escape functions are per-byte transducers; their loop bodies are abstractly evaluated on literals for every byte value "
               "(0..255) crossed with the finitely many contexts the body distinguishes (output already started?; for dn_escape: first "
               "position?, last position?), so the decision - hex-escape or copy - and the three emitted bytes `\\`, hex(c>>4), hex(c&15) "
               "are decided exhaustively: E1 ldap_escape escapes exactly {\\ * ( ) NUL} = complement of the filter lexer's value class "
               "(extracted from filter.rs) plus the unescaper's trigger byte; E2 dn_escape always escapes a superset of RFC 4514's specials "
               "within ASCII punctuation, space and # only in first position, space only in last; E3 emission order and the single copy of "
               "the unescaped prefix at the first escape; E4 the input itself is returned when nothing was escaped; E5 ldap_unescape drives "
               "the shared unescaper (itself evaluated exhaustively over all 5120 (state, byte) pairs against the RFC 4515 automaton), copies "
               "the prefix when the first escape starts, pushes exactly the Value bytes, returns the input when no escape was seen and an "
               "error when the final state is not Value. Not decided: an RFC 4514 parser (there is none in the repository); round trip taken whole.")
TRUSTED = ['String::from_utf8 / Cow semantics', 'the for loop visits the bytes in order (std enumerate)']
UNDECIDED = ['the RFC 4514 parser side (none in the repository)', 'round-trip equality of whole strings (the per-byte transducer is decided)']
ASSUMPTIONS = []

RFC4514_SPECIAL = set(b'"+,;<>\\') | {0}
ASCII_PUNCT = set(b'!"#$%&\'()*+,-./:;<=>?@[\\]^_`{|}~')
HEXCH = b'0123456789abcdef'

def inline_local(prefix):
    return lambda cal: cal.startswith(prefix)

def loop_of(B):
    fs = [n for n, c in walk(B.root) if n['k'] == 'For']
    return fs[0] if len(fs) == 1 else None

def run_body(f, B, fornode, c, out_started, extra_env=None, summaries=None, inline=None):
    """Evaluate the loop body for literal byte c. Returns list of (pc, pushes, events, state)."""
    I = absx.Interp(f, B, summaries=summaries or [], inline=inline or (lambda x: False))
    binds = list(hirq.pat_bindings(fornode['pat']))
    env = {}
    for b, name, proj, pn in binds:
        if proj == (('tup', 0),):
            env[b] = ('param', 'i')
        else:
            env[b] = ('lit', c)
    outb = [b for b, d in B.defs.items() if d['kind'] == 'let' and d['name'] == 'output' and d['src'] is not None and d['src'].get('k') == 'Path']
    inb = [b for b, d in B.defs.items() if d['kind'] == 'let' and d['src'] is not None and d['src'].get('k') == 'MethodCall' and d['src'].get('name') == 'into']
    for b in outb:
        env[b] = ('ctor', 'Some', (('vec', ()),)) if out_started else ('ctor', 'None', ())
    for b in inb:
        env[b] = ('param', 'input')
    env.update(extra_env or {})
    res = []
    for o in I.ev(fornode['body'], absx.St(env)):
        pushes = [e[2][1] for e in o.st.ev if e[0] == 'call' and e[1].endswith('Vec::<T, A>::push')]
        res.append((o, pushes))
    return res, outb

def escape_bytes(c):
    return [('lit', 0x5c), ('lit', HEXCH[c >> 4]), ('lit', HEXCH[c & 15])]

def run(ctx):
    f = ctx.facts
    # ------------------------------------------------------------------ E1/E3 ldap_escape
    B = hirq.Body(f, f.body('ldap3::util::ldap_escape'))
    ctx.analysed['bodies'].add(B.path)
    fn = loop_of(B)
    if fn is None:
        ctx.fail('anchor-missing', 'ldap_escape loop', '', 'expected one for loop'); return
    it = fn['iter']
    ok_iter = it['k'] == 'MethodCall' and it['name'] == 'enumerate' and B.roots(B.origin(it['recv'])) == {('param', 'lit')} and \
        [x['name'] for x, _ in walk(it) if x['k'] == 'MethodCall'] == ['enumerate', 'iter', 'as_bytes', ]
    ctx.add('E3.iterates-input-bytes-in-order', 'ldap_escape', loc(fn), ok_iter, 'the loop does not enumerate the bytes of the input in order')
    inl = inline_local('ldap3::util::ldap_escape::')
    escaped = set()
    wrong = []
    n_eval = 0
    for c in range(256):
        for started in (False, True):
            res, outb = run_body(f, B, fn, c, started, inline=inl)
            n_eval += 1
            if len(res) != 1:
                wrong.append((c, started, 'paths=%d' % len(res))); continue
            o, pushes = res[0]
            if pushes == escape_bytes(c):
                escaped.add(c)
                ext = [e for e in o.st.ev if e[0] == 'call' and e[1].endswith('::extend')]
                if not started:
                    okp = len(ext) == 1 and ext[0][2][1][0] == 'index' and ext[0][2][1][1] == ('param', 'input') and ext[0][2][1][2][0] == 'struct' \
                        and ext[0][2][1][2][1].endswith('RangeTo') and dict(ext[0][2][1][2][2]).get('end') == ('param', 'i')
                    new = o.st.env.get(outb[0])
                    okp = okp and new is not None and new[0] == 'ctor' and new[1] == 'Some'
                    if not okp:
                        wrong.append((c, started, 'prefix not copied once as input[..i] at the first escape'))
                elif ext:
                    wrong.append((c, started, 'prefix copied again'))
            elif started and pushes == [('lit', c)]:
                pass
            elif not started and pushes == []:
                pass
            else:
                wrong.append((c, started, [absx.fmt(p) for p in pushes]))
    ctx.add('E3.per-byte-transducer', 'ldap_escape', loc(B.root), not wrong, 'for (byte, output started) the loop body emits: %s' % wrong[:6])
    # value class of the filter lexer, from filter.rs
    import importlib
    C08 = importlib.import_module('props.C08')
    vclass = C08.eval_class(f, ('fn', 'ldap3::filter::is_value_char'))
    want = (set(range(256)) - (vclass or set())) | {0x5c}
    ctx.add('E1.escape-set-agrees-with-filter-lexer', 'ldap_escape', loc(B.root), vclass is not None and escaped == want,
            'ldap_escape escapes %s; the filter lexer rejects %s in values and unescapes on backslash' % (sorted(escaped), sorted(want - {0x5c})))
    ctx.add('E1.escape-set', 'ldap_escape', loc(B.root), escaped == {0, 0x28, 0x29, 0x2a, 0x5c}, 'escape set is %s, documented: \\ * ( ) NUL' % sorted(escaped))
    ctx.analysed['notes'].append({'ldap_escape evaluations': n_eval})
    check_tail(ctx, f, B, 'ldap_escape', 'lit')

    # ------------------------------------------------------------------ E2 dn_escape
    D = hirq.Body(f, f.body('ldap3::util::dn_escape'))
    ctx.analysed['bodies'].add(D.path)
    fd = loop_of(D)
    if fd is None:
        ctx.fail('anchor-missing', 'dn_escape loop', '', 'expected one for loop'); return
    inl = inline_local('ldap3::util::dn_escape::')
    always, leading, trailing = set(), set(), set()
    wrong = []
    for c in range(256):
        for started in (False, True):
            res, outb = run_body(f, D, fd, c, started, inline=inl)
            for o, pushes in res:
                first = next((t for a, t in o.st.pc if a == ('bin', 'Eq', ('param', 'i'), ('lit', 0))), None)
                last = next((t for a, t in o.st.pc if a[0] == 'bin' and a[1] == 'Eq' and a[2] == ('bin', 'Add', ('param', 'i'), ('lit', 1)) and a[3][0] == 'call' and a[3][1].endswith('::len')), None)
                esc = pushes == escape_bytes(c)
                plain = pushes == ([('lit', c)] if started else [])
                if not (esc or plain):
                    wrong.append((c, started, first, last, [absx.fmt(p) for p in pushes])); continue
                if esc:
                    if first is None and last is None:
                        always.add(c)
                    elif first is True:
                        leading.add(c)
                    elif last is True:
                        trailing.add(c)
                    else:
                        wrong.append((c, 'escaped with first=%s last=%s' % (first, last)))
                else:
                    if c in always:
                        wrong.append((c, 'sometimes not escaped'))
    leading -= always
    trailing -= always
    ctx.add('E3.per-byte-transducer', 'dn_escape', loc(D.root), not wrong, 'unexpected loop-body behaviour: %s' % wrong[:6])
    ctx.add('E2.always-escaped', 'dn_escape', loc(D.root), RFC4514_SPECIAL <= always and always <= (ASCII_PUNCT | {0}),
            'always-escaped set %s must contain RFC 4514\'s %s and stay within ASCII punctuation' % (sorted(always), sorted(RFC4514_SPECIAL)))
    ctx.add('E2.leading', 'dn_escape', loc(D.root), leading == {0x20, 0x23}, 'escaped only in first position: %s, RFC 4514: space and #' % sorted(leading))
    ctx.add('E2.trailing', 'dn_escape', loc(D.root), trailing == {0x20}, 'escaped only in last position: %s, RFC 4514: space' % sorted(trailing))
    check_tail(ctx, f, D, 'dn_escape', 'val')

    # ------------------------------------------------------------------ E5 ldap_unescape
    n, w = unesc.check_feed(f)
    ctx.add('E5.unescaper-automaton', 'Unescaper::feed', '', not w and n == 5120, 'the shared unescaper differs from the RFC 4515 automaton on %d of %d (state, byte) pairs: %s' % (len(w), n, w[:4]))
    U = hirq.Body(f, f.body('ldap3::util::ldap_unescape'))
    ctx.analysed['bodies'].add(U.path)
    fu = loop_of(U)
    if fu is None:
        ctx.fail('anchor-missing', 'ldap_unescape loop', '', 'expected one for loop'); return
    escb = [b for b, d in U.defs.items() if d['kind'] == 'let' and d['name'] == 'esc']
    wrong = []
    for s in unesc.all_states():
        for c in list(range(0, 256, 7)) + list(unesc.HEX) + [0x5c]:
            for started in (False, True):
                res, outb = run_body(f, U, fu, c, started, extra_env={escb[0]: unesc.state_term(s)}, summaries=[unesc.char_summary], inline=lambda cal: cal == unesc.FEED)
                exp_state = unesc.ref_feed(s, c)
                for o, pushes in res:
                    ns = unesc.from_term(o.st.env.get(escb[0], ('unk',)))
                    if ns != exp_state:
                        wrong.append((s, c, 'state', ns)); continue
                    ext = [e for e in o.st.ev if e[0] == 'call' and e[1].endswith('::extend')]
                    if exp_state[0] == 'Value':
                        exp_push = [('lit', exp_state[1])] if started else []
                    else:
                        exp_push = []
                    if pushes != exp_push:
                        wrong.append((s, c, started, 'pushes', [absx.fmt(p) for p in pushes]))
                    if exp_state[0] == 'WantFirst' and not started:
                        new = o.st.env.get(outb[0])
                        if not (len(ext) == 1 and new is not None and new[0] == 'ctor' and new[1] == 'Some'):
                            wrong.append((s, c, 'output not started with the prefix when the first escape begins'))
                    elif ext:
                        wrong.append((s, c, started, 'unexpected prefix copy'))
    ctx.add('E5.unescape-loop', 'ldap_unescape', loc(U.root), not wrong, 'loop body deviates from "feed, push Value bytes, start output at first backslash": %s' % wrong[:5])
    # tail: output Some -> Value ? Ok(Owned(from_utf8(output)?)) : Err ; None -> Ok(val)
    I = absx.Interp(f, U)
    tails = {}
    t = U.root.get('expr')
    outb = [b for b, d in U.defs.items() if d['kind'] == 'let' and d['name'] == 'output' and d['src'] is not None and d['src'].get('k') == 'Path']
    inb = [b for b, d in U.defs.items() if d['kind'] == 'let' and d['src'] is not None and d['src'].get('k') == 'MethodCall' and d['src'].get('name') == 'into']
    for started in (False, True):
        for s in (('Value', 65), ('WantFirst',), ('WantSecond', 3), ('Error',)):
            env = {outb[0]: ('ctor', 'Some', (('param', 'out'),)) if started else ('ctor', 'None', ()), inb[0]: ('param', 'input'), escb[0]: unesc.state_term(s)}
            res = [o for o in I.ev(t, absx.St(env)) if o.kind in ('val', 'ret')]
            tails[(started, s[0])] = [absx.fmt(o.val)[:60] for o in res]
    okt = all(v == ['Ok(input)'] for k, v in tails.items() if not k[0])
    okt = okt and all(all(x.startswith('Err(') for x in v) for k, v in tails.items() if k[0] and k[1] != 'Value')
    okt = okt and any(x.startswith('Ok(Cow::Owned(') and 'from_utf8(out)' in x for x in tails[(True, 'Value')])
    ctx.add('E5.unescape-result', 'ldap_unescape', loc(U.root), okt, 'result by (output started, final state): %s' % tails)


def check_tail(ctx, f, B, name, pname):
    """E4: the input is returned unchanged when nothing was escaped; the collected bytes otherwise."""
    I = absx.Interp(f, B)
    t = B.root.get('expr')
    outb = [b for b, d in B.defs.items() if d['kind'] == 'let' and d['name'] == 'output' and d['src'] is not None and d['src'].get('k') == 'Path']
    inb = [b for b, d in B.defs.items() if d['kind'] == 'let' and d['src'] is not None and d['src'].get('k') == 'MethodCall' and d['src'].get('name') == 'into']
    if t is None or len(outb) != 1 or len(inb) != 1:
        ctx.fail('E4.tail', name, loc(B.root), 'unexpected function shape'); return
    r0 = [o.val for o in I.ev(t, absx.St({outb[0]: ('ctor', 'None', ()), inb[0]: ('param', 'input')})) if o.kind in ('val', 'ret')]
    ctx.add('E4.unchanged-when-nothing-escaped', name, loc(t), r0 == [('param', 'input')], 'with nothing to escape the function returns %s instead of its input' % [absx.fmt(x) for x in r0])
    r1 = [o.val for o in I.ev(t, absx.St({outb[0]: ('ctor', 'Some', (('param', 'out'),)), inb[0]: ('param', 'input')})) if o.kind in ('val', 'ret')]
    ok = len(r1) == 1 and r1[0][0] == 'ctor' and r1[0][1] == 'Cow::Owned' and absx.leaves(r1[0], lambda x: x == ('param', 'out')) and 'from_utf8' in str(r1[0])
    ctx.add('E4.owned-when-escaped', name, loc(t), ok, 'with escapes the function does not return the collected output')
    init = f.hir[B.path]
    d = [d for b, d in B.defs.items() if b == inb[0]][0]
    ctx.add('E4.input-binding', name, loc(B.root), B.origin(d['src']) == (('param', pname), ()), 'the working copy is not the caller\'s input')
