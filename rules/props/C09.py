"""C09 - escaped text is inert."""
from facts import walk, callee_of, call_args, loc
import hirq, anchors, absx, unesc, fmtargs

EXPLANATION = ("The escape functions are transducers over the items of their input; their loop bodies are abstractly evaluated on literals for every item "
               "- each of the 256 octet values when the loop walks the input by octets (bytes(), as_bytes().iter()); each of the 128 ASCII characters, and the "
               "non-ASCII characters as three symbolic classes by encoded length (of which only 'not ASCII', the length and the code-point range are known), when it "
               "walks by characters (chars(), char_indices(): whole characters, each a run of 1-4 octets of the input, with its byte offset) - crossed with the "
               "finitely many contexts the body distinguishes (output already started?; for dn_escape: the only, the first, a middle, the last item, with index and "
               "input length as literals).  What is judged is *the octets that reach the output*, whatever container collects them: a Vec<u8> and a String are both "
               "an octet buffer with reference semantics - Vec::push(b) appends b, String::push(ch) appends the UTF-8 encoding of ch (one octet for ch < U+0080, "
               "for `b as char` / char::from(b) with b >= 0x80 the two octets c2/c3 .., not b), push_str / extend / extend_from_slice append the octets of their argument, "
               "String::from_utf8 keeps them; `write!(buf, ..)` (io::Write for Vec<u8>, fmt::Write for String) appends, and `format!(..)` is a new String of, the text the format "
               "string denotes for the literal item - computed by an exact model of std::fmt (rules/fmtargs.py: the template of literal pieces and placeholders as the "
               "compiler lowers it, with fill / alignment / width / precision / `+` `#` `0` and the traits Display, x, X, o, b, Debug of integers, Display of str / char / bool; "
               "anything else is a write without a model).  Per item the output must grow by the escape sequence `\\`, hex(c>>4), hex(c&15) - the digits in either case: RFC 4515 "
               "and RFC 4514 `HEX` read both, as does the shared unescaper (E5) - (a lazy output first becoming input[..i]) or by "
               "the very octets of the input the item stands for (E3.copied-octets-unchanged: an unescaped octet >= 0x80 must not be re-encoded; a non-ASCII character is "
               "copied whole, never escaped): E1 ldap_escape escapes exactly {\\ * ( ) NUL} = complement of the filter lexer's value class "
               "(extracted from filter.rs) plus the unescaper's trigger byte; E2 dn_escape always escapes a superset of RFC 4514's specials "
               "within ASCII punctuation, space and # only in first position, space only in last; E3 emission order and the single copy of "
               "the unescaped prefix at the first escape - or, when a first-match search over the whole input decides where the loop starts, once before the loop as input[..start], the search's predicate (evaluated like the loop body) holding wherever the loop escapes; what the loop visits is read from the term of its iterator (enumerate / zip(n..) / split_at / slicing / skip / chars / char_indices), not from its spelling; E4 the input itself is returned only when nothing was escaped (lazy output still unset, or a contains / position / any / all over the whole input that cannot miss a byte the loop escapes); E5 ldap_unescape is decided as a transducer: "
               "the shared unescaper is evaluated exhaustively over all 5120 (state, byte) pairs against the RFC 4515 automaton; the loop is "
               "explored as the product of its specification (unescaper state; has an escape been seen?; output = nothing / input[..k] at "
               "the first escape at offset k - empty for k = 0, yet started - / then every Value byte appended) with the program's own "
               "loop-carried state (the content of its one byte buffer, modelled with reference semantics, and whatever flags it keeps): one "
               "generic iteration from every reachable product state for every byte 0..255, the byte's index symbolic or - where the "
               "iteration depends on it - each literal of the finite partition {first byte, later ones}; how the program represents "
               "'started' (Option, flag, emptiness of the buffer) is never read, only what it stores, copies, appends and finally returns "
               "from each reachable state: the input itself when no escape was seen, the collected output (or the UTF-8 error) when the "
               "run ends in Value, an error otherwise. Not decided: an RFC 4514 parser (there is none in the repository); round trip taken whole.")
TRUSTED = ['String::from_utf8 / Cow semantics', 'the for loop visits the bytes in order (std enumerate); chars() / char_indices() visit the characters of a str in order, each with the offset of its first octet', 'String::push / push_str append the UTF-8 encoding of their argument',
           'std::fmt as modelled in rules/fmtargs.py (read from library/core/src/fmt and the compiler\'s format_args lowering; compared once, while the model was written, with what std prints for 82 format strings over all u8 / i8 values and samples of the other types)']
UNDECIDED = ['the RFC 4514 parser side (none in the repository)', 'round-trip equality of whole strings (the per-byte transducer is decided)']
ASSUMPTIONS = []
SHARED = [('C08', ('P1.entry',), 'E6.filter-compiler-reads-the-whole-input')]      # the escaped value is embedded in a filter string: the compiler must read that string as given, to its last octet

RFC4514_SPECIAL = set(b'"+,;<>\\') | {0}
ASCII_PUNCT = set(b'!"#$%&\'()*+,-./:;<=>?@[\\]^_`{|}~')
HEXCH = b'0123456789abcdef'

def inline_local(prefix):
    return lambda cal: cal.startswith(prefix)

def loop_of(B):
    fs = [n for n, c in walk(B.root) if n['k'] == 'For' and not any(a['k'] in ('For', 'Closure') for a, _ in c)]
    return fs[0] if len(fs) == 1 else None

# The output accumulator is a growable run of octets; which std container holds it is not part of the property.  A `Vec<u8>` holds
# the octets pushed to it; a `String` holds the UTF-8 encoding of the characters / strings pushed to it (see buf_summary).
VEC_TY = 'alloc::vec::Vec<u8>'
STR_TY = 'alloc::string::String'
T_EAGER = (VEC_TY, STR_TY)
T_LAZY = tuple('core::option::Option<%s>' % t for t in T_EAGER)
INPUT = ('param', 'input')
ZERO = ('lit', 0)
IDX = ('param', 'i')

def offset(a, n):
    return n if a == ZERO else absx.bin_term('Add', a, n)

def range_of(t):
    """(start, end) of a range term used as a slice index; a missing bound is None"""
    if t[0] == 'struct' and t[1].rsplit('::', 1)[-1] in ('RangeFrom', 'RangeTo', 'RangeFull', 'Range'):
        fl = dict(t[2])
        return fl.get('start'), fl.get('end')
    return None

def byte_walk(t):
    """What a slice / iterator term over the input visits, read from the term (std semantics of the adaptors, whatever the code
    calls its variables): (start, index0, layout, unit).  unit 'byte': the k-th item carries the octet input[start + k], in order, to
    the end of the input, and, if index0 is not None, the number index0 + k.  unit 'char' (`chars()` / `char_indices()`): the items
    are the characters of input[start..] in order, each a run of 1-4 octets of the input (std: a `str` is valid UTF-8 and these
    iterators decode it character by character, none skipped, none read twice), and, if index0 is not None, the number index0 + the
    offset of the character's first octet within input[start..] (`char_indices`: "the position is the byte offset").  layout is
    'byte' (the item is the octet / character itself) or (position of the number, position of the octet / character) in the pair.
    None if the term is not such a walk."""
    if t == INPUT:
        return (ZERO, None, 'byte', 'byte')
    k = t[0]
    if k == 'enumerate':
        # enumerate(): pairs (k, item) with k counted from 0.  Over octets the count is the offset; over characters it is not (a
        # character may take several octets), so that numbering is not one this reader vouches for
        w = byte_walk(t[1])
        return (w[0], ZERO, (0, 1), 'byte') if w is not None and w[1] is None and w[3] == 'byte' else None
    if k == 'field' and t[2] in ('0', '1') and t[1][0] == 'call' and t[1][1] == 'core::slice::<impl [T]>::split_at' and len(t[1][2]) == 2:
        # split_at(n).1 is [n..]  (.0 is a prefix, not a walk to the end)
        w = byte_walk(t[1][2][0])
        return (offset(w[0], t[1][2][1]), None, 'byte', 'byte') if t[2] == '1' and w is not None and w[1] is None and w[3] == 'byte' else None
    if k == 'index':
        r = range_of(t[2])
        w = byte_walk(t[1])
        if r is not None and r[1] is None and w is not None and w[1] is None and w[3] == 'byte':
            return (offset(w[0], r[0]) if r[0] is not None else w[0], None, 'byte', 'byte')
        return None
    if k == 'call':
        cal, args = t[1], t[2]
        if cal == 'core::str::<impl str>::bytes' and len(args) == 1:
            return byte_walk(args[0])
        if cal in ('core::str::<impl str>::chars', 'core::str::<impl str>::char_indices') and len(args) == 1:
            w = byte_walk(args[0])
            if w is not None and w[1] is None and w[3] == 'byte':
                return (w[0], None, 'byte', 'char') if cal.endswith('::chars') else (w[0], ZERO, (0, 1), 'char')
            return None
        if cal == 'core::iter::traits::iterator::Iterator::zip' and len(args) == 2:
            # zip(n.., walk) / zip(walk, n..): the open counter numbers the items from n (octets only: see enumerate)
            for ci, wi in ((0, 1), (1, 0)):
                r = range_of(args[ci])
                w = byte_walk(args[wi])
                if r is not None and r[0] is not None and r[1] is None and args[ci][1].endswith('RangeFrom') and w is not None and w[1] is None and w[3] == 'byte':
                    return (w[0], r[0], (ci, wi), 'byte')
            return None
        if cal == 'core::iter::traits::iterator::Iterator::skip' and len(args) == 2:
            # skip(n) drops the first n items: octets and numbers both move on by n (n characters are not n octets)
            w = byte_walk(args[0])
            if w is not None and w[3] == 'byte':
                return (offset(w[0], args[1]), None if w[1] is None else offset(w[1], args[1]), w[2], 'byte')
    return None

def is_whole_walk(t):
    """the term visits every byte of the input from the first, and a running number, if any, is the byte's index"""
    w = byte_walk(t)
    return w is not None and w[0] == ZERO and w[1] in (None, ZERO)

def prefix_end(t):
    """n if the term is input[..n] (as str or bytes, by slicing or as the first half of split_at(n)), else None"""
    if t[0] == 'index':
        r = range_of(t[2])
        if r is not None and r[0] in (None, ZERO) and r[1] is not None and t[2][1].rsplit('::', 1)[-1] in ('RangeTo', 'Range') and t[1] == INPUT:
            return r[1]
    if t[0] == 'field' and t[2] == '0' and t[1][0] == 'call' and t[1][1] in ('core::slice::<impl [T]>::split_at', 'core::str::<impl str>::split_at') \
            and len(t[1][2]) == 2 and t[1][2][0] == INPUT:
        return t[1][2][1]
    return None

# ---------------------------------------------------------------------------------------
# Octet buffers: *what octets reach the output*, whatever container collects them.
#
# A `Vec<u8>` and a `String` are both a reference ('bufref', n) to a content in the heap: the ordered tuple of the items appended,
#       ('lit', b)        the octet b
#       ('pre', n)        the octets input[..n]              ('in', lo, hi)   the octets input[lo..hi]
#       ('chr', t)        the UTF-8 encoding of the character t (1-4 octets; t is not a literal)
#       ('seg', t)        the octets of the sequence t, of which nothing is known
#       any other term    one octet, the value of that term
# The std functions that write to them, each stated once for all arguments (buf_summary):
#       Vec::<u8>::push(b)                    appends the octet b
#       String::push(ch)                      appends the UTF-8 encoding of ch: one octet (ch itself) for ch < U+0080, otherwise 2-4
#                                             octets none of which is < 0x80 (so for `b as char` / char::from(b) with b >= 0x80 -
#                                             the code point U+00NN, NN = b - the two octets c2/c3 .., NOT b)
#       String::push_str(s), Vec::extend(s), Vec::extend_from_slice(s)      append the octets of s (a &str's octets are its UTF-8 encoding)
#       String::from_utf8(v)                  keeps the octets of v (or fails); as_bytes / as_str / into_bytes / to_owned likewise
# Reference semantics: every alias (`if let Some(out) = &mut output`, `output.as_mut().unwrap()`, a `&mut` parameter of a helper,
# the value `get_or_insert_with` hands back) reads and writes the same content.

ACC = ('bufref', 'acc')
NONEMPTY = ('old', 'nonempty')
EARLIER = ('old', 'earlier')        # whatever the earlier iterations have appended (possibly nothing)
BUF_NO_EFFECT = ('reserve', 'reserve_exact', 'shrink_to_fit', 'shrink_to')
BUF_READS = ('capacity', 'as_slice', 'first', 'last', 'get', 'contains', 'starts_with', 'ends_with', 'iter', 'chars', 'char_indices', 'bytes')
FMT_SINKS = ('std::io::Write::write_fmt', 'core::fmt::Write::write_fmt')
NEW_BUF = ('alloc::vec::Vec::<T>::new', 'alloc::vec::Vec::<T>::with_capacity', 'alloc::string::String::new', 'alloc::string::String::with_capacity')

def is_buf(t):
    return isinstance(t, tuple) and len(t) == 2 and t[0] == 'bufref'

def char_octets(x):
    """what String::push(x) appends: the UTF-8 encoding of the character x - computed for a character literal (a code point that
    reached a `char` position through a value-preserving conversion is that character), ('chr', x) for any other term"""
    o = absx.ordinal(x)
    if o is not None and 0 <= o[1] <= 0x10ffff and not 0xd800 <= o[1] <= 0xdfff:
        return tuple(('lit', b) for b in chr(o[1]).encode('utf-8'))
    return (('chr', x),)

def ext_items(src, chars=False):
    """what extending an octet buffer by the sequence `src` appends: the octets of a literal sequence one by one (of a string
    literal: its UTF-8 encoding; with chars=True the elements of an array are characters, each appended as its encoding); the
    prefix input[..n] as one item ('pre', n), another slice input[lo..hi] as ('in', lo, hi); any other source as one opaque item"""
    if src[0] == 'array':
        return tuple(o for x in src[1] for o in char_octets(x)) if chars else tuple(src[1])
    if src[0] == 'lit' and isinstance(src[1], bytes):
        return tuple(('lit', x) for x in src[1])
    if src[0] == 'lit' and isinstance(src[1], str):
        return tuple(('lit', x) for x in src[1].encode('utf-8'))
    if src[0] == 'call' and src[1] == 'core::char::methods::<impl char>::encode_utf8' and len(src[2]) == 2:
        # ch.encode_utf8(&mut scratch): "encodes this character as UTF-8 into the provided byte buffer, and then returns the subslice
        # of the buffer that contains the encoded character" - the octets String::push(ch) would append
        return char_octets(src[2][0])
    n = prefix_end(src) if src[0] in ('index', 'field') else None
    if n is not None:
        return (('pre', n),)
    if src[0] == 'index' and src[1] == INPUT:
        r = range_of(src[2])
        if r is not None and r[0] is not None and r[1] is not None and src[2][1].rsplit('::', 1)[-1] == 'Range':
            return (('in', r[0], r[1]),)
    return (('seg', src),)

def item_empty(x):
    """True / False / None: the item stands for no octet / at least one / not known"""
    if x[0] == 'pre':
        n = x[1]
        return (n[1] == 0) if n[0] == 'lit' and isinstance(n[1], int) and not isinstance(n[1], bool) else None
    if x[0] == 'in':
        if x[1] == x[2]:
            return True
        if all(n[0] == 'lit' and isinstance(n[1], int) and not isinstance(n[1], bool) for n in x[1:3]):
            return x[1][1] >= x[2][1]
        return None
    if x[0] == 'seg' or x == EARLIER:
        return None
    return False         # a pushed octet; the encoding of a character; earlier content known to be non-empty

def canon(content):
    """the content without the items that stand for no octet (input[..0] is the empty slice)"""
    return None if content is None else tuple(x for x in content if item_empty(x) is not True)

def set_heap(st, key, val):
    h = dict(st.heap); h[key] = val
    return absx.St(st.env, h, st.ev, st.pc, st.ctr)

def new_buf(st, content):
    u, s2 = st.fresh('buf')
    return absx.Out('val', ('bufref', u[2]), set_heap(s2, ('buf', u[2]), tuple(content)))

def buf_summary(I, cal, args, node, st):
    """The std models listed above.  Also: new / with_capacity - a new empty buffer; a transparent conversion of a slice or string
    into a Vec<u8> / String (to_vec, to_owned, to_string, From) - a new buffer holding its octets; clear empties; reserve & co. change
    nothing observable; is_empty / len (both count octets, for a String too) are answered from the content when it is known.  Any
    other call that receives the buffer is recorded as 'buf-unmodelled' (the rules fail closed on it)."""
    name = cal.rsplit('::', 1)[-1]
    if cal == 'core::hint::must_use' and len(args) == 1:
        return [absx.Out('val', args[0], st)]          # the identity (`format!` wraps its result in it)
    if not args or not is_buf(args[0]):
        ty = hirq.strip_refs(node.get('ty') or '')
        if ty in T_EAGER and any(cal.endswith(x) for x in NEW_BUF):
            return [new_buf(st, ())]
        if ty == STR_TY and cal == fmtargs.FORMAT and len(args) == 1 and fmtargs.text_of(args[0]) is not None:
            # format!(..): "creates a String using interpolation of runtime expressions" - a new buffer holding the formatted text
            return [new_buf(st, tuple(('lit', b) for b in fmtargs.text_of(args[0])))]
        if ty in T_EAGER and len(args) == 1 and hirq.is_transparent(cal) and not absx.leaves(args[0], is_buf):
            from_char = node.get('k') == 'MethodCall' and hirq.strip_refs(node['recv'].get('ty') or '') == 'char'
            return [new_buf(st, char_octets(args[0]) if from_char else ext_items(args[0]))]
        return None
    key = ('buf', args[0][1])
    cur = st.heap.get(key)
    if cur is None:
        return [absx.Out('val', ('call', cal, tuple(args), node.get('id')), st.event(('buf-unmodelled', cal, node)))]
    string = 'alloc::string::String' in cal
    if name == 'push' and len(args) == 2 and (string or 'alloc::vec::Vec' in cal):
        return [absx.Out('val', absx.UNIT, set_heap(st, key, cur + (char_octets(args[1]) if string else (args[1],))).event(('buf-write', 'push', args[1], node)))]
    if (name == 'push_str' and string or name in ('extend', 'extend_from_slice') and 'alloc::vec::Vec' in cal) and len(args) == 2:
        src = args[1]
        if is_buf(src) and src != args[0] and st.heap.get(('buf', src[1])) is not None:
            return [absx.Out('val', absx.UNIT, set_heap(st, key, cur + st.heap[('buf', src[1])]).event(('buf-write', 'extend', src, node)))]      # the octets another buffer holds
        if not absx.leaves(src, is_buf):
            return [absx.Out('val', absx.UNIT, set_heap(st, key, cur + ext_items(src)).event(('buf-write', 'extend', src, node)))]
    if name == 'extend' and string and len(args) == 2 and args[1][0] == 'array':
        # String: Extend<char>: the characters of the array, in order, each appended like push
        return [absx.Out('val', absx.UNIT, set_heap(st, key, cur + ext_items(args[1], chars=True)).event(('buf-write', 'extend', args[1], node)))]
    if cal in FMT_SINKS and len(args) == 2:
        # write!(buf, ..) = buf.write_fmt(format_args!(..)).  Both sinks append exactly the formatted text and answer Ok(()): io::Write for
        # Vec<u8> ("write ... appending to the vector", never fails; the provided write_fmt hands every piece to write_all and fails only
        # if that does or a formatting trait does - those modelled in fmtargs do not); fmt::Write for String (write_str = push_str, never
        # fails).  A text that fmtargs cannot read (an argument that is not a literal, a trait it has no model of) is a write without a model.
        text = fmtargs.text_of(args[1])
        # (which of the two the buffer is needs no test: of the buffer types only Vec<u8> implements io::Write, only String fmt::Write)
        if text is not None:
            return [absx.Out('val', ('ctor', 'Ok', (absx.UNIT,)), set_heap(st, key, cur + tuple(('lit', b) for b in text)).event(('buf-write', 'extend', args[1], node)))]
        return [absx.Out('val', ('call', cal, tuple(args), node.get('id')), st.event(('buf-unmodelled', cal, node)))]
    if name == 'clear' and len(args) == 1:
        return [absx.Out('val', absx.UNIT, set_heap(st, key, ()).event(('buf-write', 'clear', None, node)))]
    if name in BUF_NO_EFFECT:
        return [absx.Out('val', absx.UNIT, st)]
    if name == 'is_empty' and len(args) == 1:
        es = [item_empty(x) for x in cur]
        if any(e is False for e in es):
            return [absx.Out('val', absx.FALSE, st)]
        if all(e is True for e in es):
            return [absx.Out('val', absx.TRUE, st)]
        return [absx.Out('val', ('call', cal, (args[0], cur), None), st)]
    if name == 'len' and len(args) == 1:
        if all(x[0] not in ('pre', 'in', 'seg', 'old', 'chr') or item_empty(x) is True for x in cur):
            return [absx.Out('val', ('lit', len(canon(cur))), st)]
        return [absx.Out('val', ('call', cal, (args[0], cur), None), st)]
    if name in BUF_READS or hirq.is_transparent(cal):
        return None
    return [absx.Out('val', ('call', cal, tuple(args), node.get('id')), st.event(('buf-unmodelled', cal, node)))]

class BufInterp(absx.Interp):
    """absx with buf_summary in force.  mode 'upto': a path that reaches the byte loop ends there (kind 'atloop') with the term of
    what the loop iterates over.  mode 'around': the byte loop is stepped over, leaving the loop-carried locals / buffer contents
    with the values in `after`."""
    stop_at, mode, after = None, None, ({}, {})
    def ev_MethodCall(self, e, st):
        # a method of a buffer reference goes to buf_summary whatever the receiver expression looks like (the interpreter's own
        # Vec::push model is for vectors held by value in a local)
        if any(o.kind == 'val' and is_buf(o.val) for o in self.ev(e['recv'], st)):
            res, abn = self.seq([e['recv']] + e['args'], st)
            outs = list(abn)
            for vals, s in res:
                outs.extend(self.call(callee_of(e) or ('<method %s>' % e.get('name')), vals, e, s))
            return outs
        return super().ev_MethodCall(e, st)
    def ev_AssignOp(self, e, st):
        # `s += x` on a buffer: for a String it is push_str (std: `impl AddAssign<&str> for String` "appends"); any other
        # compound assignment to a buffer is a write without a model
        if any(o.kind == 'val' and is_buf(o.val) for o in self.ev(e['l'], st)):
            res, abn = self.seq([e['l'], e['r']], st)
            outs = list(abn)
            for (a, b), s in res:
                if is_buf(a) and e['op'].replace('Assign', '') == 'Add' and hirq.strip_refs(e['l'].get('ty') or '') == STR_TY:
                    outs.extend(buf_summary(self, 'alloc::string::String::push_str', [a, b], e, s))
                else:
                    outs.append(absx.Out('val', absx.UNIT, s.event(('buf-unmodelled', 'a compound assignment', e))))
            return outs
        return super().ev_AssignOp(e, st)
    def assign(self, lhs, val, st, node):
        # `*r = v` where r refers to a buffer: the buffer's content is replaced by v's (known when v is a buffer itself)
        if lhs['k'] == 'Unary' and lhs.get('op') == 'Deref':
            inner = hirq.peel_refs(lhs['e'])
            cur = st.env.get(inner['bind']) if inner['k'] == 'Path' and inner.get('res') == 'local' else None
            if cur is not None and is_buf(cur):
                if is_buf(val) and st.heap.get(('buf', val[1])) is not None and st.heap.get(('buf', cur[1])) is not None:
                    return [absx.Out('val', absx.UNIT, set_heap(st, ('buf', cur[1]), st.heap[('buf', val[1])]).event(('buf-write', 'replace', val, node)))]
                return [absx.Out('val', absx.UNIT, st.event(('buf-unmodelled', 'an assignment through a reference', node)))]
        return super().assign(lhs, val, st, node)
    def inline_call(self, cal, args, node, st):
        # a workspace helper is evaluated by an interpreter of this same kind: a `&mut` buffer handed to it is the same buffer
        # (absx.Interp.inline_call, with the class of the sub-interpreter the only difference)
        rec = self.facts.hir.get(cal) or getattr(self.facts, 'hir_all', {}).get(cal)
        if rec is None or getattr(self, '_depth', 0) > 6:
            return None
        B = hirq.Body(self.facts, rec)
        sub = type(self)(self.facts, B, self.summaries, self.unroll, self.inline, self.field_hook, self.for_once, self.result_combinators, self.combinators,
                         self.generic_loops, self.domain, self.local_try, self.places)
        sub._depth = getattr(self, '_depth', 0) + 1
        sub.member_range = self.member_range
        sub.exact_seqs, sub.carry_vecs = self.exact_seqs, self.carry_vecs
        sub.carry_env, sub.carry_exact = self.carry_env, self.carry_exact
        states = [absx.St({}, st.heap, st.ev, st.pc, st.ctr)]
        for p, a in zip(rec['params'], args):
            states = [s2 for s in states for kind, s2 in sub.match(p, a, s) if kind != 'no']
        outs = []
        for s in states:
            for o in sub.ev(B.root, s):
                if o.kind in ('val', 'ret'):
                    outs.append(absx.Out('val', o.val, absx.St(st.env, o.st.heap, o.st.ev, o.st.pc, o.st.ctr)))
                elif o.kind == 'div':
                    outs.append(absx.Out('div', o.val, absx.St(st.env, o.st.heap, o.st.ev, o.st.pc, o.st.ctr)))
        return outs
    def ev_For(self, e, st):
        if e is self.stop_at and self.mode == 'upto':
            return [absx.Out('atloop', o.val, o.st) if o.kind == 'val' else o for o in self.ev(e['iter'], st)]
        if e is self.stop_at and self.mode == 'around':
            outs = []
            for o in self.ev(e['iter'], st):
                if o.kind != 'val':
                    outs.append(o); continue
                env = dict(o.st.env); env.update(self.after[0])
                heap = dict(o.st.heap); heap.update(self.after[1])
                outs.append(absx.Out('val', absx.UNIT, absx.St(env, heap, o.st.ev + (('loop-done',),), o.st.pc, o.st.ctr)))
            return outs
        return super().ev_For(e, st)

VEC_WRITES = ('push', 'extend', 'extend_from_slice', 'append', 'insert', 'resize', 'extend_from_within', 'push_str', 'insert_str')
SEARCHES = ('position', 'any', 'find', 'all')

# ---------------------------------------------------------------------------------------
# The items of a walk over the input, as a finite partition that is evaluated exhaustively.
#   a walk by octets:      the 256 octet values, each a literal;
#   a walk by characters:  the 128 ASCII characters, each a literal (one octet of the input, the character's code), and the
#                          non-ASCII characters as three classes by the length L = 2, 3, 4 of their UTF-8 encoding, each class one
#                          symbolic character of which exactly this is known: it is not ASCII (is_ascii and every is_ascii_* are false),
#                          len_utf8() is L, its code point lies in the class's range (U+0080..07FF, U+0800..FFFF, U+10000..10FFFF), so it
#                          differs from / orders against every character literal outside that range as the range says.  Whatever the
#                          body does with it that these facts do not decide (its low octet, say) forks, and the rules see both outcomes.
# Class keys: the int c for the octet / ASCII character c; ('na', L) for a non-ASCII class.
NA_RANGE = {2: (0x80, 0x7ff), 3: (0x800, 0xffff), 4: (0x10000, 0x10ffff)}

def nonascii(L):
    return ('param', 'a non-ASCII character (%d octets)' % L)

NA_TERMS = {nonascii(L): L for L in NA_RANGE}

def classes_of(unit):
    return list(range(256)) if unit == 'byte' else list(range(128)) + [('na', L) for L in sorted(NA_RANGE)]

def class_len(cls):
    """the number of octets of the input an item of the class stands for"""
    return 1 if isinstance(cls, int) else cls[1]

def class_name(cls, unit='byte'):
    if isinstance(cls, int):
        return ('byte 0x%02x' if unit == 'byte' else 'character 0x%02x') % cls
    return 'a non-ASCII character of %d octets' % cls[1]

def char_model(I, cal, args, node, st):
    """std functions of `char`, on the non-ASCII classes and on literals:
      is_ascii / is_ascii_*      false for every character outside ASCII (std: "checks if the value is within the ASCII range")
      len_utf8                   the class's L; of a character literal the length of its UTF-8 encoding
      char::from(b: u8)          the character with code point b ("maps a byte in 0x00..=0xFF to a char whose code point has the same value")
      char::from_u32(n)          Some(that character) for a Unicode scalar value (0..=0x10FFFF without the surrogates D800..=DFFF), None otherwise
      char::from_digit(d, r)     for 2 <= r <= 36: Some(the digit d in radix r: '0'..'9' then LOWER-case 'a'..) if d < r, None otherwise"""
    name = cal.rsplit('::', 1)[-1]
    if cal.startswith('core::char::methods::<impl char>::') and len(args) >= 1 and args[0] in NA_TERMS:
        if len(args) == 1 and (name == 'is_ascii' or name in absx.ASCII_CLASSES):
            return [absx.Out('val', absx.FALSE, st)]
        if len(args) == 1 and name == 'len_utf8':
            return [absx.Out('val', ('lit', NA_TERMS[args[0]]), st)]
        return None
    if cal == 'core::char::methods::<impl char>::len_utf8' and len(args) == 1 and absx.ordinal(args[0]) is not None and absx.ordinal(args[0])[0] == 'char':
        return [absx.Out('val', ('lit', len(args[0][1].encode('utf-8'))), st)]
    lit_int = lambda x: x[0] == 'lit' and isinstance(x[1], int) and not isinstance(x[1], bool)
    if name == 'from' and ('core::convert::From<u8>' in cal and ' for char' in cal or cal == '<char as core::convert::From<u8>>::from') and len(args) == 1 and lit_int(args[0]) and 0 <= args[0][1] <= 255:
        return [absx.Out('val', ('lit', chr(args[0][1])), st)]
    if name == 'from_u32' and cal.startswith('core::char::') and len(args) == 1 and lit_int(args[0]):
        n = args[0][1]
        ok = 0 <= n <= 0x10ffff and not 0xd800 <= n <= 0xdfff
        return [absx.Out('val', ('ctor', 'Some', (('lit', chr(n)),)) if ok else ('ctor', 'None', ()), st)]
    if name == 'from_digit' and cal.startswith('core::char::') and len(args) == 2 and lit_int(args[0]) and lit_int(args[1]) and 2 <= args[1][1] <= 36:
        d, r = args[0][1], args[1][1]
        return [absx.Out('val', ('ctor', 'Some', (('lit', '0123456789abcdefghijklmnopqrstuvwxyz'[d]),)) if 0 <= d < r else ('ctor', 'None', ()), st)]
    return None

class CharOrder:
    """absx value domain: `char` is ordered by code point, so a character of a non-ASCII class compares with a character literal
    outside the class's range as every member of the range does; everything else is left to the interpreter (None)."""
    @staticmethod
    def rel(a, b):
        """-1 / 1: a is below / above b for every member of a's class; None: not decided"""
        o = absx.ordinal(b)
        if a in NA_TERMS and o is not None and o[0] == 'char':
            lo, hi = NA_RANGE[NA_TERMS[a]]
            return -1 if hi < o[1] else 1 if lo > o[1] else None
        return None
    def eq(self, v, pv):
        return False if self.rel(v, pv) is not None or self.rel(pv, v) is not None else None
    def binop(self, op, a, b):
        r = self.rel(a, b)
        if r is None:
            r = self.rel(b, a)
            r = -r if r is not None else None
        if r is None or op not in ('Eq', 'Ne', 'Lt', 'Le', 'Gt', 'Ge'):
            return None
        return {'Eq': False, 'Ne': True, 'Lt': r < 0, 'Le': r < 0, 'Gt': r > 0, 'Ge': r > 0}[op]
    def index(self, I, a, b, e, s):
        return None
    def iter_elems(self, I, itv, st, e):
        return None

# Where the item stands, for a function whose decision depends on the position: the four places that differ - the only item of
# the value, the first, a middle and the last item of a longer one - as (offset of the item's first octet, length of the input in
# octets), for an item of L octets.  (For L = 1: (0, 1), (0, 3), (1, 3), (2, 3).)
ROLES = ('only', 'first', 'middle', 'last')

def position(role, L):
    return None if role is None else {'only': (0, L), 'first': (0, L + 2), 'middle': (1, L + 2), 'last': (2, L + 2)}[role]

class Undecodable(Exception):
    pass

class Escaper:
    """The roles of an escape function, found by type and data flow (never by name): the working copy of the input (a Cow<str>
    that comes from the parameter), the one loop over it, the output accumulator alive when the loop is reached (an octet buffer -
    Vec<u8> or String - filled from the start, or an Option of one, filled lazily from the first escape on).  What the loop visits
    is read from the term of its iterator on the paths that reach it (byte_walk): the octets / characters of the input from
    `start` on, possibly numbered."""
    def __init__(self, f, path, pname, inline=None):
        self.f, self.path = f, path
        self.B = B = hirq.Body(f, f.body(path))
        self.inline = inline or inline_local('ldap3::util::')
        self.loop = loop_of(B)
        if self.loop is None:
            raise absx.NotEvaluable('no single byte loop')
        inside = {id(n) for n, c in walk(self.loop)}
        self.inb = [b for b, d in B.defs.items() if d['kind'] == 'let' and (d['pat'].get('ty') or '').startswith("alloc::borrow::Cow<") and d['src'] is not None
                    and B.roots(B.origin(d['src'])) == {('param', pname)}]
        accs = [(b, hirq.strip_refs(d['pat'].get('ty') or '')) for b, d in B.defs.items() if d['kind'] == 'let' and id(d['node']) not in inside
                and hirq.strip_refs(d['pat'].get('ty') or '') in T_LAZY + T_EAGER]
        # declared outside the loop: the Let statement is not a descendant of the loop
        accs = [(b, t) for b, t in accs if not any(x is B.defs[b]['node'] for blk, _c in walk(self.loop) if blk['k'] == 'Block' for x in blk['stmts'])]
        self.accs = accs
        self.lazy = any(t in T_LAZY for b, t in accs)
        # locals that are never written after their declaration keep, inside the loop, the value they have when the loop is reached
        self.frozen = {b for b, d in B.defs.items() if 'Mut' not in (d['pat'].get('mode') or 'Mut').split(',')[-1] and b not in B.assigns}
        self._approach = {}
        ents = self.approach(None)[0]
        # the accumulator: the one of them that exists when the loop is reached (one declared after the loop - the unwrapped
        # result, say - is not it)
        alive = [(b, t) for b, t in accs if ents and all(b in e_.st.env for e_ in ents)]
        self.acc = alive[0] if len(alive) == 1 else None
        walks = [byte_walk(o.val) for o in ents]
        self.walk = walks[0] if walks and all(w is not None and w == walks[0] for w in walks) else None
        w = self.walk
        # in order, every octet (character) from `start` on, the running number (if any) being the offset of the item's first octet
        # in the input; `start` is the beginning of the input or the index a first-match search over the whole input has found
        self.iter_ok = w is not None and w[1] in (None, w[0]) and (w[0] == ZERO or self.start_search(w[0]) is not None)
        self.indexed = w is not None and w[1] is not None
        self.two_phase = w is not None and w[0] != ZERO
        self.unit = w[3] if w is not None else 'byte'

    @staticmethod
    def start_search(start):
        """the search atom (see absx: position) if `start` is the index of the first item of a walk by octets over the whole input
        that satisfies a predicate (the count `position` answers is an offset only when the items are octets)"""
        if start[0] == 'posidx' and start[1][0] == 'position' and is_whole_walk(start[1][1]) and byte_walk(start[1][1])[3] == 'byte':
            return start[1]
        return None

    def approach(self, pos):
        """The function from its entry up to the loop, with the input's length the literal pos[1] if pos is given:
        (paths that reach the loop, paths that leave before it, the searches over the input met on the way)."""
        if pos in self._approach:
            return self._approach[pos]
        searches = []
        def recorder(I, cal, args, node, st):
            # a search with a predicate over a sequence (modelled in absx): note the predicate and the state it is applied in
            if cal.rsplit('::', 1)[-1] in SEARCHES and ('iterator::Iterator::' in cal or 'core::iter::traits::iterator::Iterator>::' in cal) \
                    and len(args) == 2 and args[1][0] in ('closure', 'fn'):
                searches.append({'name': cal.rsplit('::', 1)[-1], 'src': args[0], 'pred': args[1], 'node': node, 'st': st, 'I': I})
            return None
        summaries = [recorder] + ([self.length_summary(pos[1])] if pos is not None else []) + [buf_summary, char_model, fmtargs.summary]
        I = BufInterp(self.f, self.B, inline=self.inline, combinators=True, summaries=summaries, domain=CharOrder())
        I.stop_at, I.mode = self.loop, 'upto'
        env = {b: (INPUT if v[0] == 'param' else v) for b, v in I.param_env().items()}
        outs = I.ev(self.B.root, absx.St(env))
        r = ([o for o in outs if o.kind == 'atloop'], [o for o in outs if o.kind != 'atloop'], searches, I)
        self._approach[pos] = r
        return r

    @staticmethod
    def length_summary(n):
        def length_of_input(I, cal, args, node, st):
            if cal.rsplit('::', 1)[-1] in ('len', 'input_len') and len(args) == 1 and (args[0] == INPUT or absx.leaves(args[0], lambda x: x == INPUT)) \
                    and not absx.leaves(args[0], lambda x: x[0] in ('index', 'call') and x is not args[0] and x[0] == 'index'):
                return [absx.Out('val', ('lit', n), st)]
            return None
        return length_of_input

    @staticmethod
    def item_of(layout, cls, pos, unit='byte'):
        """the loop's (a search's) item for the class cls at position pos"""
        v = ('lit', cls) if unit == 'byte' else ('lit', chr(cls)) if isinstance(cls, int) else nonascii(cls[1])
        if layout == 'byte':
            return v
        pair = [None, None]
        pair[layout[0]] = ('lit', pos[0]) if pos is not None else IDX
        pair[layout[1]] = v
        return ('tuple', tuple(pair))

    @staticmethod
    def facts_of(cls, st):
        """the path-condition facts of a non-ASCII class: its code point, should the body ask for it as a number"""
        if not isinstance(cls, int):
            lo, hi = NA_RANGE[cls[1]]
            st = st.assume(('range', ('cast', nonascii(cls[1]), 'u32'), lo, hi), True)
        return st

    def content_after(self, st):
        """what the accumulator holds: None (a lazy one, unset) or the tuple of items"""
        b, t = self.acc
        v = st.env.get(b, ('unk', 'acc'))
        if t in T_LAZY:
            if v == ('ctor', 'None', ()):
                return None
            if not (v[0] == 'ctor' and v[1] == 'Some' and len(v[2]) == 1):
                raise Undecodable('the output holds %s' % absx.fmt(v)[:60])
            v = v[2][0]
        if not is_buf(v) or ('buf', v[1]) not in st.heap:
            raise Undecodable('the output holds %s' % absx.fmt(v)[:60])
        return canon(st.heap[('buf', v[1])])

    def run_item(self, cls, started, pos=None):
        """The loop body for one item of class cls, the output holding what the earlier iterations appended (started) or being unset (a lazy
        one, not started) before it: [(path outcome, what this iteration has added - the content afterwards, see content_after, less
        the earlier content, which must still be there; None = still unset; a string if that cannot be read)].  With pos = (i, n)
        the item's first octet is the i-th of an input of n octets: the index is that literal and every length taken of the input
        is n, so position tests are decided exactly however they are spelled (`i == 0`, `match i { 0 => .. }`, `i + 1 == len`,
        a hoisted `let len = ..`, a closure that captures it)."""
        ents, _early, _s, I = self.approach(pos)
        res = []
        b, t = self.acc
        for ent in ents:
            # the immutable locals declared before the loop have the value with which the loop is reached
            env = {x: v for x, v in ent.st.env.items() if x in self.frozen}
            env[b] = (('ctor', 'Some', (ACC,)) if started else ('ctor', 'None', ())) if t in T_LAZY else ACC
            for x in self.inb:
                env[x] = INPUT
            heap = dict(ent.st.heap)
            # a started output holds what the earlier iterations appended: one item of unknown extent, which this iteration must keep
            heap[('buf', 'acc')] = (EARLIER,) if started else ()
            st0 = self.facts_of(cls, absx.St(env, heap, pc=ent.st.pc, ctr=ent.st.ctr))
            for kind, s0 in I.match(self.loop['pat'], self.item_of(self.walk[2], cls, pos, self.walk[3]), st0):
                if kind == 'no':
                    continue
                for o in I.ev(self.loop['body'], s0):
                    try:
                        # a call that receives the output (or the Option that holds it) and has no model - every modelled one is
                        # answered by a summary and leaves no 'call' event - may have written to it
                        leaked = sorted({e[1] for e in o.st.ev[len(s0.ev):] if e[0] == 'buf-unmodelled'} |
                                        {e[1] for e in o.st.ev[len(s0.ev):] if e[0] == 'call' and absx.leaves(('args',) + tuple(e[2]), lambda x: x == ACC)})
                        if leaked:
                            raise Undecodable('the output is handed to %s, for which the rules have no model' % leaked[:2])
                        content = self.content_after(o.st)
                        if started:
                            if content is None or content[:1] != (EARLIER,) or EARLIER in content[1:]:
                                raise Undecodable('what the output held before this item is not kept as it was: the output now holds %s' % describe_content(content))
                            content = content[1:]
                        res.append((o, content))
                    except Undecodable as x:
                        res.append((o, str(x)))
        return res

    def before_loop(self):
        """Deviations from: the loop is reached with an output that holds input[..start] and nothing else (nothing at all when the
        loop starts at the first byte; a lazy output still unset)."""
        wrong = []
        ents = self.approach(None)[0]
        if not ents or self.walk is None:
            return ['the loop is not reached / does not walk the input']
        start = self.walk[0]
        for ent in ents:
            try:
                if any(e[0] == 'buf-unmodelled' for e in ent.st.ev):
                    raise Undecodable('the output is handed to a call the rules have no model for')
                held = self.content_after(ent.st)
            except Undecodable as x:
                wrong.append('before the loop %s' % x); continue
            if start == ZERO:
                if held:
                    wrong.append('the output is not empty when the loop starts at the first byte: it holds %s' % describe_content(held))
            elif self.lazy or held is None or held != (('pre', start),):
                wrong.append('the loop starts at byte `start` = %s but the output holds %s instead of input[..start]' % (absx.fmt(start)[:40], describe_content(held)))
        return wrong

    def search_tables(self, roles):
        """For every search over the input met before the loop, the verdict of its predicate for each (class of item, role):
        [{'name', 'src', 'table': {(cls, role): set of truth values}}] - evaluated on literals, exactly like the loop body."""
        recs = {}
        for role in roles:
            for L in (1, 2, 3, 4):
                pos = position(role, L)
                for s in self.approach(pos)[2]:
                    w = byte_walk(s['src'])
                    if w is None:
                        continue
                    key = (s['name'], s['src'], s['node'].get('id'))
                    rec = recs.setdefault(key, {'name': s['name'], 'src': s['src'], 'whole': is_whole_walk(s['src']), 'unit': w[3], 'table': {}})
                    for cls in classes_of(w[3]):
                        if class_len(cls) != L:
                            continue
                        vs = rec['table'].setdefault((cls, role), set())
                        for o in s['I'].apply(s['pred'], [self.item_of(w[2], cls, pos, w[3])], s['node'], self.facts_of(cls, s['st'])):
                            if o.kind != 'val':
                                vs.add(None); continue
                            for truth, _s in s['I'].decide(o.val, o.st) if o.val in (absx.TRUE, absx.FALSE) else [(None, None)]:
                                vs.add(truth)
        return list(recs.values())

def finds_all(rec, escapes):
    """the search cannot come back empty-handed (position / any / find: no item satisfies the predicate; all: every item does) on an
    input that has one of `escapes` = {(class, role)}: its predicate holds (all: fails) for each of them.  (An octet < 0x80 of the
    input and the ASCII character with that code are the same item of the input, so their class keys coincide; an octet >= 0x80
    has no counterpart in a walk by characters and is not found there.)"""
    want = {False} if rec['name'] == 'all' else {True}
    return rec['whole'] and all(rec['table'].get(k) == want for k in escapes)

def post_loop(B, loop):
    """The statements and tail expression of the function body that follow the byte loop, as one block."""
    root = B.root
    if root['k'] != 'Block':
        return root.get('expr')
    idx = None
    for i, st in enumerate(root['stmts']):
        e = st.get('e') if st['k'] in ('Expr', 'Semi') else st.get('init')
        if e is not None and any(x is loop for x, _ in walk(e)):
            idx = i
    if idx is None:
        return root.get('expr')
    blk = dict(root)
    blk['stmts'] = root['stmts'][idx + 1:]
    return blk

def escape_octets(c):
    return (('lit', 0x5c), ('lit', HEXCH[c >> 4]), ('lit', HEXCH[c & 15]))

def octet_lits(items):
    """the octets of a run of items if each is a literal octet, else None"""
    return tuple(x[1] for x in items) if all(x[0] == 'lit' and isinstance(x[1], int) and not isinstance(x[1], bool) for x in items) else None

def is_escape_of(c, items):
    """the items are the escape sequence of the octet c: a backslash and the two hex digits of c, high one first.  The case of a digit
    is free: RFC 4515 (`HEX`) and RFC 4514 (`hexpair = HEX HEX`, HEX = DIGIT / "A"-"F" / "a"-"f") read both, and so does the shared
    unescaper (decided by E5.unescaper-automaton against the automaton that reads both) - `\\2A` and `\\2a` are the same escaped octet."""
    o = octet_lits(items)
    return o is not None and len(o) == 3 and o[0] == 0x5c and o[1] in unesc.HEX and o[2] in unesc.HEX and unesc.HEX[o[1]] == c >> 4 and unesc.HEX[o[2]] == c & 15

def hexs(octets):
    return ' '.join('%02x' % b for b in octets)

def diagnose_escape(c, got):
    """what is wrong with the octets `got` written as the escape of the octet c (they are not is_escape_of)"""
    hv = unesc.HEX
    if len(got) == 3 and got[0] == 0x5c and got[1] == 0x20 and c >> 4 == 0 and hv.get(got[2]) == c & 15:
        return 'with a space where the high hex digit 0 belongs (backslash + space is no hex pair: a reader does not get the octet back - an RFC 4514 parser reads an escaped space and then the low digit as a character, the filter unescaper rejects the text)'
    if len(got) == 2 and got[0] == 0x5c and c >> 4 == 0 and hv.get(got[1]) == c & 15:
        return 'with one hex digit instead of two (the reader takes the next octet of the text for the second digit)'
    if len(got) == 3 and got[0] == 0x5c and hv.get(got[1]) == c & 15 and hv.get(got[2]) == c >> 4:
        return 'with its two hex digits in the wrong order'
    if len(got) >= 2 and got[0] == 0x5c and all(0x30 <= b <= 0x39 for b in got[1:]) and int(bytes(got[1:])) == c:
        return 'with the decimal digits of its value, not the two hexadecimal ones'
    return 'with something other than backslash + the two hex digits of its value'

def describe_malformed(malformed, escaped):
    """malformed: {octet: set of the octet runs written as its escape}; escaped: every octet the loop escapes somewhere"""
    groups = {}
    for c, gots in malformed.items():
        for got in gots:
            groups.setdefault(diagnose_escape(c, got), []).append((c, got))
    out = []
    for why, items in sorted(groups.items(), key=lambda kv: min(kv[1])):
        cs = sorted({c for c, _g in items})
        low = {c for c in escaped if c < 0x10}
        who = 'every escaped octet' if set(cs) == set(escaped) else 'every escaped octet below 0x10' if set(cs) == low else 'of the escaped octets, these'
        c, got = min(items)
        out.append('%s (%s) %s written %s: `%02x` becomes `%s`, must be `%s`' % (who, ', '.join('0x%02x' % x for x in cs[:12]) + (', ..' if len(cs) > 12 else ''),
                                                                                'are' if who.endswith('these') else 'is', why, c, hexs(got), hexs(x[1] for x in escape_octets(c))))
    return out

def simple_value(v):
    return v[0] == 'lit' or v == absx.UNIT or (v[0] == 'ctor' and all(simple_value(x) for x in v[2]))

def describe_content(c):
    def one(x):
        if x[0] == 'pre':
            return 'input[..%s]' % absx.fmt(x[1])
        if x[0] == 'in':
            return 'input[%s..%s]' % (absx.fmt(x[1]), absx.fmt(x[2]))
        if x[0] == 'chr':
            return 'the encoding of %s' % absx.fmt(x[1])
        if x[0] == 'lit' and isinstance(x[1], int) and not isinstance(x[1], bool):
            return '%02x' % x[1]
        return 'earlier content' if x in (NONEMPTY, EARLIER) else absx.fmt(x)[:50]
    return c if isinstance(c, str) else 'unset' if c is None else 'empty' if not c else 'non-empty' if c == (NONEMPTY,) else '[%s]' % ', '.join(one(x) for x in c)

def own_octets(cls, idx, content):
    """does `content` denote exactly the octets of the input that the item (class cls, first octet at offset idx) stands for?
    - the octet itself (an octet / an ASCII character: its code), the encoding of the very character (a non-ASCII class), or the
    slice input[idx..idx + L] of the input, which is those octets by the definition of the walk"""
    L = class_len(cls)
    if isinstance(cls, int) and content == (('lit', cls),):
        return True
    if not isinstance(cls, int) and content == (('chr', nonascii(L)),):
        return True
    if len(content) == 1 and content[0][0] == 'in' and content[0][1] == idx:
        end = ('lit', idx[1] + L) if idx[0] == 'lit' else offset(idx, ('lit', L))
        return content[0][2] == end
    return False

def transducer(ctx, E, name, roles=(None,)):
    """Evaluate the loop body for every class of item (x output started? x role of the item's position) and classify: returns
    ({class: set of (decision, role)}, deviations of the escape path / the loop's frame, deviations of the copy path, evaluations).
    Specification, per item: either it is *escaped* - the output grows by backslash + the two lower-case hex digits of the octet (a
    lazy output is first set to input[..i], i the item's offset) - or it is *copied* - a started output grows by exactly the octets
    of the input the item stands for, an unset one stays unset.  A non-ASCII character is never escaped."""
    table, wrong, copies = {}, [], []
    n_eval = 0
    if E.walk is None:
        return table, [('the loop does not walk the bytes of the input',)], copies, 0
    if E.acc is None:
        return table, [('expected one output accumulator (an octet buffer or an Option of one) alive when the loop is reached, found %d' % len(E.accs),)], copies, 0
    lazy = E.acc[1] in T_LAZY
    unit = E.walk[3]
    reenc = {}
    malformed = {}
    for cls in classes_of(unit):
      L = class_len(cls)
      who = class_name(cls, unit)
      for role in roles:
        pos = position(role, L)
        idx = ('lit', pos[0]) if pos is not None else IDX
        for started in ((False, True) if lazy else (True,)):
            if pos is not None and pos[0] == 0 and started and lazy:
                continue        # nothing can have been escaped before the first byte
            ctxt = '%s%s, output %s' % (who, ' as the %s item' % role if role else '', 'started' if started else 'not started')
            runs = E.run_item(cls, started, pos)
            if not runs:
                wrong.append((ctxt, 'the loop body was not evaluated'))
            for o, content in runs:
                n_eval += 1
                if o.kind not in ('val', 'cont'):
                    wrong.append((ctxt, 'leaves the loop: ' + o.kind)); continue
                if isinstance(content, str):
                    wrong.append((ctxt, content)); continue
                esc = escape_octets(cls) if isinstance(cls, int) else None
                # what precedes the escape: a lazy output is first set to input[..i] (nothing, for the first item)
                pref = canon((('pre', idx),) if lazy and not started else ())
                if content is not None and esc is not None and content[:len(pref)] == pref and is_escape_of(cls, content[len(pref):]):
                    table.setdefault(cls, set()).add(('escape', role))
                    if lazy and not started and not E.indexed:
                        wrong.append((ctxt, 'the prefix is copied although the loop does not number its items'))
                    continue
                if content is not None and len(content) >= 1 and ('lit', 0x5c) in content[:2] and not (isinstance(cls, int) and cls == 0x5c and content == (('lit', 0x5c),)):
                    # something that begins (after a possible prefix) with a backslash: an escape, but not the specified one
                    if esc is None:
                        if not any(w[0] == ctxt for w in wrong):        # (one report per context: the forks over what is not known of the character differ only in the digits)
                            wrong.append((ctxt, 'a non-ASCII character is replaced by an escape sequence: the output grows by %s' % describe_content(content)))
                    else:
                        # the decision to escape is taken (the sets of E1 / E2 are about the decision); what is written is wrong
                        table.setdefault(cls, set()).add(('escape', role))
                        got = octet_lits(content[len(pref):]) if content[:len(pref)] == pref else None
                        if got is not None:
                            # the right prefix, then literal octets that are not the escape sequence: reported once per octet, below
                            malformed.setdefault(cls, set()).add(got)
                            continue
                        why = ''
                        if lazy and not started and is_escape_of(cls, content[-3:]):
                            why = ' - the prefix must be input[..%s], copied once, when the output is started' % absx.fmt(idx)
                        elif is_escape_of(cls, content[-3:]):
                            why = ' - the unescaped prefix is copied again'
                        wrong.append((ctxt, 'escaped as %s, must be %s%s' % (describe_content(content), describe_content(pref + esc), why)))
                    continue
                # the copy path
                table.setdefault(cls, set()).add(('plain', role))
                if not started:
                    if content is not None:
                        copies.append((ctxt, 'nothing was escaped so far, yet the output is set and holds %s' % describe_content(content)))
                elif content is None or not own_octets(cls, idx, content):
                    lits = [x[1] for x in (content or ()) if x[0] == 'lit' and isinstance(x[1], int) and not isinstance(x[1], bool)]
                    if isinstance(cls, int) and cls >= 0x80 and content is not None and len(lits) == len(content) and bytes(lits) == chr(cls).encode('utf-8'):
                        reenc[cls] = bytes(lits)
                    else:
                        copies.append((ctxt, 'the item is not escaped, so the output must grow by the very octets it stands for, but it %s' % (
                            'is unset' if content is None else 'grows by nothing' if not content else 'grows by ' + describe_content(content))))
    if reenc:
        ex = 0xfc if 0xfc in reenc else sorted(reenc)[0]
        copies.insert(0, ('%s copied through the unescaped path' % ('every byte >= 0x80' if len(reenc) == 128 else 'the bytes %s' % ['0x%02x' % c for c in sorted(reenc)][:8]),
                          'such a byte is one octet of a multi-octet character and must reach the output as it is, but it is re-encoded as the code point U+00NN of its '
                          'value (`b as char` / char::from(b) is Latin-1, not UTF-8) and reaches the output as two octets: 0x%02x becomes %s' % (ex, ' '.join('%02x' % b for b in reenc[ex]))))
    if malformed:
        escaped = {c for c, ds in table.items() if isinstance(c, int) and any(d == 'escape' for d, _r in ds)}
        wrong[:0] = [('an escaped octet must be written as backslash + its two hex digits, but ' + m,) for m in describe_malformed(malformed, escaped)]
    wrong.extend((w,) for w in E.before_loop())
    if E.two_phase and not wrong:
        # the bytes before `start` are copied as they are: the search that found `start` must not pass over a byte the loop would escape
        escapes = {(c, cx) for c, ds in table.items() for d, cx in ds if d == 'escape'}
        atom = E.start_search(E.walk[0])
        recs = [r for r in E.search_tables(roles) if atom is not None and r['name'] == 'position' and r['src'] == atom[1]]
        if not recs:
            wrong.append(('the loop does not start at the index a first-match search over the whole input has found',))
        elif not all(finds_all(r, escapes) for r in recs):
            missed = sorted((k for r in recs for k in escapes if r['table'].get(k) != {True}), key=str)[:6]
            wrong.append(('the bytes before the first match are copied unescaped, but the search passes over (byte, position) %s, which the loop escapes' % missed,))
    return table, wrong, copies, n_eval

def char_set(t):
    """the set of bytes a `contains(..)` pattern denotes: an array / slice of char or byte literals, or a single one"""
    arr = absx.leaves(t, lambda x: x[0] == 'array')
    items = arr[0][1] if arr else ((t,) if t[0] == 'lit' else None)
    if items is None:
        return None
    out = set()
    for x in items:
        if x[0] != 'lit':
            return None
        v = x[1]
        if isinstance(v, str) and len(v) == 1:
            out.add(ord(v))
        elif isinstance(v, int) and not isinstance(v, bool):
            out.add(v)
        else:
            return None
    return out

def check_identity_paths(ctx, E, name, escape_set, escapes, roles=(None,)):
    """Where the function hands its input back unchanged, nothing may need escaping: either the lazy accumulator is still None
    after the loop (an escape would have started it - the per-byte rule), or an earlier test excluded every byte of the escape
    set (a `contains` over a set that covers it), or a search over the whole input with a predicate that holds for every
    (byte, position) the loop escapes has found nothing.  escapes = {(byte, position)} as decided by the loop body."""
    B = E.B
    I = absx.Interp(E.f, B, unroll=1, for_once=True, combinators=True)
    env = {b: (INPUT if v[0] == 'param' else v) for b, v in I.param_env().items()}
    outs = I.run(env=env)
    n_id = 0
    tables = None
    for o in outs:
        if o.kind not in ('val', 'ret'):
            continue
        v = o.val
        ident = v[0] == 'call' and v[1].endswith('::into') or v[0] == 'param'
        if not ident:
            continue
        n_id += 1
        # (the Option that is None on the path must be the lazy accumulator as the loop leaves it - not just any Option)
        lazy_now = [o.st.env.get(b) for b, ty in E.accs if ty in T_LAZY]
        acc_none = any(a[0] == 'is' and a[2] == 'Some' and not t and (a[1] in lazy_now or (a[1][0] == 'carried' and a[1][1] in [b for b, ty in E.accs if ty in T_LAZY]))
                       for a, t in o.st.pc) or any(v == ('ctor', 'None', ()) for v in lazy_now)
        by_contains = False
        by_search = False
        for a, t in o.st.pc:
            if a[0] == 'call' and a[1].rsplit('::', 1)[-1] == 'contains' and not t:
                cs = char_set(a[2][1])
                if cs is not None and cs >= escape_set:
                    by_contains = True
            if a[0] in ('position', 'any', 'all') and t == (a[0] == 'all') and is_whole_walk(a[1]):
                # nothing found (all: everything passes) - see absx for the atom; `find` is recorded as `position`
                if tables is None:
                    tables = E.search_tables(roles)
                recs = [r for r in tables if r['src'] == a[1] and (r['name'] if r['name'] != 'find' else 'position') == a[0]]
                if recs and all(finds_all(r, escapes) for r in recs):
                    by_search = True
        in_loop_ret = any(e[0] == 'call' and e[1].rsplit('::', 1)[-1] in VEC_WRITES for e in o.st.ev)
        ctx.add('E4.identity-only-when-nothing-to-escape', name, loc(B.root), (acc_none or by_contains or by_search) and not in_loop_ret,
                'the input is returned unchanged on a path that neither left the lazy output unset nor excluded every byte of the escape set %s' % sorted(escape_set))
    return n_id

def show_dev(ws, n=6):
    return ['%s: %s' % (w[0], w[1]) if len(w) == 2 else str(w[0]) for w in ws[:n]]

def run(ctx):
    f = ctx.facts
    import importlib
    C08 = importlib.import_module('props.C08')
    # ------------------------------------------------------------------ E1/E3/E4 ldap_escape
    try:
        E = Escaper(f, 'ldap3::util::ldap_escape', 'lit')
    except absx.NotEvaluable as e:
        ctx.fail('anchor-missing', 'ldap_escape loop', '', 'expected one loop over the input bytes (%s)' % e); return
    ctx.analysed['bodies'].add(E.path)
    ctx.add('E3.iterates-input-bytes-in-order', 'ldap_escape', loc(E.loop), E.iter_ok, 'the loop does not visit the bytes of the input in order')
    table, wrong, copies, n_eval = transducer(ctx, E, 'ldap_escape')
    ctx.add('E3.per-byte-transducer', 'ldap_escape', loc(E.B.root), not wrong, 'for (item of the input, output started?) the loop body deviates from "escape as backslash + two hex digits, or copy": %s' % show_dev(wrong))
    ctx.add('E3.copied-octets-unchanged', 'ldap_escape', loc(E.B.root), not copies, 'what is not escaped must reach the output as the same octets: %s' % show_dev(copies))
    escaped = {c for c, ds in table.items() if ds == {('escape', None)}}
    mixed = {c for c, ds in table.items() if len({d for d, _ in ds}) > 1}
    ctx.add('E3.decision-depends-on-the-byte-only', 'ldap_escape', loc(E.B.root), not mixed, 'items of the input escaped only sometimes: %s' % [class_name(c, E.unit) for c in sorted(mixed, key=str)][:8])
    vclass = C08.eval_class(f, ('fn', 'ldap3::filter::is_value_char'))
    want = (set(range(256)) - (vclass or set())) | {0x5c}
    ctx.add('E1.escape-set-agrees-with-filter-lexer', 'ldap_escape', loc(E.B.root), vclass is not None and escaped == want,
            'ldap_escape escapes %s; the filter lexer rejects %s in values and unescapes on backslash' % (sorted(escaped), sorted(want - {0x5c})))
    ctx.add('E1.escape-set', 'ldap_escape', loc(E.B.root), escaped == {0, 0x28, 0x29, 0x2a, 0x5c}, 'escape set is %s, documented: \\ * ( ) NUL' % sorted(escaped))
    ctx.analysed['notes'].append({'ldap_escape evaluations': n_eval})
    check_identity_paths(ctx, E, 'ldap_escape', {0, 0x28, 0x29, 0x2a, 0x5c}, {(c, None) for c in escaped})
    check_tail(ctx, f, E, 'ldap_escape')

    # ------------------------------------------------------------------ E2 dn_escape
    try:
        D = Escaper(f, 'ldap3::util::dn_escape', 'val')
    except absx.NotEvaluable as e:
        ctx.fail('anchor-missing', 'dn_escape loop', '', 'expected one loop over the input bytes (%s)' % e); return
    ctx.analysed['bodies'].add(D.path)
    ctx.add('E3.iterates-input-bytes-in-order', 'dn_escape', loc(D.loop), D.iter_ok, 'the loop does not visit the bytes of the input in order')
    # the loop body is evaluated for every item in the four positions that matter: the only item of a value, the first, a middle
    # and the last item of a longer one - with the index and the input's length as literals, so that every position test is
    # decided exactly, however it is spelled
    table, wrong, copies, n_eval = transducer(ctx, D, 'dn_escape', roles=ROLES)
    always, leading, trailing = set(), set(), set()
    for c, ds in table.items():
        who = class_name(c, D.unit)
        verdict = {}
        for d, role in ds:
            verdict.setdefault(role, set()).add(d)
        mixed = [role for role, v in verdict.items() if len(v) != 1]
        if mixed or set(verdict) != set(ROLES):
            wrong.append((who, 'not decided in positions %s' % (mixed or sorted(set(ROLES) - set(verdict)))))
            continue
        esc = {role for role, v in verdict.items() if v == {'escape'}}
        if not isinstance(c, int):
            continue            # (a non-ASCII character is never recorded as escaped: see transducer)
        if 'middle' in esc:
            always.add(c)
            if esc != set(ROLES):
                wrong.append((who, 'escaped in the middle of a value but not in positions %s' % sorted(set(ROLES) - esc)))
            continue
        if 'first' in esc:
            leading.add(c)
        if 'last' in esc:
            trailing.add(c)
        # a one-byte value is both the first and the last byte
        if ('only' in esc) != ('first' in esc or 'last' in esc):
            wrong.append((who, 'as a one-byte value it is %s, but as the first byte of a longer value it is %s and as the last %s' % (
                'escaped' if 'only' in esc else 'not escaped', 'escaped' if 'first' in esc else 'not escaped', 'escaped' if 'last' in esc else 'not escaped')))
    ctx.add('E3.per-byte-transducer', 'dn_escape', loc(D.B.root), not wrong, 'unexpected loop-body behaviour: %s' % show_dev(wrong))
    ctx.add('E3.copied-octets-unchanged', 'dn_escape', loc(D.B.root), not copies, 'what is not escaped must reach the output as the same octets: %s' % show_dev(copies))
    ctx.add('E2.always-escaped', 'dn_escape', loc(D.B.root), RFC4514_SPECIAL <= always and always <= (ASCII_PUNCT | {0}),
            'always-escaped set %s must contain RFC 4514\'s %s and stay within ASCII punctuation: in RFC 4514\'s must-escape set but not escaped: %s; escaped although neither NUL nor ASCII punctuation: %s' % (
                sorted(always), sorted(RFC4514_SPECIAL), ['0x%02x' % c for c in sorted(RFC4514_SPECIAL - always)], ['0x%02x' % c for c in sorted(always - ASCII_PUNCT - {0})]))
    ctx.add('E2.leading', 'dn_escape', loc(D.B.root), leading == {0x20, 0x23}, 'escaped only in first position: %s, RFC 4514: space and #' % sorted(leading))
    ctx.add('E2.trailing', 'dn_escape', loc(D.B.root), trailing == {0x20}, 'escaped only in last position: %s, RFC 4514: space' % sorted(trailing))
    check_identity_paths(ctx, D, 'dn_escape', always | leading | trailing, {(c, role) for c, ds in table.items() for d, role in ds if d == 'escape'}, roles=ROLES)
    check_tail(ctx, f, D, 'dn_escape')

    # ------------------------------------------------------------------ E5 ldap_unescape
    check_unescape(ctx, f)


# ---------------------------------------------------------------------------------------
# E5: ldap_unescape decided as a transducer.
#
# Specification (what the loop must compute, stated over the input alone).  Let s_0 = Value, s_{k+1} = feed(s_k, input[k]) be the
# run of the shared unescaper (feed itself is decided exhaustively against RFC 4515: E5.unescaper-automaton).  "Started" becomes true
# at the first k with s_{k+1} = WantFirst (the first backslash) and stays true.  The output is
#       nothing                                                        while not started,
#       input[..k]                                                     when it starts at byte k   (EMPTY for k = 0, yet started),
#       the output so far ++ [v]                                       for every later step that ends in Value(v),
#       the output so far                                              for every later step that ends anywhere else,
# and the function answers Ok(the input itself) if never started, Ok(Owned(from_utf8(output)?)) if started and the run ends in
# Value, Err otherwise.
#
# Decision.  The product of that specification with the program is explored from the state in which the loop is reached: a product
# state is (unescaper state, started? - both on the specification's side - and the values of the program's own loop-carried locals:
# the output buffer's content, whatever else it keeps).  How the program *represents* "started" (Option::is_some, a flag, the
# buffer's emptiness) is never read: the program is only held to its observable side - the unescaper state it stores, what it
# appends to / copies into the one byte buffer, and what it finally returns from each reachable product state.  One generic
# iteration is evaluated (on literals) from every reachable product state for every byte 0..255; the index of the byte is symbolic
# and, where the iteration's course depends on it, takes the literals of the finite partition {0 (first byte), later ones}.
# Buffer contents are abstracted to {unset, empty, non-empty} between iterations (the program can observe no more through
# is_empty; a `len` of a non-empty buffer is opaque and forks), but within an iteration they are exact.

class Unescape:
    """ldap_unescape's loop as a transducer (see the comment above).  Roles, by type and data flow: the byte loop and what it visits
    (Escaper), the one output buffer (the local of type Vec<u8> / Option<Vec<u8>> declared before the loop), the unescaper state
    (the local of type Unescaper declared before the loop); every other local that is declared before the loop and written later
    is simply part of the carried program state."""
    def __init__(self, f, UE, esc):
        self.f, self.UE, self.U, self.esc = f, UE, UE.B, esc
        self.accb = self.accty = None
        self.I = BufInterp(f, self.U, summaries=[buf_summary, unesc.feed_summary(f), unesc.char_summary, fmtargs.summary],
                           inline=lambda cal: cal == unesc.FEED or cal.startswith('ldap3::util::'), combinators=True)
        self.I.stop_at = UE.loop
        self.n_eval = 0
        ints = {n.get('v') for n, _c in walk(self.U.root) if n.get('k') in ('Lit', 'PLit') and isinstance(n.get('v'), int) and not isinstance(n.get('v'), bool)}
        # positions, should the course of an iteration depend on the index: the first byte, and later ones around every integer the
        # function mentions (the partition its comparisons can induce)
        self.positions = sorted({0, 1, 2} | {k + d for k in ints if 0 <= k <= 4096 for d in (-1, 0, 1) if k + d >= 0})[:48]
        # the output buffer: the byte-vector local (plain or optional) that exists when the loop is reached (one declared after the
        # loop - the unwrapped result, say - is not it)
        self.ents, self.early = self.entry_states()
        accs = [(b, t) for b, t in UE.accs if self.ents and all(b in e_.st.env for e_ in self.ents)]
        if len(accs) == 1:
            (self.accb, self.accty), = accs

    # -------------------------------------------------------------- program state <-> environment
    def entry_states(self):
        I = self.I
        I.mode = 'upto'
        env = {b: (INPUT if v[0] == 'param' else v) for b, v in I.param_env().items()}
        outs = I.ev(self.U.root, absx.St(env))
        I.mode = None
        return [o for o in outs if o.kind == 'atloop'], [o for o in outs if o.kind != 'atloop']

    def content_of(self, st):
        v = st.env.get(self.accb, ('unk', 'acc'))
        if self.accty in T_LAZY:
            if v == ('ctor', 'None', ()):
                return None
            if not (v[0] == 'ctor' and v[1] == 'Some' and len(v[2]) == 1):
                raise Undecodable('the output holds %s' % absx.fmt(v)[:60])
            v = v[2][0]
        if not is_buf(v) or ('buf', v[1]) not in st.heap:
            raise Undecodable('the output holds %s' % absx.fmt(v)[:60])
        return canon(st.heap[('buf', v[1])])

    def others_of(self, st, carried):
        out = []
        for b in carried:
            v = st.env.get(b, ('unk', 'unset'))
            if not simple_value(v):
                raise Undecodable('the loop-carried local `%s` holds %s' % (self.U.defs[b]['name'], absx.fmt(v)[:60]))
            out.append((b, v))
        return tuple(out)

    def install(self, content, others, s):
        """(environment, heap) entries that put the program into the given carried state"""
        env = dict(others)
        env[self.esc] = unesc.state_term(s)
        heap = {}
        if content is None:
            env[self.accb] = ('ctor', 'None', ())
        else:
            env[self.accb] = ('ctor', 'Some', (ACC,)) if self.accty in T_LAZY else ACC
            heap[('buf', 'acc')] = tuple(content)
        return env, heap

    # -------------------------------------------------------------- one iteration
    def iterate(self, ent, state, c, idx):
        s, started, content, others = state
        env = {b: v for b, v in ent.st.env.items() if b in self.UE.frozen}
        for b in self.UE.inb:
            env[b] = INPUT
        e2, heap = self.install(content, others, s)
        env.update(e2)
        st0 = absx.St(env, heap, pc=ent.st.pc, ctr=ent.st.ctr + 1)
        item = self.UE.item_of(self.UE.walk[2], c, (0, 0))
        if self.UE.walk[2] != 'byte':
            pair = list(item[1]); pair[self.UE.walk[2][0]] = idx
            item = ('tuple', tuple(pair))
        outs = []
        for kind, s1 in self.I.match(self.UE.loop['pat'], item, st0):
            if kind != 'no':
                outs.extend(self.I.ev(self.UE.loop['body'], s1))
        self.n_eval += 1
        return outs

    def explore(self):
        """(reachable product states, deviations, initial-state deviations)"""
        ents, early = self.ents, self.early
        init_wrong, wrong = [], []
        if not ents:
            return {}, [('the byte loop is not reached',)], init_wrong
        ent = ents[0]
        self.carried = sorted(b for b in ent.st.env if b not in self.UE.frozen and b not in self.UE.inb and b not in (self.accb, self.esc)
                              and self.U.defs.get(b, {}).get('kind') == 'let')
        seen, todo = {}, []
        for e_ in ents:
            try:
                s0 = unesc.from_term(e_.st.env.get(self.esc, ('unk',)))
                c0 = self.content_of(e_.st)
                o0 = self.others_of(e_.st, self.carried)
            except Undecodable as x:
                init_wrong.append(str(x)); continue
            if s0 is None or s0[0] != 'Value':
                init_wrong.append('the unescaper starts in %s, not in Value' % (s0,)); continue
            if c0:
                init_wrong.append('the output holds %s before the first byte is read' % describe_content(c0)); continue
            if any(ev[0] in ('buf-unmodelled',) for ev in e_.st.ev):
                init_wrong.append('the output buffer is handed to a call the rules have no model for'); continue
            for v in (0, 65):
                k = (('Value', v), False, c0, o0)
                if k not in seen:
                    seen[k] = e_; todo.append(k)
        while todo and len(seen) <= 400:
            state = todo.pop()
            ent = seen[state]
            s, started, content, others = state
            for c in range(256):
                exp_s = unesc.ref_feed(s, c)
                outs = self.iterate(ent, state, c, IDX)
                if self.UE.indexed and len(outs) != 1:
                    # the course of the iteration may depend on where the byte stands: decide it position by position
                    runs = [(('lit', p), self.iterate(ent, state, c, ('lit', p))) for p in self.positions]
                else:
                    runs = [(IDX, outs)]
                for idx, outs in runs:
                    if not outs:
                        wrong.append((state, c, idx, 'the loop body was not evaluated'))
                    for o in outs:
                        for nxt in self.judge(state, c, idx, o, exp_s, wrong):
                            if nxt not in seen:
                                seen[nxt] = ent; todo.append(nxt)
        if todo:
            wrong.append(('the carried program state does not stay within a finite set (%d states)' % len(seen),))
        return seen, wrong, init_wrong

    def judge(self, state, c, idx, o, exp_s, wrong):
        """Compare one path of one iteration with the specification; yields the successor product states."""
        s, started, content, others = state
        def dev(what):
            wrong.append((state, c, idx, what))
        if o.kind in ('ret', 'brk') and exp_s == ('Error',) and (o.kind == 'ret' or o.target in (None, self.UE.loop.get('id'))):
            # Error is absorbing (reference automaton, which feed equals): whatever follows, the run ends in Error after an escape was
            # seen, and the specified result is an error.  Leaving at once with an error is that result; leaving the loop is judged
            # like an iteration that completes (the result from the state reached is decided with the others)
            if o.kind == 'ret':
                if not is_error(o.val):
                    dev('returns %s where the escape is malformed' % absx.fmt(o.val)[:60])
                return []
        elif o.kind not in ('val', 'cont'):
            dev('leaves the loop (%s)' % o.kind); return []
        if any(ev[0] == 'buf-unmodelled' for ev in o.st.ev):
            dev('the output buffer is handed to %s, for which the rules have no model' % [ev[1] for ev in o.st.ev if ev[0] == 'buf-unmodelled'][:2]); return []
        ns = unesc.from_term(o.st.env.get(self.esc, ('unk',)))
        if ns != exp_s:
            dev('the stored unescaper state is %s, feed gives %s' % (ns, exp_s)); return []
        try:
            got = self.content_of(o.st)
            others2 = self.others_of(o.st, self.carried)
        except Undecodable as x:
            dev(str(x)); return []
        first = (not started) and exp_s == ('WantFirst',)
        if first:
            exp = (('pre', idx),)
        elif not started:
            exp = None           # nothing is copied before the first escape: unset or empty
        else:
            exp = (content or ()) + ((('lit', exp_s[1]),) if exp_s[0] == 'Value' else ())
        started2 = started or first
        if exp is None:
            if got:
                dev('no escape seen so far, yet the output holds %s' % describe_content(got)); return []
        elif got is None or canon(got) != canon(exp):
            why = ''
            if started and not content and exp and not got:
                why = ' - a started but still empty output (first escape at offset 0) is treated as not started'
            dev('the output is %s, must be %s%s' % (describe_content(got), describe_content(canon(exp)), why)); return []
        # successor states: Value payloads and buffer contents by class
        nexts = []
        ss = [('Value', 0), ('Value', 65)] if exp_s[0] == 'Value' else [exp_s]
        if got is None:
            classes = [None]
        else:
            unknown = [x for x in got if item_empty(x) is None]
            if any(item_empty(x) is False for x in got):
                classes = [(NONEMPTY,)]
            elif not unknown:
                classes = [()]
            elif all(x == ('pre', IDX) for x in unknown):
                classes = [(), (NONEMPTY,)]         # input[..i]: empty for the first byte, non-empty for a later one
            else:
                dev('the output holds %s, of unknown extent' % describe_content(got)); return []
        for s2 in ss:
            for cl in classes:
                nexts.append((s2, started2, cl, others2))
        return nexts

    # -------------------------------------------------------------- after the loop
    def results(self, state):
        s, started, content, others = state
        I = self.I
        I.mode, I.after = 'around', self.install(content, others, s)
        env = {b: (INPUT if v[0] == 'param' else v) for b, v in I.param_env().items()}
        try:
            outs = I.ev(self.U.root, absx.St(env))
        finally:
            I.mode = None
        return [o for o in outs if o.kind in ('val', 'ret') and ('loop-done',) in o.st.ev], [o for o in outs if o.kind not in ('val', 'ret') and ('loop-done',) in o.st.ev]

def utf8_of_acc(t):
    """the from_utf8(<the output buffer>) call inside t, if there is exactly that one"""
    cs = absx.leaves(t, lambda x: x[0] == 'call' and x[1].rsplit('::', 1)[-1] == 'from_utf8' and len(x[2]) == 1 and x[2][0] == ACC)
    return cs[0] if cs else None

def is_error(v):
    return (v[0] == 'tryerr' and (v[1][0] != 'ctor' or v[1][1] == 'Err')) or (v[0] == 'ctor' and v[1] == 'Err')

def check_unescape(ctx, f):
    n, w = unesc.check_feed(f)
    ctx.add('E5.unescaper-automaton', 'Unescaper::feed', '', not w and n == 5120, 'the shared unescaper differs from the RFC 4515 automaton on %d of %d (state, byte) pairs: %s' % (len(w), n, w[:4]))
    try:
        UE = Escaper(f, 'ldap3::util::ldap_unescape', 'val')
    except absx.NotEvaluable as e:
        ctx.fail('anchor-missing', 'ldap_unescape loop', '', 'expected one loop over the input bytes (%s)' % e); return
    U = UE.B
    ctx.analysed['bodies'].add(U.path)
    # the automaton state: the local of type Unescaper declared before the loop
    escb = [b for b, d in U.defs.items() if d['kind'] == 'let' and hirq.strip_refs(d['pat'].get('ty') or '') == 'ldap3::filter::Unescaper'
            and not any(x is d['node'] for blk, _c in walk(UE.loop) if blk['k'] == 'Block' for x in blk['stmts'])]
    T = Unescape(f, UE, escb[0]) if len(escb) == 1 else None
    if T is None or T.accb is None:
        ctx.fail('anchor-missing', 'ldap_unescape state', '', 'expected one Unescaper state variable and one output buffer (Vec<u8> / Option<Vec<u8>>) alive when the byte loop is reached'); return
    ctx.add('E5.iterates-input-bytes-in-order', 'ldap_unescape', loc(UE.loop), UE.iter_ok and not UE.two_phase,
            'the loop does not visit every byte of the input in order, from the first')
    if UE.walk is None:
        ctx.fail('E5.unescape-loop', 'ldap_unescape', loc(U.root), 'what the loop iterates over is not a walk over the bytes of the input: the iteration cannot be evaluated'); return
    seen, wrong, init_wrong = T.explore()
    ctx.add('E5.initial-state', 'ldap_unescape', loc(U.root), not init_wrong and bool(seen),
            'the loop must be reached with the unescaper in the Value state and nothing copied: %s' % init_wrong[:3])
    def show(d):
        if len(d) < 4:
            return d[0]
        (s, started, content, others), c, idx, what = d
        return 'from (unescaper %s, %s, output %s%s), byte 0x%02x at index %s: %s' % (
            s[0] + ('(%d)' % s[1] if len(s) > 1 else ''), 'an escape was seen' if started else 'no escape seen yet', describe_content(content),
            ''.join(', %s = %s' % (U.defs[b]['name'], absx.fmt(v)) for b, v in others), c, absx.fmt(idx), what)
    # two product states the program cannot tell apart although the specification can
    blind = sorted({describe_content(k[2]) for k in seen for k2 in seen if k[1] and not k2[1] and k[2:] == k2[2:]})
    ctx.add('E5.unescape-loop', 'ldap_unescape', loc(U.root), not wrong and bool(seen),
            'one iteration deviates from "store feed\'s state; at the first escape the output becomes input[..i]; from then on append every Value byte" '
            '(%d deviations over %d reachable states%s): %s' % (len(wrong), len(seen), '; with the output %s the program is in the same state before and after the first escape' % blind if blind else '',
                                                               [show(d) for d in wrong[:4]]))
    ctx.analysed['notes'].append({'ldap_unescape: reachable (unescaper, started, program) states': len(seen), 'iterations evaluated': T.n_eval})
    # the result, from every reachable state: never started -> the input itself; started and Value -> the collected output as a string
    # (or the UTF-8 error); started and not Value -> an error
    bad = []
    for state in sorted(seen, key=str):
        s, started, content, others = state
        res, abn = T.results(state)
        label = '(%s, %s, output %s)' % (s[0], 'escape seen' if started else 'no escape', describe_content(content))
        if not res or abn:
            bad.append('%s: no result / the function does not return (%s)' % (label, [o.kind for o in abn][:3])); continue
        oks = 0
        for o in res:
            v = o.val
            tail_ev = o.st.ev[o.st.ev.index(('loop-done',)):]
            if any(ev[0] == 'buf-write' or (ev[0] == 'buf-unmodelled' and ev[1].rsplit('::', 1)[-1] != 'from_utf8') for ev in tail_ev):
                bad.append('%s: the output is modified (or handed to an unmodelled call) after the loop' % label); continue
            if not started:
                if v != ('ctor', 'Ok', (INPUT,)):
                    bad.append('%s: returns %s, must return the input itself' % (label, absx.fmt(v)[:70]))
            elif s[0] == 'Value':
                u = utf8_of_acc(v)
                if v[0] == 'ctor' and v[1] == 'Ok' and v[2][0][0] == 'ctor' and v[2][0][1] == 'Cow::Owned' and u is not None \
                        and v[2][0][2][0] == ('variant', u, 'Ok', 0):
                    oks += 1
                elif is_error(v) and any(a[0] == 'is' and a[2] == 'Ok' and not t and utf8_of_acc(a[1]) == a[1] for a, t in o.st.pc):
                    pass       # the collected bytes are not UTF-8
                else:
                    bad.append('%s: returns %s, must return the collected output as an owned string' % (label, absx.fmt(v)[:70]))
            elif not is_error(v):
                bad.append('%s: returns %s, must be an error (unfinished or malformed escape)' % (label, absx.fmt(v)[:70]))
        if started and s[0] == 'Value' and not oks and not any(b_.startswith(label) for b_ in bad):
            bad.append('%s: no path returns the collected output' % label)
    ctx.add('E5.unescape-result', 'ldap_unescape', loc(U.root), not bad and bool(seen), 'result by reachable (final unescaper state, escape seen?, output): %s' % bad[:5])


class PastLoop(absx.Interp):
    """The function evaluated around the byte loop: the loop itself is stepped over, leaving the accumulators with the given values
    (what the loop does is decided per byte, see transducer), so that the paths show what the function does with them afterwards,
    wherever the loop stands in the body."""
    stop_at, acc_after = None, {}
    def ev_For(self, e, st):
        if e is self.stop_at:
            outs = []
            for o in self.ev(e['iter'], st):
                if o.kind != 'val':
                    outs.append(o); continue
                s = o.st
                for b, v in self.acc_after.items():
                    s = s.set(b, v)
                outs.append(absx.Out('val', absx.UNIT, s.event(('loop-done',))))
            return outs
        return super().ev_For(e, st)

def after_loop(f, E, acc_after):
    """what the function returns on the paths that run through the byte loop, given the accumulators' values after it"""
    I = PastLoop(f, E.B, combinators=True)
    I.stop_at, I.acc_after = E.loop, acc_after
    env = {b: (INPUT if v[0] == 'param' else v) for b, v in I.param_env().items()}
    outs = [o for o in I.ev(E.B.root, absx.St(env)) if o.kind in ('val', 'ret') and ('loop-done',) in o.st.ev]
    # a value that was written to after the loop is not what the loop collected: ('written-after-loop', the method)
    def written(o):
        tail = o.st.ev[o.st.ev.index(('loop-done',)):]
        ws = [e[1].rsplit('::', 1)[-1] for e in tail if e[0] == 'call' and e[1].rsplit('::', 1)[-1] in VEC_WRITES + ('clear', 'truncate', 'pop', 'remove')
              and ('alloc::vec::Vec' in e[1] or 'alloc::string::String' in e[1])]
        return ('written-after-loop', ws[0]) if ws else None
    return [written(o) or o.val for o in outs]

def check_tail(ctx, f, E, name):
    """E4: after the loop the collected bytes are what is returned (as an owned string) whenever output was started."""
    B = E.B
    if not E.accs or len(E.inb) != 1:
        ctx.fail('E4.tail', name, loc(B.root), 'unexpected function shape (no accumulator / working copy of the input)'); return
    where = post_loop(B, E.loop) or B.root
    r1 = after_loop(f, E, {b: ('ctor', 'Some', (('param', 'out'),)) if ty in T_LAZY else ('param', 'out') for b, ty in E.accs})
    # the collected octets as a string: a String is returned as it is (it holds these very octets); a Vec<u8> goes through
    # String::from_utf8, which keeps the octets (or fails)
    ok = bool(r1) and all(v[0] == 'ctor' and v[1] == 'Cow::Owned' and (v[2] == (('param', 'out'),) or absx.leaves(v, lambda x: x == ('param', 'out')) and 'from_utf8' in str(v)) for v in r1)
    ctx.add('E4.owned-when-escaped', name, loc(where), ok, 'with escapes the function does not return the collected output as an owned string: %s' % (
        ['the output is written to after the loop (%s)' % v[1] if v[0] == 'written-after-loop' else 'returns ' + absx.fmt(v)[:80] for v in r1][:3] or 'no path returns'))
    if E.lazy:
        r0 = after_loop(f, E, {b: ('ctor', 'None', ()) if ty in T_LAZY else ('param', 'out') for b, ty in E.accs})
        ctx.add('E4.unchanged-when-nothing-escaped', name, loc(where), bool(r0) and all(v == INPUT for v in r0),
                'with nothing to escape the function returns %s instead of its input' % [absx.fmt(x) for x in r0])
