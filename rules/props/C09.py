"""C09 - escaped text is inert."""
from facts import walk, callee_of, call_args, loc
import hirq, anchors, absx, unesc

EXPLANATION = ("The escape functions are per-byte transducers; their loop bodies are abstractly evaluated on literals for every byte value "
               "(0..255) crossed with the finitely many contexts the body distinguishes (output already started?; for dn_escape: first "
               "position?, last position?), so the decision - hex-escape or copy - and the three emitted bytes `\\`, hex(c>>4), hex(c&15) "
               "are decided exhaustively: E1 ldap_escape escapes exactly {\\ * ( ) NUL} = complement of the filter lexer's value class "
               "(extracted from filter.rs) plus the unescaper's trigger byte; E2 dn_escape always escapes a superset of RFC 4514's specials "
               "within ASCII punctuation, space and # only in first position, space only in last; E3 emission order and the single copy of "
               "the unescaped prefix at the first escape; E4 the input itself is returned when nothing was escaped; E5 ldap_unescape drives "
               "the shared unescaper (itself evaluated exhaustively over all 5120 (state, byte) pairs against the RFC 4515 automaton), copies "
               "the prefix when the first escape starts, pushes exactly the Value bytes, returns the input when no escape was seen and an "
               "error when the final state is not Value. Not decided: an RFC 4514 parser (there is none in the repository); round trip taken whole.")
TRUSTED = ['String::from_utf8 / Cow semantics', 'the for loop visits the bytes in order (std enumerate)']
UNDECIDED = ['the RFC 4514 parser side (none in the repository)', 'round-trip equality of whole strings (the per-byte transducer is decided)']
ASSUMPTIONS = []
SHARED = [('C08', ('P1.entry',), 'E6.filter-compiler-reads-the-whole-input')]      # the escaped value is embedded in a filter string: the compiler must read that string as given, to its last octet

RFC4514_SPECIAL = set(b'"+,;<>\\') | {0}
ASCII_PUNCT = set(b'!"#$%&\'()*+,-./:;<=>?@[\\]^_`{|}~')
HEXCH = b'0123456789abcdef'

def inline_local(prefix):
    return lambda cal: cal.startswith(prefix)

def loop_of(B):
    fs = [n for n, c in walk(B.root) if n['k'] == 'For' and not any(a['k'] in ('For', 'Closure') for a, _ in c)]
    return fs[0] if len(fs) == 1 else None

T_LAZY = 'core::option::Option<alloc::vec::Vec<u8>>'
T_EAGER = 'alloc::vec::Vec<u8>'

class Escaper:
    """The roles of an escape function, found by type and data flow (never by name): the working copy of the input (a Cow<str>
    that comes from the parameter), the byte loop over it, the output accumulator declared before the loop (an Option<Vec<u8>>
    filled lazily from the first escape on, or a Vec<u8> filled from the start)."""
    def __init__(self, f, path, pname):
        self.f, self.path = f, path
        self.B = B = hirq.Body(f, f.body(path))
        self.loop = loop_of(B)
        if self.loop is None:
            raise absx.NotEvaluable('no single byte loop')
        inside = {id(n) for n, c in walk(self.loop)}
        self.inb = [b for b, d in B.defs.items() if d['kind'] == 'let' and (d['pat'].get('ty') or '').startswith("alloc::borrow::Cow<") and d['src'] is not None
                    and B.roots(B.origin(d['src'])) == {('param', pname)}]
        accs = [(b, hirq.strip_refs(d['pat'].get('ty') or '')) for b, d in B.defs.items() if d['kind'] == 'let' and id(d['node']) not in inside
                and hirq.strip_refs(d['pat'].get('ty') or '') in (T_LAZY, T_EAGER) and not any(a['k'] in ('For', 'Closure') for a, _ in B.context(d['node']) if False)]
        # declared outside the loop: the Let statement is not a descendant of the loop
        accs = [(b, t) for b, t in accs if not any(x is B.defs[b]['node'] for blk, _c in walk(self.loop) if blk['k'] == 'Block' for x in blk['stmts'])]
        self.accs = accs
        self.lazy = any(t == T_LAZY for b, t in accs)
        it = self.loop['iter']
        names = [x['name'] for x, _ in walk(it) if x['k'] == 'MethodCall']
        self.iter_ok = B.roots(B.origin(it)) <= {('param', pname)} | set() and any(n in names for n in ('as_bytes', 'bytes')) \
            and all(n in ('enumerate', 'iter', 'as_bytes', 'bytes', 'into_iter', 'copied', 'cloned', 'as_ref') for n in names)
        self.indexed = 'enumerate' in names

    def run_byte(self, c, started, inline, pos=None):
        """the loop body for the literal byte c: [(path outcome, bytes it emits, prefix-copy events)].  With pos = (i, n) the byte is the
        i-th of an input of n bytes: the index is that literal and every length taken of the input is n, so position tests are
        decided exactly however they are spelled (`i == 0`, `match i { 0 => .. }`, `i + 1 == len`, a hoisted `let len = ..`)."""
        summaries = None
        if pos is not None:
            def length_of_input(I, cal, args, node, st, n=pos[1]):
                if cal.rsplit('::', 1)[-1] in ('len', 'input_len') and len(args) == 1 and (args[0] == ('param', 'input') or absx.leaves(args[0], lambda x: x == ('param', 'input'))) \
                        and not absx.leaves(args[0], lambda x: x[0] in ('index', 'call') and x is not args[0] and x[0] == 'index'):
                    return [absx.Out('val', ('lit', n), st)]
                return None
            summaries = [length_of_input]
        I = absx.Interp(self.f, self.B, inline=inline, combinators=True, summaries=summaries)
        env = {}
        for b, name, proj, pn in hirq.pat_bindings(self.loop['pat']):
            env[b] = (('lit', pos[0]) if pos is not None else ('param', 'i')) if (self.indexed and proj[:1] == (('tup', 0),)) else ('lit', c)
        for b, t in self.accs:
            env[b] = (('ctor', 'Some', (('vec', ()),)) if started else ('ctor', 'None', ())) if t == T_LAZY else ('vec', ())
        for b in self.inb:
            env[b] = ('param', 'input')
        if pos is not None and self.B.root['k'] == 'Block':
            # immutable locals declared before the loop (a hoisted `let len = val.len();`): evaluated once, in order
            for stt in self.B.root['stmts']:
                if any(x is self.loop for x, _ in walk(stt)):
                    break
                if stt['k'] == 'Let' and stt.get('init') is not None:
                    bs = list(hirq.pat_bindings(stt['pat']))
                    if len(bs) == 1 and not bs[0][2] and bs[0][0] not in env:
                        try:
                            vs = [o for o in I.ev(stt['init'], absx.St(env)) if o.kind == 'val']
                        except Exception:
                            vs = []
                        if len(vs) == 1 and vs[0].val[0] == 'lit':
                            env[bs[0][0]] = vs[0].val
        res = []
        for o in I.ev(self.loop['body'], absx.St(env)):
            emitted, prefix = [], []
            for e in o.st.ev:
                if e[0] != 'call':
                    continue
                m = e[1].rsplit('::', 1)[-1]
                if m == 'push' and 'Vec' in e[1]:
                    emitted.append(e[2][1])
                elif m in ('extend', 'extend_from_slice', 'append'):
                    arrs = absx.leaves(e[2][1], lambda x: x[0] == 'array')
                    if arrs and not absx.leaves(e[2][1], lambda x: x == ('param', 'input')):
                        emitted.extend(arrs[0][1])
                    else:
                        prefix.append(e[2][1])
            res.append((o, emitted, prefix))
        return res

def post_loop(B, loop):
    """The statements and tail expression of the function body that follow the byte loop, as one block."""
    root = B.root
    if root['k'] != 'Block':
        return root.get('expr')
    idx = None
    for i, st in enumerate(root['stmts']):
        e = st.get('e') if st['k'] in ('Expr', 'Semi') else st.get('init')
        if e is not None and any(x is loop for x, _ in walk(e)):
            idx = i
    if idx is None:
        return root.get('expr')
    blk = dict(root)
    blk['stmts'] = root['stmts'][idx + 1:]
    return blk

def escape_bytes(c):
    return [('lit', 0x5c), ('lit', HEXCH[c >> 4]), ('lit', HEXCH[c & 15])]

def is_prefix_upto_i(t):
    """input[..i] (as str or bytes)"""
    idx = absx.leaves(t, lambda x: x[0] == 'index')
    return len(idx) == 1 and bool(absx.leaves(idx[0][1], lambda x: x == ('param', 'input')) or idx[0][1] == ('param', 'input')) and idx[0][2][0] == 'struct' \
        and idx[0][2][1].endswith('RangeTo') and (dict(idx[0][2][2]).get('end') == ('param', 'i') or (dict(idx[0][2][2]).get('end') or ('unk',))[0] == 'lit')

def transducer(ctx, E, name, inline, contexts, positions=(None,)):
    """Evaluate the loop body for every byte (x output started?) and classify: returns {byte: set of (decision, context)} and the
    list of deviations from "emit the byte itself, or backslash + two hex digits; copy the prefix exactly once, at the first escape"."""
    table, wrong = {}, []
    n_eval = 0
    for c in range(256):
      for pos in positions:
        for started in ((False, True) if E.lazy else (True,)):
            if pos is not None and pos[0] == 0 and started and E.lazy:
                continue        # nothing can have been escaped before the first byte
            for o, emitted, prefix in E.run_byte(c, started, inline, pos):
                n_eval += 1
                if o.kind not in ('val', 'cont'):
                    wrong.append((c, started, 'leaves the loop: ' + o.kind)); continue
                cx = contexts(o) if pos is None else pos
                if emitted == escape_bytes(c):
                    table.setdefault(c, set()).add(('escape', cx))
                    if E.lazy and not started:
                        okp = len(prefix) == 1 and is_prefix_upto_i(prefix[0]) and all((o.st.env.get(b) or ('unk',))[:2] == ('ctor', 'Some') for b, t in E.accs if t == T_LAZY)
                        if not okp:
                            wrong.append((c, started, 'prefix not copied once as input[..i] at the first escape'))
                    elif prefix:
                        wrong.append((c, started, 'prefix copied again'))
                elif emitted == ([('lit', c)] if started else []) and not prefix:
                    table.setdefault(c, set()).add(('plain', cx))
                else:
                    wrong.append((c, started, [absx.fmt(x) for x in emitted]))
    return table, wrong, n_eval

def char_set(t):
    """the set of bytes a `contains(..)` pattern denotes: an array / slice of char or byte literals, or a single one"""
    arr = absx.leaves(t, lambda x: x[0] == 'array')
    items = arr[0][1] if arr else ((t,) if t[0] == 'lit' else None)
    if items is None:
        return None
    out = set()
    for x in items:
        if x[0] != 'lit':
            return None
        v = x[1]
        if isinstance(v, str) and len(v) == 1:
            out.add(ord(v))
        elif isinstance(v, int) and not isinstance(v, bool):
            out.add(v)
        else:
            return None
    return out

def check_identity_paths(ctx, E, name, escape_set):
    """Where the function hands its input back unchanged, nothing may need escaping: either the lazy accumulator is still None
    after the loop (an escape would have started it - the per-byte rule), or an earlier test excluded every byte of the escape
    set (a `contains` over a set that covers it)."""
    B = E.B
    I = absx.Interp(E.f, B, unroll=1, for_once=True, combinators=True)
    env = I.param_env()
    outs = I.run(env=env)
    inp = None
    n_id = 0
    for o in outs:
        if o.kind not in ('val', 'ret'):
            continue
        v = o.val
        ident = v[0] == 'call' and v[1].endswith('::into') or v[0] == 'param'
        if not ident:
            continue
        n_id += 1
        acc_none = any(a[0] == 'is' and a[2] == 'Some' and not t for a, t in o.st.pc) or \
            any(o.st.env.get(b) == ('ctor', 'None', ()) for b, ty in E.accs if ty == T_LAZY)
        by_contains = False
        for a, t in o.st.pc:
            if a[0] == 'call' and a[1].rsplit('::', 1)[-1] == 'contains' and not t:
                cs = char_set(a[2][1])
                if cs is not None and cs >= escape_set:
                    by_contains = True
        in_loop_ret = any(e[0] == 'call' and e[1].rsplit('::', 1)[-1] == 'push' for e in o.st.ev)
        ctx.add('E4.identity-only-when-nothing-to-escape', name, loc(B.root), (acc_none or by_contains) and not in_loop_ret,
                'the input is returned unchanged on a path that neither left the lazy output unset nor excluded every byte of the escape set %s' % sorted(escape_set))
    return n_id

def run(ctx):
    f = ctx.facts
    import importlib
    C08 = importlib.import_module('props.C08')
    # ------------------------------------------------------------------ E1/E3/E4 ldap_escape
    try:
        E = Escaper(f, 'ldap3::util::ldap_escape', 'lit')
    except absx.NotEvaluable as e:
        ctx.fail('anchor-missing', 'ldap_escape loop', '', 'expected one loop over the input bytes (%s)' % e); return
    ctx.analysed['bodies'].add(E.path)
    ctx.add('E3.iterates-input-bytes-in-order', 'ldap_escape', loc(E.loop), E.iter_ok, 'the loop does not visit the bytes of the input in order')
    table, wrong, n_eval = transducer(ctx, E, 'ldap_escape', inline_local('ldap3::util::'), lambda o: None)
    ctx.add('E3.per-byte-transducer', 'ldap_escape', loc(E.B.root), not wrong, 'for (byte, output started) the loop body emits: %s' % wrong[:6])
    escaped = {c for c, ds in table.items() if ds == {('escape', None)}}
    mixed = {c for c, ds in table.items() if len({d for d, _ in ds}) > 1}
    ctx.add('E3.decision-depends-on-the-byte-only', 'ldap_escape', loc(E.B.root), not mixed, 'bytes escaped only sometimes: %s' % sorted(mixed)[:8])
    vclass = C08.eval_class(f, ('fn', 'ldap3::filter::is_value_char'))
    want = (set(range(256)) - (vclass or set())) | {0x5c}
    ctx.add('E1.escape-set-agrees-with-filter-lexer', 'ldap_escape', loc(E.B.root), vclass is not None and escaped == want,
            'ldap_escape escapes %s; the filter lexer rejects %s in values and unescapes on backslash' % (sorted(escaped), sorted(want - {0x5c})))
    ctx.add('E1.escape-set', 'ldap_escape', loc(E.B.root), escaped == {0, 0x28, 0x29, 0x2a, 0x5c}, 'escape set is %s, documented: \\ * ( ) NUL' % sorted(escaped))
    ctx.analysed['notes'].append({'ldap_escape evaluations': n_eval})
    check_identity_paths(ctx, E, 'ldap_escape', {0, 0x28, 0x29, 0x2a, 0x5c})
    check_tail(ctx, f, E, 'ldap_escape')

    # ------------------------------------------------------------------ E2 dn_escape
    try:
        D = Escaper(f, 'ldap3::util::dn_escape', 'val')
    except absx.NotEvaluable as e:
        ctx.fail('anchor-missing', 'dn_escape loop', '', 'expected one loop over the input bytes (%s)' % e); return
    ctx.analysed['bodies'].add(D.path)
    ctx.add('E3.iterates-input-bytes-in-order', 'dn_escape', loc(D.loop), D.iter_ok, 'the loop does not visit the bytes of the input in order')
    # the loop body is evaluated for every byte in the four positions that matter: the only byte of a one-byte value, the first, a
    # middle and the last byte of a longer one - with the index and the input's length as literals, so that every position test is
    # decided exactly, however it is spelled
    ONLY, FIRST, MIDDLE, LAST = (0, 1), (0, 3), (1, 3), (2, 3)
    table, wrong, n_eval = transducer(ctx, D, 'dn_escape', inline_local('ldap3::util::'), None, positions=(ONLY, FIRST, MIDDLE, LAST))
    always, leading, trailing = set(), set(), set()
    for c, ds in table.items():
        verdict = {}
        for d, pos in ds:
            verdict.setdefault(pos, set()).add(d)
        mixed = [pos for pos, v in verdict.items() if len(v) != 1]
        if mixed or set(verdict) != {ONLY, FIRST, MIDDLE, LAST}:
            wrong.append((c, 'not decided in positions %s' % (mixed or sorted({ONLY, FIRST, MIDDLE, LAST} - set(verdict)))))
            continue
        esc = {pos for pos, v in verdict.items() if v == {'escape'}}
        if MIDDLE in esc:
            always.add(c)
            if esc != {ONLY, FIRST, MIDDLE, LAST}:
                wrong.append((c, 'escaped in the middle of a value but not in positions %s' % sorted({ONLY, FIRST, MIDDLE, LAST} - esc)))
            continue
        if FIRST in esc:
            leading.add(c)
        if LAST in esc:
            trailing.add(c)
        # a one-byte value is both the first and the last byte
        if (ONLY in esc) != (FIRST in esc or LAST in esc):
            wrong.append((c, 'as a one-byte value it is %s, but as the first byte of a longer value it is %s and as the last %s' % (
                'escaped' if ONLY in esc else 'not escaped', 'escaped' if FIRST in esc else 'not escaped', 'escaped' if LAST in esc else 'not escaped')))
    ctx.add('E3.per-byte-transducer', 'dn_escape', loc(D.B.root), not wrong, 'unexpected loop-body behaviour: %s' % wrong[:6])
    ctx.add('E2.always-escaped', 'dn_escape', loc(D.B.root), RFC4514_SPECIAL <= always and always <= (ASCII_PUNCT | {0}),
            'always-escaped set %s must contain RFC 4514\'s %s and stay within ASCII punctuation' % (sorted(always), sorted(RFC4514_SPECIAL)))
    ctx.add('E2.leading', 'dn_escape', loc(D.B.root), leading == {0x20, 0x23}, 'escaped only in first position: %s, RFC 4514: space and #' % sorted(leading))
    ctx.add('E2.trailing', 'dn_escape', loc(D.B.root), trailing == {0x20}, 'escaped only in last position: %s, RFC 4514: space' % sorted(trailing))
    check_identity_paths(ctx, D, 'dn_escape', always | leading | trailing)
    check_tail(ctx, f, D, 'dn_escape')

    # ------------------------------------------------------------------ E5 ldap_unescape
    n, w = unesc.check_feed(f)
    ctx.add('E5.unescaper-automaton', 'Unescaper::feed', '', not w and n == 5120, 'the shared unescaper differs from the RFC 4515 automaton on %d of %d (state, byte) pairs: %s' % (len(w), n, w[:4]))
    try:
        UE = Escaper(f, 'ldap3::util::ldap_unescape', 'val')
    except absx.NotEvaluable as e:
        ctx.fail('anchor-missing', 'ldap_unescape loop', '', 'expected one loop over the input bytes (%s)' % e); return
    U = UE.B
    ctx.analysed['bodies'].add(U.path)
    # the automaton state: the local of type Unescaper declared before the loop
    escb = [b for b, d in U.defs.items() if d['kind'] == 'let' and hirq.strip_refs(d['pat'].get('ty') or '') == 'ldap3::filter::Unescaper'
            and not any(x is d['node'] for blk, _c in walk(UE.loop) if blk['k'] == 'Block' for x in blk['stmts'])]
    if len(escb) != 1 or not UE.accs:
        ctx.fail('anchor-missing', 'ldap_unescape state', '', 'expected one Unescaper state variable and one output accumulator'); return
    init = U.defs[escb[0]]['src']
    ctx.add('E5.initial-state', 'ldap_unescape', loc(U.root), init is not None and init['k'] == 'Call' and hirq.short_def(init['f'].get('ctor_of') or '') == 'Unescaper::Value',
            'the unescaper must start in the Value state')
    wrong = []
    for s_ in unesc.all_states():
        for c in list(range(0, 256, 7)) + list(unesc.HEX) + [0x5c]:
            for started in (False, True):
                I = absx.Interp(f, U, summaries=[unesc.char_summary], inline=lambda cal: cal == unesc.FEED or cal.startswith('ldap3::util::'), combinators=True)
                env = {escb[0]: unesc.state_term(s_)}
                for b, name, proj, pn in hirq.pat_bindings(UE.loop['pat']):
                    env[b] = ('param', 'i') if (UE.indexed and proj[:1] == (('tup', 0),)) else ('lit', c)
                for b, t in UE.accs:
                    env[b] = (('ctor', 'Some', (('vec', ()),)) if started else ('ctor', 'None', ())) if t == T_LAZY else ('vec', ())
                for b in UE.inb:
                    env[b] = ('param', 'input')
                exp_state = unesc.ref_feed(s_, c)
                for o in I.ev(UE.loop['body'], absx.St(env)):
                    pushes = [e[2][1] for e in o.st.ev if e[0] == 'call' and e[1].endswith('Vec::<T, A>::push')]
                    ns = unesc.from_term(o.st.env.get(escb[0], ('unk',)))
                    if ns != exp_state:
                        wrong.append((s_, c, 'state', ns)); continue
                    ext = [e for e in o.st.ev if e[0] == 'call' and e[1].rsplit('::', 1)[-1] in ('extend', 'extend_from_slice')]
                    exp_push = [('lit', exp_state[1])] if (exp_state[0] == 'Value' and started) else []
                    if pushes != exp_push:
                        wrong.append((s_, c, started, 'pushes', [absx.fmt(p_) for p_ in pushes]))
                    if exp_state[0] == 'WantFirst' and not started and UE.lazy:
                        now = [o.st.env.get(b) for b, t in UE.accs if t == T_LAZY]
                        if not (len(ext) == 1 and is_prefix_upto_i(ext[0][2][1]) and all(x is not None and x[:2] == ('ctor', 'Some') for x in now)):
                            wrong.append((s_, c, 'output not started with the prefix input[..i] when the first escape begins'))
                    elif ext:
                        wrong.append((s_, c, started, 'unexpected prefix copy'))
    ctx.add('E5.unescape-loop', 'ldap_unescape', loc(U.root), not wrong, 'loop body deviates from "feed, push Value bytes, start output at first backslash": %s' % wrong[:5])
    # tail: output started -> Value ? Ok(Owned(from_utf8(output)?)) : Err ; not started -> Ok(input)
    I = absx.Interp(f, U, combinators=True)
    tails = {}
    t = post_loop(U, UE.loop)
    for started in (False, True):
        for s_ in (('Value', 65), ('WantFirst',), ('WantSecond', 3), ('Error',)):
            env = {escb[0]: unesc.state_term(s_)}
            for b, ty in UE.accs:
                env[b] = (('ctor', 'Some', (('param', 'out'),)) if started else ('ctor', 'None', ())) if ty == T_LAZY else ('param', 'out')
            for b in UE.inb:
                env[b] = ('param', 'input')
            res = [o for o in I.ev(t, absx.St(env)) if o.kind in ('val', 'ret')] if t is not None else []
            tails[(started, s_[0])] = [absx.fmt(o.val)[:60] for o in res]
    okt = all(v == ['Ok(input)'] for k, v in tails.items() if not k[0])
    okt = okt and all(v and all(x.startswith('Err(') or x.startswith('tryerr') for x in v) for k, v in tails.items() if k[0] and k[1] != 'Value')
    okt = okt and any(x.startswith('Ok(Cow::Owned(') and 'from_utf8(out)' in x for x in tails[(True, 'Value')])
    ctx.add('E5.unescape-result', 'ldap_unescape', loc(U.root), okt, 'result by (output started, final state): %s' % tails)


def check_tail(ctx, f, E, name):
    """E4: after the loop the collected bytes are what is returned (as an owned string) whenever output was started."""
    B = E.B
    I = absx.Interp(f, B, combinators=True)
    t = post_loop(B, E.loop)
    if t is None or not E.accs or len(E.inb) != 1:
        ctx.fail('E4.tail', name, loc(B.root), 'unexpected function shape (no tail expression / accumulator / working copy of the input)'); return
    env = {E.inb[0]: ('param', 'input')}
    for b, ty in E.accs:
        env[b] = ('ctor', 'Some', (('param', 'out'),)) if ty == T_LAZY else ('param', 'out')
    r1 = [o.val for o in I.ev(t, absx.St(env)) if o.kind in ('val', 'ret')]
    ok = len(r1) == 1 and r1[0][0] == 'ctor' and r1[0][1] == 'Cow::Owned' and absx.leaves(r1[0], lambda x: x == ('param', 'out')) and 'from_utf8' in str(r1[0])
    ctx.add('E4.owned-when-escaped', name, loc(t), ok, 'with escapes the function does not return the collected output')
    if E.lazy:
        env0 = dict(env)
        for b, ty in E.accs:
            if ty == T_LAZY:
                env0[b] = ('ctor', 'None', ())
        r0 = [o.val for o in I.ev(t, absx.St(env0)) if o.kind in ('val', 'ret')]
        ctx.add('E4.unchanged-when-nothing-escaped', name, loc(t), r0 == [('param', 'input')], 'with nothing to escape the function returns %s instead of its input' % [absx.fmt(x) for x in r0])
