"""C07 - BER writer and reader agree; encoding is canonical."""
from facts import walk, callee_of, call_args, loc
import sem, hirq, anchors, absx, thresholds, rope

EXPLANATION = ("B1 identifier octet - decided by exhaustive literal evaluation: the public TLV parser is interpreted on [X, 0x00, 0x5A] for every "
               "identifier octet X with tag number < 31 (whatever it reads the octet with: nom bit parsers through helpers, shifts and masks, a table of "
               "constants - rules/nomlit.py holds the exact models of the nom primitives on literal input) and must answer class X>>6 in X.690's numbering, "
               "primitive / constructed by bit 6, number X & 0x1F and the untouched remainder; the identifier writer is interpreted for every "
               "(class, structure, number <= 30) and must emit the one octet class<<6 | structure<<5 | number (above 30: 0x1F in the low bits first); "
               "the reader gives back the triple the writer wrote; a header cut off before the length octet is answered with Incomplete; "
               "TagClass / TagStructure discriminants equal their from_u8 tables (evaluated for all 256 inputs); B2 length - the writer uses "
               "the short form iff length < 128 (B2m) and the reader iff the first octet < 128: the length reader is interpreted on literal input for each of "
               "the 256 first octets (short form: the octet itself and the input after it; long form: exactly X & 0x7f octets read, the remainder right after them), "
               "on literal length fields of every count 0..9 (and zero-padded ones up to 127 octets) for the value - the big-endian number, whichever code path "
               "computes it for that count -, and on every (first octet, fewer length octets buffered than announced) pair, which must be answered Incomplete; on its "
               "enumerated paths every error is the failure of a primitive, Incomplete under a condition that says octets are missing, or the very refusal the literal "
               "evaluation got for lengths of 2^64 and more - which must be refused, never cut down to their low octets (nothing else is refused for how a "
               "length is written: fields on both sides of each of the reader's own constants are among the literal inputs); only definite forms are emitted; B3 BOOLEAN emits {0xFF} / {0x00}, "
               "NULL emits empty content, every into_structure passes id / class through and keeps the children in order; B4 the TLV "
               "parser returns the slice after the announced length as remainder in both the primitive and the constructed arm, and the "
               "encoder leaves in its output buffer, on every path, what the buffer held before, the identifier octets of (class, structure of the payload, id), "
               "length octets and the content - the payload octets, resp. the encodings of the children in order -, read off the final buffer (a rope of "
               "segments with positions as formal sums of segment lengths, rules/rope.py; a length that is computed by a sizing pass instead of measured - the sum of SZ(child) - is accepted iff SZ(t) = octets appended for t, proved by induction over the tree with the identifier / length octet counts predicted vs written decided on the threshold partition: B4.encoder-sizing), so it does not matter whether the length is written before the content or a "
               "placeholder is patched / replaced / inserted afterwards; the length octets are write_length(L), constants or L's low octet with L formally the content length, "
               "and are evaluated at every change point of the partition induced by the branch conditions on L and by write_length's own against the minimal definite form; B7 the TLV parser's children loop ends only when the content is used up, keeps every child and continues with its remainder, every error path is the failure of one of its primitives or the nesting bound, and what a child is given as its depth is the entry depth plus one (not a value that grows from sibling to sibling); "
               "and, by exact literal evaluation of the public TLV parser on the encodings of small trees (constructed elements with 0..4 children: an empty constructed element of every class alone, nested, "
               "first / middle / last among siblings; a first child that looks like an end-of-contents marker; every length in the minimal and in zero-padded long forms; trailing octets that look like an element), "
               "the answer is Ok((the trailer, the tree an independent decoder written in the rule reads)); B2m the length writer is a function of one integer whose every branch condition is a "
               "comparison of the value shifted right by a constant with a constant (checked); such conditions "
               "can change only at finitely many change points, so the path taken and the octets emitted are decided exactly by "
               "evaluating the function on the literal length at every change point and its neighbours (0..2^64-1) against the minimal definite length form; "
               "B5 the INTEGER / ENUMERATED contents writer is decided as a function, whatever its shape (shift-and-count loop, to_be_bytes with the leading sign octets skipped by take_while / position / "
               "leading_zeros arithmetic, a shift-and-mask loop): it is interpreted exactly on each value of a finite partition of i64 - for every number of significant octets 1..8 under both signs the product of "
               "top octet {00 01 7F 80 FE FF, its own constants} x lower octets {all 00 / FF / 5A, one 00 / FF / 01 / FE at each position}, the boundaries +-2^(8k-1), +-2^(8k) and every power of two with their "
               "neighbours, the change points of its own threshold comparisons and its own constants, 0, +-1, i64::MIN / MAX - and the payload it returns must be the shortest two's-complement octets (X.690 8.3) "
               "computed in the rule; that it tells values apart only by threshold comparisons and by looking at the representation (octets, masks, sign, bit counts), which is what the partition is the "
               "product of, is checked on its symbolic paths (B5.partition-covers-conditions). Not decided: "
               "round-trip equality of whole trees taken whole.")
TRUSTED = ['nom bits/bytes primitives', 'to_be_bytes']
UNDECIDED = ['round-trip equality of arbitrary trees taken whole (its necessary conditions B1-B5 are decided)']
ASSUMPTIONS = []

def hexs(bs):
    return ' '.join('%02x' % x for x in bs) or '(none)'

def check_length_reader(ctx, f):
    """B2 (reader).  What the length reader must do is a function of its input octets that is simple to state: the empty input asks
    for more; a first octet X < 128 is the length itself (short form), the remainder is the input after it; a first octet X >= 128
    announces n = X & 0x7f further octets (long form): with fewer than n buffered the answer is Incomplete (ask for more, never an
    error), otherwise the length is their big-endian value and the remainder is the input after them; every definite length a peer
    can write is accepted, minimal or not.  Decided in two parts, neither of which looks at how the reader is written (nom's take or
    a length test and split_at, `len - 128` or `len & 0x7f`, `?` or match, parse_uint / a fold / from_be_bytes / one match arm per
    octet count for the value):

    (exact literal evaluation)  the reader's typed HIR is interpreted on literal inputs - rules/nomlit.py holds the exact models of
    the nom primitives on literal input, helpers of the workspace are evaluated interprocedurally, slice patterns / split_at / get
    on literal octets are decided by absx - and must yield the one literal answer:
      form-by-first-octet / short-form / long-form - for each of the 256 first octets X, on [X] ++ P ++ trailer with P the n octets
        00 .. 00 n (no octets for X < 128) and the trailer empty resp. 5A A5: Ok((trailer, X)) for X < 128, Ok((trailer, n)) otherwise -
        this decides which form is taken, that exactly n octets are read and that the remainder starts right after them, for every X;
      long-form-value - for every count n = 0..9 of length octets (and zero-padded fields up to 127 octets) on a set of octet strings
        per count (distinct octets, high-bit octets, all-ones, all-zero, leading zeros, a single low / high octet): the value is the
        big-endian number of the n octets - whichever code path computes it for that count;
      shortfall-is-incomplete - for every long-form X and every number k < n of length octets buffered (all 8128 pairs), and for the
        empty input: the answer is Err(Incomplete), not an error (a frame split inside its length field would kill the connection)
        and not a value (a truncated length).
    (paths, symbolic input)  no-extra-rejection - every error path of the reader is the failure of one of its primitives (a nom parser
      applied to input, the shared unsigned reader, the final conversion to usize), or answers Incomplete on a path whose condition
      says that octets are missing (a length bounded from above, an emptiness test that holds, a read that found nothing): nothing
      is refused for what the octets *are* (more than 8 length octets, leading zeros, a non-minimal form)."""
    import nomlit
    RL = hirq.Body(f, f.body('lber::parse::parse_length'))
    ctx.analysed['bodies'].add(RL.path)
    here = loc(RL.root)
    pb = [b for b, d in RL.defs.items() if d['kind'] == 'param' and not d['proj']]
    if len(pb) != 1:
        ctx.fail('anchor-missing', 'input of the length reader', here, 'the length reader must take exactly one parameter (its input octets)')
        return
    inl = lambda c: c.startswith('lber::parse::') or c.startswith('lber::common::') or c.startswith('<lber::')
    def read(octets):
        """('ok', remainder octets, value) | ('err', 'Incomplete' / 'Error' / 'Failure') | ('?', what was found instead)"""
        I = absx.Interp(f, RL, unroll=140, combinators=True, inline=inl, summaries=[nomlit.summary])
        env = I.param_env()
        env[pb[0]] = ('lit', bytes(octets))
        res = [o for o in I.run(env=env) if o.kind in ('val', 'ret', 'div', 'loop')]
        if len(res) != 1 or res[0].kind not in ('val', 'ret'):
            return ('?', 'a panic' if [o.kind for o in res] == ['div'] else 'outcomes: %s' % [o.kind for o in res])
        v = res[0].val
        while v[0] == 'tryerr':
            v = v[1]
        if v[0] == 'ctor' and v[1] == 'Ok' and len(v[2]) == 1 and v[2][0][0] == 'tuple' and len(v[2][0][1]) == 2:
            rest, val = v[2][0][1]
            if rest[0] == 'lit' and isinstance(rest[1], bytes) and val[0] == 'lit' and isinstance(val[1], int) and not isinstance(val[1], bool):
                return ('ok', rest[1], val[1])
        if v[0] == 'ctor' and v[1] == 'Err' and len(v[2]) == 1 and v[2][0][0] == 'ctor' and v[2][0][1].startswith('Err::'):
            shapes_seen[bytes(octets)] = err_shape(v)
            return ('err', v[2][0][1][len('Err::'):])
        return ('?', absx.fmt(v)[:70])
    shapes_seen = {}
    def err_shape(v):
        # what an error answer is made of, without the input it quotes: constructor and callee names, literals that are not octets
        if v[0] in ('ctor', 'struct'):
            return (v[1],) + tuple(err_shape(x if v[0] == 'ctor' else x[1]) for x in v[2])
        if v[0] == 'call':
            return (v[1],) + tuple(err_shape(x) for x in v[2])
        if v[0] == 'tryerr':
            return err_shape(v[1])
        return ('_',)
    def show(r):
        return 'Ok((%s, %d))' % (hexs(r[1][:4]) + (' .. %d more' % (len(r[1]) - 4) if len(r[1]) > 4 else ''), r[2]) if r[0] == 'ok' else 'Err(%s)' % r[1] if r[0] == 'err' else r[1]
    # ---- every first octet: the form, the number of octets read, the remainder
    wrong = {'form-by-first-octet': [], 'short-form': [], 'long-form': []}
    for x in range(256):
        n = x - 128 if x >= 128 else 0
        P = n.to_bytes(n, 'big') if n else b''
        for trailer in (b'', b'\x5a\xa5'):
            inp = bytes([x]) + P + trailer
            got = read(inp)
            want = ('ok', trailer, x if x < 128 else n)
            if got == want:
                continue
            other = ('ok', P + trailer, x) if x >= 128 else None          # (what the short form would answer)
            if x < 128:
                kind = 'short-form' if got[0] == 'ok' and got[1] == trailer else 'form-by-first-octet'
            else:
                kind = 'form-by-first-octet' if got == other else 'long-form'
            wrong[kind].append((x, '%s yields %s, expected %s' % (hexs(inp[:6]) + (' ..' if len(inp) > 6 else ''), show(got), show(want))))
    def xs_of(lst):
        import framelen
        return framelen.classes(x for x, _m in lst)
    w = wrong['form-by-first-octet']
    ctx.add('B2.reader-form-by-first-octet', 'X < 128', here, not w,
            'the short form must be taken exactly when the first octet is < 128 and the long form otherwise (interpreted on literal input for all 256 first octets; wrong for %s): %s' % (xs_of(w), w[0][1] if w else ''))
    w = wrong['short-form']
    ctx.add('B2.reader-short-form', 'len < 128', here, not w,
            'reader short form must yield the first octet itself and the input after it (interpreted for all 128 first octets < 128; wrong for %s): %s' % (xs_of(w), w[0][1] if w else ''))
    w = wrong['long-form']
    ctx.add('B2.reader-long-form', 'X & 0x7f octets', here, not w,
            'reader long form must read exactly (first octet & 0x7f) octets after the first octet, yield their value and the input after them (interpreted on literal input '
            '[X, 00 .. 00 n, trailer] for all 128 first octets >= 128; wrong for %s): %s' % (xs_of(w), w[0][1] if w else ''))
    # ---- the value of the long form
    vecs = []
    for n in range(0, 10):
        vecs += [bytes(range(1, n + 1)), bytes(0x80 + i for i in range(n)), b'\xff' * n, b'\x00' * n]
        if n:
            vecs += [b'\x00' * (n - 1) + b'\x81', b'\x7f' + b'\x00' * (n - 1), b'\x01' + b'\x00' * (n - 2) + b'\x05' if n >= 2 else b'\x05', b'\x00' + bytes(range(0xa1, 0xa0 + n))]
    for n in (10, 11, 12, 16, 33, 64, 65, 127):
        vecs += [b'\x00' * (n - 8) + bytes(range(1, 9)), b'\x00' * (n - 8) + b'\xff' * 8, b'\x00' * (n - 1) + b'\x2a', b'\x00' * (n - 2) + b'\x01\x00']
    # the reader's own constants (whatever it compares a count or a width with) are boundaries of its case analysis: zero-padded and
    # full-width fields of c - 1, c, c + 1 octets for every small integer literal c in its body and in what it inlines
    consts = set()
    for path in [RL.path] + sorted(q for q in f.hir if inl(q) and q != RL.path):
        for n_, c_ in walk(f.hir[path]['body']):
            if n_['k'] == 'Lit' and isinstance(n_.get('v'), int) and not isinstance(n_.get('v'), bool) and 1 <= n_['v'] <= 127:
                consts.add(n_['v'])
    for c in sorted(consts):
        for n in (c - 1, c, c + 1):
            if 1 <= n <= 127:
                vecs += [b'\x00' * (n - 1) + b'\x2a', (b'\x00' * (n - 8) if n > 8 else b'') + b'\x01' + b'\x00' * (min(n, 8) - 1)]
    unfit = [b'\x01' + b'\x00' * 8, b'\xff' * 9, bytes(range(1, 10)), b'\x00\x01' + b'\x00' * 8, b'\x01' + b'\x00' * 11, b'\x80' + b'\x00' * 15, b'\x01' + b'\x00' * 126,
             b'\x01' + b'\x00' * 7 + b'\x02']
    vecs = sorted({v for v in vecs if int.from_bytes(v, 'big') < 2 ** 64}, key=lambda v: (len(v), v))
    bad = []
    for P in vecs:
        for trailer in (b'', b'\x5a'):
            got = read(bytes([0x80 + len(P)]) + P + trailer)
            want = int.from_bytes(P, 'big')
            if got != ('ok', trailer, want):
                bad.append('%d length octets: %s yields %s, big-endian %d' % (len(P), hexs(P) if len(P) <= 12 else hexs(P[:2]) + ' .. ' + hexs(P[-8:]), got[2] if got[0] == 'ok' and got[1] == trailer else show(got), want))
                break
    ctx.add('B2.reader-long-form-value', 'big-endian', here, not bad,
            'the length announced in the long form is the big-endian value of the length octets (interpreted exactly on %d literal length fields of 0..9 octets and zero-padded ones up to 127 octets): '
            '%s - an element of that size is cut short or over-read, and everything after it in the stream is misparsed' % (len(vecs), '; '.join(bad[:3])))
    ctx.floor('B2', 'literal length fields the long-form value was decided on', len(vecs), 80)
    # ---- a length no accumulator holds (more than eight significant octets): refused - never cut down to its low octets, never awaited
    bad, refusal_shapes = [], set()
    for P in unfit:
        inp = bytes([0x80 + len(P)]) + P + b'\x41\x42\x43'
        got = read(inp)
        if got[0] == 'err' and got[1] != 'Incomplete':
            refusal_shapes.add(shapes_seen.get(inp))
        else:
            bad.append('%d length octets %s (2^64 or more) answered %s' % (len(P), hexs(P) if len(P) <= 12 else hexs(P[:2]) + ' .. ' + hexs(P[-2:]), show(got)))
    ctx.add('B2.reader-long-form-value-fits', '>= 2^64', here, not bad,
            'a long-form length whose value no 64-bit accumulator holds must be refused with an error (interpreted exactly on %d literal length fields): %s - the element is delimited '
            'after the low 64 bits of the announced length (or waited for), and everything after it in the stream is misparsed' % (len(unfit), '; '.join(bad[:3])))
    # ---- fewer octets buffered than announced: ask for more
    bad, n_short = [], 0
    for x in range(129, 256):
        n = x - 128
        P = n.to_bytes(n, 'big')
        first = None
        for k in range(n):
            n_short += 1
            got = read(bytes([x]) + P[:k])
            if got != ('err', 'Incomplete') and first is None:
                first = (x, 'first octet %02x with %d of its %d length octets buffered is answered %s' % (x, k, n, show(got)))
        if first is not None:
            bad.append(first)
    got = read(b'')
    if got != ('err', 'Incomplete'):
        bad.insert(0, (0, 'the empty input is answered %s' % show(got)))
    ctx.add('B2.reader-shortfall-is-incomplete', 'k < n octets', here, not bad,
            'a length field that has not arrived completely must be answered with Incomplete (interpreted on literal input for every long-form first octet and every number of '
            'buffered length octets below the announced one, %d inputs, and for the empty input): %s%s - a frame split inside its length octets kills the connection, or is read with a truncated length'
            % (n_short, bad[0][1] if bad else '', (' (and for first octets %s)' % xs_of(bad[1:])) if len(bad) > 1 else ''))
    ctx.floor('B2', 'short length fields evaluated', n_short, 8128)
    # ---- paths: nothing is refused for what the octets are
    routs = [o for o in absx.Interp(f, RL, combinators=True, generic_loops=True).run() if o.kind in ('val', 'ret')]          # (a loop over the length octets: one generic iteration, then on)
    def primitive(v):
        # a nom parser applied to input (directly, or the parser a combinator returned), the shared unsigned reader, a checked integer conversion
        def one(y):
            if y[0] != 'call':
                return False
            if y[1] == '<indirect>':
                return bool(y[2]) and y[2][0][0] == 'call' and y[2][0][1].startswith('nom::')
            return y[1].startswith('nom::') or y[1] == 'lber::parse::parse_uint' or 'TryFrom' in y[1] or y[1].endswith('::try_from') or y[1].endswith('::try_into')
        return sem.has(v, one)
    def says_short(a, t):
        """the atom, with this truth value, says that some slice holds fewer octets than wanted / nothing was found where an octet was looked for"""
        while a[0] == 'not':
            a, t = a[1], not t
        is_len = lambda y: y[0] == 'call' and y[1].rsplit('::', 1)[-1] in ('len', 'input_len', 'remaining')
        if a[0] == 'bin' and len(a) == 4 and a[1] in ('Lt', 'Le', 'Gt', 'Ge', 'Eq'):
            op, l, r = a[1], a[2], a[3]
            if a[1] == 'Eq':
                return t and ((is_len(l) and r == ('lit', 0)) or (is_len(r) and l == ('lit', 0)))
            if sem.has(r, is_len) and not sem.has(l, is_len):
                l, r, op = r, l, {'Lt': 'Gt', 'Gt': 'Lt', 'Le': 'Ge', 'Ge': 'Le'}[op]
            if sem.has(l, is_len) and not sem.has(r, is_len):
                return (op in ('Lt', 'Le')) == t          # the length is bounded from above
            return False
        if a[0] == 'call' and a[1].rsplit('::', 1)[-1] == 'is_empty':
            return t
        if a[0] == 'is' and a[2] == 'Some' and a[1][0] == 'call' and a[1][1].startswith('core::slice::<impl [T]>::') \
                and a[1][1].rsplit('::', 1)[-1] in ('first', 'last', 'get', 'split_first', 'split_last', 'split_at_checked', 'split_first_chunk', 'first_chunk'):
            return not t
        return False
    n_rej = 0
    for o in routs:
        if not sem.is_err_result(o.val):
            continue
        n_rej += 1
        cause = sem.failed(o, primitive)
        if not cause:
            v = o.val
            while v[0] == 'tryerr':
                v = v[1]
            asks = v[0] == 'ctor' and v[1] == 'Err' and v[2] and v[2][0][0] == 'ctor' and v[2][0][1].rsplit('::', 1)[-1] == 'Incomplete'
            cause = asks and any(says_short(sem.strip_site(a), t) for a, t in o.st.pc)
            # an explicit refusal: legitimate for a length that does not fit the accumulator, and for nothing else - accepted when it is
            # the very answer the literal evaluation got for such lengths (and B2.reader-long-form-value shows that every length
            # that does fit, on both sides of each of the reader's own thresholds, is read and not refused)
            cause = cause or (not asks and err_shape(v) in refusal_shapes)
        ctx.add('B2.reader-no-extra-rejection', 'parse_length', here, cause,
                'the length reader rejects its input on a path where none of its primitives (be_u8, take, parse_uint, conversion to usize) failed - or answers a short buffer with an error instead of Incomplete: a valid definite length is refused, or a frame split inside its length octets kills the connection (%s)' %
                ', '.join(('' if t else '!') + absx.fmt(a)[:50] for a, t in o.st.pc[-2:]))
    ctx.floor('B2', 'error paths of the length reader', n_rej, 3)


def check_parse_uint(ctx, f, R):
    """The shared unsigned reader (length octets, message IDs, result codes, page sizes): decided by exact evaluation of its body
    on literal octet strings of every length 0..12 - distinct octets, high-bit octets, all-ones, and zero-padded forms whose value
    still fits 64 bits - against the big-endian value.  Nothing of the library is executed: the typed HIR is interpreted."""
    B = hirq.Body(f, f.body('lber::parse::parse_uint'))
    ctx.analysed['bodies'].add(B.path)
    pb = [b for b, d in B.defs.items() if d['kind'] == 'param']
    vecs = []
    for n in range(0, 9):
        vecs += [bytes(range(1, n + 1)), bytes(0x80 + i for i in range(n)), b'\xff' * n, b'\x00' * n]
        if n:
            vecs += [b'\x00' * (n - 1) + b'\x81', b'\x7f' + b'\x00' * (n - 1)]
    for pad in range(1, 5):
        vecs += [b'\x00' * pad + bytes(range(1, 9)), b'\x00' * pad + b'\xff' * 8, b'\x00' * (pad + 7) + b'\x2a', b'\x00' * pad + b'\x01\x00']
    wrong = []
    for v in sorted(set(vecs), key=lambda x: (len(x), x)):
        I = absx.Interp(f, B, unroll=16, combinators=True)
        env = I.param_env()
        env[pb[0]] = ('lit', v)
        res = [o for o in I.run(env=env) if o.kind in ('val', 'ret', 'div')]
        want = int.from_bytes(v, 'big')
        got = None
        if len(res) == 1 and res[0].kind != 'div' and res[0].val[0] == 'ctor' and res[0].val[1] == 'Ok' and res[0].val[2][0][0] == 'tuple':
            got = res[0].val[2][0][1][1]
        if got != ('lit', want):
            wrong.append((v.hex() or '(empty)', absx.fmt(got)[:40] if got else [o.kind for o in res], want))
    ctx.add(R + '.unsigned-reader-big-endian', 'parse_uint', loc(B.root), not wrong,
            'evaluated exactly on %d literal octet strings (lengths 0..12): (octets, decoded, big-endian value) differ at %s' % (len(set(vecs)), wrong[:4]))


def tlv_body(f):
    for p in sorted(q for q in f.hir if q.startswith('lber::parse::parse_tag')):
        if any(n['k'] == 'Match' and 'TagStructure' in (n['scrut'].get('ty') or '') for n, c in walk(f.hir[p]['body'])):
            return p
    return None

def says_empty(atom, truth, lengths=(), subject=None):
    """The atom, with this truth value, says that a slice / cursor has no octets left (or that an announced length - one of the
    terms in `lengths` - is zero).  `subject` restricts what the slice may be (the content of the element, not, say, the input that
    happens to be buffered after the header)."""
    def is_len(t):
        if t in lengths:
            return True
        return t[0] == 'call' and t[1].rsplit('::', 1)[-1] in ('input_len', 'len', 'remaining') and t[2] and (subject is None or subject(t[2][0]))
    if atom[0] == 'bin' and len(atom) == 4:
        op, a, b = atom[1], atom[2], atom[3]
        if is_len(b) and a == ('lit', 0):
            a, b, op = b, a, {'Gt': 'Lt', 'Lt': 'Gt', 'Ge': 'Le', 'Le': 'Ge'}.get(op, op)
        if is_len(a) and b == ('lit', 0):
            return (op in ('Gt', 'Ne') and truth is False) or (op in ('Eq', 'Le') and truth is True)
        if is_len(a) and b == ('lit', 1):
            return (op == 'Ge' and truth is False) or (op == 'Lt' and truth is True)
    if atom[0] == 'call' and atom[1].rsplit('::', 1)[-1] == 'is_empty' and atom[2] and (subject is None or subject(atom[2][0])):
        return truth is True
    if atom[0] == 'not':
        return says_empty(atom[1], not truth, lengths, subject)
    return False

def content_cursor(t):
    """the content of a constructed element: (derived from) what `take(announced length)` yielded, or the loop-carried cursor over it"""
    return t[0] == 'carried' or sem.has(t, lambda x: x[0] == 'call' and x[1] == 'nom::bytes::streaming::take') or sem.has(t, lambda x: x[0] == 'carried')

def check_tlv_parser(ctx, f, R):
    """The TLV parser (the function that matches on the primitive / constructed bit), on its enumerated paths with the children loop
    evaluated as one generic iteration:
    children-until-content-exhausted - a constructed element is complete only when its content has no octets left: every success
      path of the constructed arm has left the children loop because the content cursor was empty (never for another reason);
    child-kept / cursor-advances - one iteration parses one child from the cursor, appends exactly that child and continues with
      exactly its remainder;
    no-extra-rejection - every error path is the failure of one of the parser's own primitives (header, length, take, the recursive
      call) or the nesting bound; in particular nothing is rejected (instead of asking for more input) for being short."""
    body = tlv_body(f)
    if body is None:
        ctx.fail('anchor-missing', 'TLV parser body', '', 'no function matching on TagStructure')
        return
    B = hirq.Body(f, f.hir[body])
    ctx.analysed['bodies'].add(body)
    outs = absx.Interp(f, B, unroll=1, result_combinators=True, generic_loops=True).run()
    params = [d for b, d in B.defs.items() if d['kind'] == 'param']
    rec = lambda t: t[0] == 'call' and t[1] == body
    # the depth parameter by role: the one unsigned integer parameter of the parser (what it is called and how the step is spelled -
    # `depth + 1` at the call, a `let`, `depth += 1` on the mutable parameter - does not matter: the term is the value at entry)
    ints = [d for b, d in B.defs.items() if d['kind'] == 'param' and not d['proj'] and (d['pat'].get('ty') or '') in ('usize', 'u8', 'u16', 'u32', 'u64')]
    depth = {('param', d['name']) for d in ints} if len(ints) == 1 else set()
    # nesting-bound-counts-nesting - what a recursive call receives in the depth position is the entry depth, stepped by one at most:
    # then the bound limits how deep elements nest, and an element nested less deeply than the bound is never refused for its depth.
    # A value that grows from one child to the next (carried around the children loop) or steps by more makes the bound count
    # something else - siblings, octets - and flat, well-formed elements are refused.
    for o in outs:
        for e in o.st.ev:
            if e[0] == 'call' and e[1] == body and ints and ints[0]['idx'] < len(e[2]):
                a = sem.strip_site(e[2][ints[0]['idx']])
                D = ('param', ints[0]['name'])
                okd = a == D or a == ('bin', 'Add', D, ('lit', 1))
                ctx.add(R + '.nesting-bound-counts-nesting', 'recursive call|%s' % absx.fmt(a)[:40], loc(e[3]), okd,
                        ('the depth passed to a child depends on its position among its siblings (%s is carried from one iteration of the children loop to the next)' % absx.fmt(a)[:50]
                         if sem.has(a, lambda x: x[0] == 'carried') else 'the depth passed to a child is %s, not the entry depth plus one' % absx.fmt(a)[:50]) +
                        ': the nesting bound then refuses well-formed elements that are not deeply nested at all (many children, many values)')
    def bound_exceeded(o):
        for a, t in o.st.pc:
            if a[0] == 'bin' and len(a) == 4:
                op, x, y = a[1], a[2], a[3]
                if y in depth and x[0] in ('lit', 'const'):
                    x, y, op = y, x, {'Gt': 'Lt', 'Lt': 'Gt', 'Ge': 'Le', 'Le': 'Ge'}.get(op, op)
                if x in depth and y[0] in ('lit', 'const'):
                    if (op in ('Gt', 'Ge') and t) or (op in ('Lt', 'Le') and not t):
                        return True
        return False
    # the announced length: what the parser hands to `take` on the paths that take the content
    announced = {sem.strip_site(e[2][0]) for o in outs for e in o.st.ev if e[0] == 'call' and e[1] == 'nom::bytes::streaming::take' and e[2]}
    n_ok = n_err = n_it = 0
    for o in outs:
        prim = sem.variant_truth(o.st.pc, lambda v: True, 'TagStructure::Primitive', ['TagStructure::Primitive', 'TagStructure::Constructed'])
        if o.kind in ('val', 'ret') and o.val[0] == 'ctor' and o.val[1] == 'Ok':
            if prim is False:
                n_ok += 1
                ok = any(says_empty(sem.strip_site(a), t, announced, content_cursor) for a, t in o.st.pc)
                ctx.add(R + '.children-until-content-exhausted', 'constructed|%d conditions' % len(o.st.pc), loc(B.root), ok,
                        'a constructed element is returned on a path that did not leave the children loop because the content was used up (%s): '
                        'the rest of its content - one or more child elements - is silently dropped' % ', '.join(('' if t else '!') + absx.fmt(a)[:60] for a, t in o.st.pc[-2:]))
        elif o.kind == 'loop':
            n_it += 1
            rcalls = [e for e in o.st.ev if e[0] == 'call' and e[1] == body]
            pushes = [e for e in o.st.ev if e[0] == 'call' and e[1].rsplit('::', 1)[-1] == 'push']
            okp = okc = False
            if len(rcalls) == 1:
                r = ('call', body, rcalls[0][2], rcalls[0][3].get('id'))
                child, rest = ('field', ('variant', r, 'Ok', 0), '1'), ('field', ('variant', r, 'Ok', 0), '0')
                okp = len(pushes) == 1 and pushes[0][2][1] == child
                cur = rcalls[0][2][0]
                # the cursor: the loop-carried local the recursive call read from; at the back edge it holds the call's remainder
                carried = [e for e in o.st.ev if e[0] == 'loop-carried' and e[2] == cur]
                okc = bool(carried) and o.st.env.get(carried[0][1]) == rest
            ctx.add(R + '.child-kept', 'iteration', loc(B.root), okp, 'one iteration of the children loop does not append exactly the child it parsed (children lost, duplicated or replaced)')
            ctx.add(R + '.cursor-advances-to-remainder', 'iteration', loc(B.root), okc, 'after one iteration the content cursor is not the remainder returned by the child\'s parse')
        elif o.kind in ('ret', 'val') and sem.is_err_result(o.val):
            n_err += 1
            caused = sem.failed(o, lambda v: v[0] == 'call') or bound_exceeded(o)
            ctx.add(R + '.no-extra-rejection', 'error path|%s' % (absx.fmt(o.val)[:40]), loc(B.root), caused,
                    'the TLV parser rejects its input on a path where none of its primitives failed and the nesting bound was not exceeded (%s): '
                    'well-formed input is refused - or, at the top level, a short read becomes a decoding error instead of a request for more input' %
                    ', '.join(('' if t else '!') + absx.fmt(a)[:60] for a, t in o.st.pc[-2:]))
    ctx.floor(R, 'success paths of the constructed arm', n_ok, 1)
    ctx.floor(R, 'generic iterations of the children loop', n_it, 1)
    ctx.floor(R, 'error paths of the TLV parser', n_err, 4)

# ---------------------------------------------------------------------------------------------------- B7 on literal input
# An independent BER decoder / encoder for definite lengths and tag numbers below 31 (X.690 8.1), used to state what the TLV parser
# must answer on literal input.  A tree is (class 0..3, number, bytes) for a primitive and (class, number, [children]) for a
# constructed element.

def ber_ref_decode(b):
    """(tree, rest) of the one element at the head of b, which must be there completely (ValueError otherwise)"""
    if len(b) < 2 or b[0] & 0x1f == 0x1f:
        raise ValueError('header')
    cls, cons, num = b[0] >> 6, (b[0] >> 5) & 1, b[0] & 0x1f
    ln, p = b[1], 2
    if ln >= 0x80:
        n = ln & 0x7f
        if n == 0 or len(b) < 2 + n:
            raise ValueError('length')
        ln, p = int.from_bytes(b[2:2 + n], 'big'), 2 + n
    if len(b) < p + ln:
        raise ValueError('content')
    content, rest = b[p:p + ln], b[p + ln:]
    if not cons:
        return (cls, num, bytes(content)), rest
    children = []
    while content:
        t, content = ber_ref_decode(content)
        children.append(t)
    return (cls, num, children), rest

def ber_ref_encode(t, form):
    """the encoding of a tree with every length written in `form`: 'min' (the minimal definite form) or a number n of length
    octets for the long form 0x80|n, zero-padded (non-minimal, but valid BER)"""
    cls, num, pl = t
    content = bytes(pl) if isinstance(pl, bytes) else b''.join(ber_ref_encode(c, form) for c in pl)
    L = len(content)
    if form == 'min':
        lo = bytes([L]) if L < 128 else (lambda x: bytes([0x80 | len(x)]) + x)(L.to_bytes((L.bit_length() + 7) // 8, 'big'))
    else:
        lo = bytes([0x80 | form]) + L.to_bytes(form, 'big')
    return bytes([cls << 6 | (0 if isinstance(pl, bytes) else 0x20) | num]) + lo + content

def show_tree(t):
    cls, num, pl = t
    head = '%s%d' % ('UACP'[cls], num)
    return head + (':' + (pl.hex() or "''") if isinstance(pl, bytes) else '{' + ', '.join(show_tree(c) for c in pl) + '}')

def has_empty_constructed(t):
    return not isinstance(t[2], bytes) and (not t[2] or any(has_empty_constructed(c) for c in t[2]))

def check_tlv_literal(ctx, f, R):
    """"Every valid definite-length BER input, including non-minimal length octets, parses to the tree an independent decoder
    produces", and trailing bytes are left untouched - decided for the elements whose shape the children loop can get wrong, by
    exact literal evaluation: the public TLV parser `parse_tag` is interpreted (nom primitives on literal input: rules/nomlit.py;
    helpers of the workspace inlined; loops run as often as their literal conditions say) on the encodings of small trees whose
    constructed elements have 0, 1, 2, 3 and 4 children -
      empty content: an empty constructed element of each class alone, nested in one another, and as first / middle / last / every
        child among primitive siblings;
      children: one to four primitive children (empty and non-empty payloads, a first child `00 00` that looks like an
        end-of-contents marker, a child whose length needs the long form), constructed children with children of their own before and
        after a sibling;
    each with every length in the minimal form and in the zero-padded long forms 81 nn / 82 00 nn / 84 00 00 00 nn, the minimal
    encoding also followed by `5A A5` and by `30 00` (octets that themselves look like an element).  The one outcome must be Ok((the trailer, the tree
    the reference decoder below reads)).  However the loop is written - test at the top, at the bottom, a cursor, recursion - an
    element it drops, duplicates or refuses shows as a different answer."""
    import nomlit
    P = hirq.Body(f, f.body('lber::parse::parse_tag'))
    ctx.analysed['bodies'].add(P.path)
    here = loc(P.root)
    pb = [b for b, d in P.defs.items() if d['kind'] == 'param' and not d['proj']]
    if len(pb) != 1:
        ctx.fail('anchor-missing', 'input of the TLV parser', here, 'parse_tag must take exactly one parameter (its input octets)')
        return
    inl = lambda c: c.startswith('lber::parse::') or c.startswith('lber::common::') or c.startswith('<lber::')
    CLS = {'TagClass::' + n: i for i, n in enumerate(X690_CLASS)}
    def tree_of(t):
        if t[0] != 'struct':
            return None
        fl = dict(t[2])
        cls, num, pl = fl.get('class', ('unk',)), fl.get('id', ('unk',)), fl.get('payload', ('unk',))
        if not (cls[0] == 'ctor' and cls[1] in CLS and num[0] == 'lit' and isinstance(num[1], int) and pl[0] == 'ctor' and len(pl[2]) == 1):
            return None
        if pl[1] == 'PL::P':
            o = known_octets(pl[2][0])
            return (CLS[cls[1]], num[1], bytes(o)) if o is not None else None
        if pl[1] == 'PL::C' and pl[2][0][0] in ('vec', 'array'):
            cs = [tree_of(c) for c in pl[2][0][1]]
            return (CLS[cls[1]], num[1], cs) if None not in cs else None
        return None
    def read(octets):
        """('ok', rest, tree) | ('other', description)"""
        I = absx.Interp(f, P, unroll=12, combinators=True, inline=inl, summaries=[nomlit.summary])
        env = I.param_env()
        env[pb[0]] = ('lit', bytes(octets))
        res = [o for o in I.run(env=env) if o.kind in ('val', 'ret', 'div', 'loop')]
        if len(res) != 1 or res[0].kind not in ('val', 'ret'):
            return ('other', 'a panic' if [o.kind for o in res] == ['div'] else '%d outcomes (%s)' % (len(res), ', '.join(o.kind for o in res)))
        r = nomlit.result_of(res[0].val)
        if r is not None and r[0] == 'ok' and r[1][0] == 'lit' and isinstance(r[1][1], bytes):
            t = tree_of(r[2])
            if t is not None:
                return ('ok', r[1][1], t)
        if r is not None and r[0] == 'err':
            return ('other', 'Err(%s)' % r[1][len('Err::'):])
        return ('other', absx.fmt(res[0].val)[:70])
    U, A, C, PV = 0, 1, 2, 3
    E = (U, 16, [])
    p1, p0, pz, pc = (U, 2, b'\x05'), (U, 4, b''), (U, 0, b''), (C, 7, b'\x01\x02\x03')
    trees = [E, (C, 0, []), (U, 17, []), (A, 3, []), (PV, 30, []),
             (U, 16, [E]), (U, 16, [(C, 0, [E])]), (C, 3, [(U, 16, [(U, 17, [])]), (C, 0, [])]),
             (U, 16, [E, p1]), (U, 16, [p1, E]), (U, 16, [E, E]), (A, 4, [p1, E, pc]), (U, 16, [E, p1, pc]), (U, 16, [p1, pc, E]), (U, 16, [E, E, E]),
             (U, 16, [(C, 0, []), (U, 17, [])]), (U, 16, [(U, 16, [p1, E]), p0]), (U, 16, [p0, (U, 16, [E, p1])]),
             (U, 16, [p1]), (U, 16, [p0]), (C, 0, [pc]), (U, 16, [pz, p1]), (U, 16, [p1, pc]), (U, 17, [p1, p0, pc]), (U, 16, [p1, p1, p1, p1]),
             (U, 16, [(U, 16, [p1]), pc]), (U, 16, [pc, (U, 16, [p1, p0])]), (A, 4, [(U, 16, [(U, 16, [p1]), p0]), pc]),
             (U, 16, [(U, 4, bytes(range(130))), p1]), (U, 16, [(U, 4, b'\x00\x00\x30\x00')])]
    forms = ('min', 1, 2, 4)
    trailers = (b'', b'\x5a\xa5', b'\x30\x00')
    got = {}
    for ti, t in enumerate(trees):
        for fm in forms:
            enc = ber_ref_encode(t, fm)
            assert ber_ref_decode(enc) == (t, b'')          # (the reference decoder and encoder are inverses on the trees used here)
            for tr in (trailers if fm == 'min' else trailers[:1]):
                got[(ti, fm, tr)] = (read(enc + tr), enc + tr)
    bad = {'empty': [], 'children': [], 'length': [], 'trailer': [], 'identifier': []}
    def shape(t):
        return bytes(t[2]) if isinstance(t[2], bytes) else [shape(c) for c in t[2]]
    for (ti, fm, tr), (g, inp) in sorted(got.items(), key=lambda kv: (kv[0][0], str(kv[0][1]), kv[0][2])):
        t = trees[ti]
        if g == ('ok', tr, t):
            continue
        if got[(ti, 'min', b'')][0] != ('ok', b'', t):
            g0 = got[(ti, 'min', b'')][0]
            # (the right nesting and payloads under a wrong class / number: the identifier octet is misread - B1's matter -, not the children loop)
            kind = 'identifier' if g0[0] == 'ok' and g0[1] == b'' and shape(g0[2]) == shape(t) else 'empty' if has_empty_constructed(t) else 'children'
            if (fm, tr) != ('min', b''):
                continue          # (reported once, on the plain encoding)
        else:
            kind = 'length' if fm != 'min' else 'trailer'
        answer = ('Ok((rest %s, %s))' % (hexs(g[1]), show_tree(g[2]))) if g[0] == 'ok' else g[1]
        bad[kind].append('`%s` is answered %s, an independent decoder reads Ok((rest %s, %s))' % (hexs(inp) if len(inp) <= 24 else hexs(inp[:20]) + ' ..', answer, hexs(tr), show_tree(t)))
    n = len(got)
    w = bad['empty']
    ctx.add(R + '.empty-constructed-element-parses', 'constructed, no content octets', here, not w,
            'a constructed element with no content octets (`30 00`: a SEQUENCE OF with no members, an entry without attributes, an empty list of controls or referrals) is valid '
            'definite-length BER and parses to an element without children, wherever it stands - alone, nested, first / middle / last among its siblings '
            '(the public TLV parser interpreted exactly on %d literal encodings; wrong on %d trees with an empty constructed element): %s' % (n, len(w), '; '.join(w[:3])))
    w = bad['children']
    ctx.add(R + '.valid-input-parses-to-reference-tree', 'children', here, not w,
            'every valid definite-length input parses to the tree an independent decoder produces (the public TLV parser interpreted exactly on %d literal encodings of constructed '
            'elements with 1..4 children; wrong on %d trees): %s' % (n, len(w), '; '.join(w[:3])))
    w = bad['identifier']
    ctx.add(R + '.valid-input-parses-to-reference-tree', 'class and number', here, not w,
            'every element of the tree carries the class and tag number of its identifier octet (interpreted exactly on %d literal encodings; nesting and payloads right, class or number '
            'wrong on %d trees): %s' % (n, len(w), '; '.join(w[:3])))
    w = bad['length']
    ctx.add(R + '.valid-input-parses-to-reference-tree', 'non-minimal length octets', here, not w,
            'a valid definite-length input whose lengths are written in a zero-padded long form (81 nn, 82 00 nn, 84 00 00 00 nn) parses to the same tree as its minimal encoding '
            '(interpreted exactly on %d literal encodings; wrong on %d that are right in the minimal form): %s' % (n, len(w), '; '.join(w[:3])))
    w = bad['trailer']
    ctx.add(R + '.valid-input-parses-to-reference-tree', 'trailing bytes untouched', here, not w,
            'the octets after the element are handed back untouched and do not change the tree (interpreted exactly on %d literal encodings followed by nothing, `5A A5` and `30 00`; '
            'wrong on %d that are right without the trailer): %s' % (n, len(w), '; '.join(w[:3])))
    ctx.floor(R, 'literal encodings the TLV parser was interpreted on', n, 180)

X690_CLASS = ('Universal', 'Application', 'Context', 'Private')          # X.690 8.1.2.2: bits 8-7 of the identifier octet
X690_STRUCTURE = ('Primitive', 'Constructed')                             # X.690 8.1.2.5: bit 6

def octet_ranges(xs, domain):
    """`0xE0..0xFE, 0x41` - the octets xs written as runs that are consecutive within the evaluated domain"""
    pos = {x: i for i, x in enumerate(domain)}
    runs = []
    for x in sorted(xs):
        if runs and pos[x] == pos[runs[-1][1]] + 1:
            runs[-1][1] = x
        else:
            runs.append([x, x])
    return ', '.join('0x%02X' % a if a == b else '0x%02X..0x%02X' % (a, b) for a, b in runs)

def check_identifier_octet(ctx, f):
    """B1, decided by exhaustive literal evaluation - no bit parser, helper, shift, mask or table is looked for by name or shape.
    Reader: the public TLV parser `parse_tag` is interpreted on the literal input `[X, 0x00, 0x5A]` for every identifier octet X
    whose tag number is below 31 (31 announces the high-tag-number form, outside the property); whatever the reader is built from
    (nom bit parsers through helpers, a byte read with shifts and masks, a table of constants), the one outcome must be
    Ok((rest = [0x5A], element)) with class = X >> 6 in X.690's numbering, tag number = X & 0x1F, and a primitive resp. constructed
    (empty) payload according to bit 6.  Writer: `write_type` is interpreted for every triple (class, structure, number 0..30) and must
    emit the single octet class << 6 | structure << 5 | number (for numbers above 30: a first octet with 0x1F in the low bits).
    Agreement: the reader's answer for the octet the writer emits for a triple is that triple."""
    import nomlit
    P = hirq.Body(f, f.body('lber::parse::parse_tag'))
    ctx.analysed['bodies'].add(P.path)
    pb = [b for b, d in P.defs.items() if d['kind'] == 'param']
    inl = lambda c: c.startswith('lber::parse::') or c.startswith('lber::common::') or c.startswith('<lber::')
    def read(octets):
        I = absx.Interp(f, P, unroll=4, combinators=True, inline=inl, summaries=[nomlit.summary])
        env = I.param_env()
        env[pb[0]] = ('lit', bytes(octets))
        return [o for o in I.run(env=env) if o.kind in ('val', 'ret', 'div', 'loop')]
    domain = [x for x in range(256) if x & 0x1f != 0x1f]
    decoded, unread = {}, {}
    for x in domain:
        res = read([x, 0x00, 0x5A])
        v = res[0].val if len(res) == 1 and res[0].kind in ('val', 'ret') else None
        got = None
        if v is not None and v[0] == 'ctor' and v[1] == 'Ok' and len(v[2]) == 1 and v[2][0][0] == 'tuple' and len(v[2][0][1]) == 2 and v[2][0][1][1][0] == 'struct':
            rest, st = v[2][0][1]
            fl = dict(st[2])
            cls, num, pl = fl.get('class', ('unk',)), fl.get('id', ('unk',)), fl.get('payload', ('unk',))
            if cls[0] == 'ctor' and not cls[2] and cls[1].startswith('TagClass::') and num[0] == 'lit' and isinstance(num[1], int) \
                    and pl[0] == 'ctor' and pl[1] in ('PL::P', 'PL::C') and len(pl[2]) == 1 and pl[2][0] in (('lit', b''), ('vec', ())):
                got = (cls[1].split('::')[-1], 'Primitive' if pl[1] == 'PL::P' else 'Constructed', num[1], rest)
        if got is None:
            unread[x] = ('%d outcomes' % len(res)) if len(res) != 1 else absx.fmt(res[0].val)[:80] if res[0].kind in ('val', 'ret') else res[0].kind
        else:
            decoded[x] = got
    here = loc(P.root)
    ctx.add('B1.reader-identifier-octet', 'decoded', here, not unread,
            'interpreted on [X, 0x00, 0x5A] for all %d identifier octets X with tag number < 31: for octets %s the TLV parser does not answer with one literal Ok((rest, element)) (%s)'
            % (len(domain), octet_ranges(unread, domain), list(unread.values())[:1]))
    def facet(inst, idx, want, what, fmtv=str):
        by = {}
        for x, g in decoded.items():
            if g[idx] != want(x):
                by.setdefault((g[idx], want(x)), []).append(x)
        msg = '; '.join('octets %s decode as %s %s (X.690: %s)' % (octet_ranges(xs, domain), what, fmtv(g), fmtv(w)) for (g, w), xs in sorted(by.items(), key=lambda kv: kv[1][0]))
        ctx.add('B1.reader-identifier-octet', inst, here, not by, 'interpreted for all %d identifier octets with tag number < 31: %s' % (len(domain), msg))
    facet('class', 0, lambda x: X690_CLASS[x >> 6], 'class')
    facet('structure', 1, lambda x: X690_STRUCTURE[(x >> 5) & 1], 'structure')
    facet('number', 2, lambda x: x & 0x1f, 'tag number')
    facet('remainder', 3, lambda x: ('lit', b'\x5a'), 'remainder', lambda t: absx.fmt(t))
    ctx.floor('B1', 'identifier octets decoded by literal evaluation', len(decoded) + len(unread), 248)
    # a header that has not arrived completely is a request for more input, never an answer: nothing, and the identifier octet alone
    short = []
    for octets in ([], [0x30], [0x04], [0xA3]):
        res = read(octets)
        v = res[0].val if len(res) == 1 and res[0].kind in ('val', 'ret') else None
        while v is not None and v[0] == 'tryerr':          # the failure of a `?` (possibly handed up through several inlined callees) is that Err value
            v = v[1]
        if not (v is not None and v[0] == 'ctor' and v[1] == 'Err' and v[2] and v[2][0][0] == 'ctor' and v[2][0][1] == 'Err::Incomplete'):
            short.append((bytes(octets).hex() or '(empty)', absx.fmt(v)[:60] if v is not None else [o.kind for o in res]))
    ctx.add('B1.reader-short-input-asks-for-more', 'parse_tag', here, not short,
            'interpreted on literal inputs that end before the length octet: the TLV parser must answer Incomplete, found (input, answer) %s' % short[:3])

    # ---- writer: every (class, structure, number) triple
    W = hirq.Body(f, f.body('lber::write::write_type'))
    ctx.analysed['bodies'].add(W.path)
    def param_of(ty):
        c = [b for b, d in W.defs.items() if d['kind'] == 'param' and not d['proj'] and hirq.strip_refs((d.get('pat') or {}).get('ty') or '') == ty]
        return c[0] if len(c) == 1 else None
    pc_, ps_, pn_ = param_of('lber::common::TagClass'), param_of('lber::common::TagStructure'), param_of('u64')
    sinks = [('param', d['name']) for b, d in W.defs.items() if d['kind'] == 'param' and not d['proj'] and b not in (pc_, ps_, pn_)]
    if None in (pc_, ps_, pn_) or len(sinks) != 1:
        ctx.fail('anchor-missing', 'identifier writer parameters', loc(W.root), 'the identifier writer must take one sink, one TagClass, one TagStructure and one u64 tag number')
        return
    def emitted(c, s, n):
        """per outcome: the octets the writer hands to its sink (the one parameter that is not part of the triple), in order (None for
        an octet that is not a literal)"""
        I = absx.Interp(f, W, unroll=12, combinators=True)
        env = I.param_env()
        env[pc_], env[ps_], env[pn_] = ('ctor', 'TagClass::' + X690_CLASS[c], ()), ('ctor', 'TagStructure::' + X690_STRUCTURE[s], ()), ('lit', n)
        res = []
        for o in I.run(env=env):
            if o.kind not in ('val', 'ret', 'div', 'loop'):
                continue
            got = []
            for e in o.st.ev:
                if e[0] == 'call' and e[1].rsplit('::', 1)[-1] in ('write', 'write_all', 'push', 'extend_from_slice') and len(e[2]) == 2 and e[2][0] == sinks[0]:
                    a = e[2][1]
                    if a[0] == 'array':
                        got += [x[1] & 0xff if x[0] == 'lit' and isinstance(x[1], int) else None for x in a[1]]
                    elif a[0] == 'lit' and isinstance(a[1], bytes):
                        got += list(a[1])
                    elif a[0] == 'lit' and isinstance(a[1], int) and not isinstance(a[1], bool):
                        got.append(a[1] & 0xff)
                    else:
                        got.append(None)
            res.append((o.kind, got))
        return res
    wrong, disagree, n_tr = [], [], 0
    for c in range(4):
        for s in range(2):
            for n in range(31):
                n_tr += 1
                want = c << 6 | s << 5 | n
                res = emitted(c, s, n)
                if len(res) != 1 or res[0][0] == 'div' or res[0][1] != [want]:
                    wrong.append(((X690_CLASS[c], X690_STRUCTURE[s], n), [[hex(x) if x is not None else '?' for x in g] for k, g in res][:2], hex(want)))
                elif decoded.get(want, (None,) * 4)[:3] != (X690_CLASS[c], X690_STRUCTURE[s], n) and want in decoded:
                    disagree.append(((X690_CLASS[c], X690_STRUCTURE[s], n), hex(want), decoded[want][:3]))
    ctx.add('B1.writer-low-tags', 'id <= 30', loc(W.root), not wrong,
            'interpreted for all %d triples (class, structure, number 0..30): the identifier octet is not class<<6 | structure<<5 | number at (triple, emitted, expected) %s' % (n_tr, wrong[:3]))
    ctx.add('B1.table-agreement', 'writer vs reader', loc(W.root), not disagree,
            'for all %d triples (class, structure, number 0..30): the reader does not give back the triple the writer encoded at (triple, octet, read back) %s' % (n_tr, disagree[:3]))
    ctx.floor('B1', 'triples (class, structure, number) the writer was interpreted for', n_tr, 248)
    wrong = []
    for c in range(4):
        for s in range(2):
            for n in (31, 127, 128, 16383, 16384, 2 ** 32):
                want = c << 6 | s << 5 | 0x1f
                res = emitted(c, s, n)
                if not res or any(k == 'div' or not g or g[0] != want or len(g) < 2 for k, g in res):
                    wrong.append(((X690_CLASS[c], X690_STRUCTURE[s], n), [[hex(x) if x is not None else '?' for x in g[:2]] for k, g in res][:2], hex(want)))
    ctx.add('B1.writer-high-tags', 'id > 30', loc(W.root), not wrong,
            'identifier octet for ids > 30 does not use the 0x1F escape followed by the number (triple, first octets, expected first octet): %s' % wrong[:3])

def shortest_twos_complement(v):
    """X.690 8.3: the contents octets of INTEGER v - two's complement, big-endian, and as few octets as hold the value (the first
    nine bits are neither all zero nor all one)"""
    n = 1
    while not (-(1 << (8 * n - 1)) <= v < (1 << (8 * n - 1))):
        n += 1
    return list(v.to_bytes(n, 'big', signed=True))

def known_octets(t):
    """the octets a term of the interpreter stands for when every one of them is known (a literal byte string, a vector / array of
    literal octets, one appended to the other, an owned copy of such), else None"""
    if t[0] == 'lit' and isinstance(t[1], bytes):
        return list(t[1])
    if t[0] in ('vec', 'array'):
        if all(x[0] == 'lit' and isinstance(x[1], int) and not isinstance(x[1], bool) and 0 <= x[1] <= 255 for x in t[1]):
            return [x[1] for x in t[1]]
        return None
    if t[0] == 'concat':
        a, b = known_octets(t[1]), known_octets(t[2])
        return a + b if a is not None and b is not None else None
    if t[0] == 'call' and t[1].rsplit('::', 1)[-1] in ('to_vec', 'to_owned', 'into_vec', 'into', 'from', 'clone', 'collect', 'into_boxed_slice') and len(t[2]) == 1:
        return known_octets(t[2][0])
    return None

REPR_CALLS = ('to_be_bytes', 'to_le_bytes', 'to_ne_bytes', 'leading_zeros', 'leading_ones', 'trailing_zeros', 'trailing_ones', 'count_ones', 'count_zeros',
              'ilog2', 'checked_ilog2', 'unsigned_abs', 'is_negative', 'is_positive', 'signum')

def through_representation(t, var):
    """Every occurrence of the integer variable in the term t is inside (i) a comparison of the variable - complemented, negated,
    converted, shifted by a constant, masked with a constant - with a constant, (ii) such a shifted / masked form itself (an
    octet or a bit field of the representation), or (iii) a call of one of core's functions that hand out the two's-complement
    representation (its octets, its sign, counts of its leading / trailing / set bits) on the variable in such a form.  What such a term can tell about the value is what the octets, the sign and
    the bit counts tell."""
    def plain(x):
        while True:
            if x == var:
                return True
            if x[0] in ('cast', 'bitnot', 'neg'):
                x = x[1]; continue
            if x[0] == 'bin' and x[1] in ('Shr', 'Shl', 'BitAnd', 'BitOr', 'BitXor') and x[3][0] == 'lit':
                x = x[2]; continue          # (a shift by a constant, a mask: bits of the representation)
            if x[0] == 'bin' and x[1] in ('BitAnd', 'BitOr', 'BitXor') and x[2][0] == 'lit':
                x = x[3]; continue
            return False
    def rec(x):
        if not isinstance(x, tuple) or not x or not thresholds.mentions(x, var):
            return True
        if x == var:
            return False
        if x[0] == 'bin' and x[1] in thresholds.CMP and thresholds.atom_ok(x, var):
            return True
        if x[0] == 'bin' and x[1] in thresholds.CMP and ((plain(x[2]) and x[3][0] == 'lit') or (plain(x[3]) and x[2][0] == 'lit')):
            return True
        if x[0] in ('cast', 'bin') and plain(x):
            return True
        if x[0] == 'call' and isinstance(x[1], str) and x[1].startswith('core::num::<impl ') and x[1].rsplit('::', 1)[-1] in REPR_CALLS and len(x[2]) == 1 and plain(x[2][0]):
            return True
        return all(rec(y) for y in x if isinstance(y, tuple))
    return rec(t)

def integer_partition(consts):
    """The values of i64 the INTEGER writer is evaluated on.  A writer of contents octets can tell values apart by their sign, by
    how many leading octets of the two's-complement form merely repeat the sign, by the top bit of the first octet that does
    not, and - rightly or wrongly - by octets further down being 0x00 / 0xFF (or one of its own constants) themselves; the
    partition is the product of exactly these features, for every number of significant octets 1..8 and both fills:
      top octet      00 01 7F 80 FE FF and the writer's own constants (with their neighbours)
      lower octets   all 00 / all FF / all 5A / all c; 5A everywhere but one 00 resp. one FF, at every position; 00 everywhere but one
                     01, FF everywhere but one FE, at every position (256, 512, 0x010000, 0x01000001, -257, -65537, 0x00FF00FF.. are of
                     these kinds)
    together with, for every octet count k, the boundary values +-2^(8k-1), +-2^(8k) and their neighbours, every power of two and
    its neighbours under both signs and complemented (where a count of leading bits changes), 0, +-1, i64::MIN, i64::MAX."""
    LO, HI = -2 ** 63, 2 ** 63 - 1
    pts = {0, 1, -1, LO, LO + 1, HI, HI - 1}
    for k in range(1, 9):
        for c in (2 ** (8 * k - 1), 2 ** (8 * k)):
            pts |= {c - 1, c, c + 1, -c - 1, -c, -c + 1}
    for k in range(0, 64):
        for x in ((1 << k) - 1, 1 << k, (1 << k) + 1):
            pts |= {x, -x, ~x}
    cs = sorted({c & 0xff for c in consts} | {(c + d) & 0xff for c in consts for d in (-1, 1) if 0 <= c <= 255})
    tops = sorted({0x00, 0x01, 0x7f, 0x80, 0xfe, 0xff} | set(cs))
    for n in range(1, 9):
        m = n - 1
        lows = {b'\x00' * m, b'\xff' * m, b'\x5a' * m} | {bytes([c]) * m for c in cs}
        for j in range(m):
            for bg, x in ((0x5a, 0x00), (0x5a, 0xff), (0x00, 0x01), (0xff, 0xfe), (0x00, 0xff), (0xff, 0x00)):
                lows.add(bytes([bg]) * j + bytes([x]) + bytes([bg]) * (m - j - 1))
        for top in tops:
            for low in lows:
                for fill in (0x00, 0xff):
                    pts.add(int.from_bytes(bytes([fill]) * (8 - n) + bytes([top]) + low, 'big', signed=True))
    return sorted(p for p in pts if LO <= p <= HI)

def check_integer_writer(ctx, f, len8):
    """B5.  INTEGER and ENUMERATED contents are the shortest two's-complement octets of the value, for every i64 - decided on the
    FUNCTION the one writer behind both computes, not on how it is written (a shift-and-count loop with a sign-bit test,
    `to_be_bytes` with the leading sign octets skipped by take_while / position / leading_zeros arithmetic, a match on ranges):
    its typed HIR is interpreted *exactly* on one literal value at a time - conditions, arithmetic (with the debug profile's
    overflow checks), iterator adaptors and searches over the literal octets fold, loops run as often as their literal conditions
    say - and the octets of the primitive payload it returns are compared with X.690 8.3 computed here.  The values: the partition
    of `integer_partition` (product of the features by which a contents-octet writer can tell values apart) joined with every
    change point, and its neighbours, of the threshold comparisons found on the writer's symbolic paths (so a constant of the
    writer's own - `inner == 1616` - is a member).
    partition-covers-conditions: on its symbolic paths the writer looks at the value only through comparisons of the (complemented,
    shifted) value with constants and through its two's-complement representation (octets, sign, bit counts); anything else -
    arithmetic on the value, a comparison with another parameter - is a way of telling values apart the partition was not built for
    and fails closed."""
    IE = hirq.Body(f, f.body('lber::structures::integer::i_e_into_structure'))
    ctx.analysed['bodies'].add(IE.path)
    here = loc(IE.root)
    ints = [(b, d) for b, d in IE.defs.items() if d['kind'] == 'param' and not d['proj'] and hirq.strip_refs((d.get('pat') or {}).get('ty') or '') == 'i64']
    if len(ints) != 1:
        ctx.fail('anchor-missing', 'value parameter of the INTEGER writer', here, 'the INTEGER / ENUMERATED writer must take exactly one i64 (the value)')
        return
    ib, INNER = ints[0][0], ('param', ints[0][1]['name'])
    # the symbolic paths, for the conditions they branch on (every outcome counts, finished or not); a loop that forks on the symbolic
    # value in every iteration is unrolled less deep when the paths get too many - the same conditions come back in every iteration
    iouts = None
    for depth in (10, 6, 4, 3, 2, 1):
        try:
            iouts = absx.Interp(f, IE, unroll=depth, summaries=[len8]).run()
            break
        except absx.TooManyPaths:
            continue
    if iouts is None:
        ctx.fail('B5.partition-covers-conditions', 'i_e_into_structure', here, 'the paths of the INTEGER writer could not be enumerated even with its loops run once: what it branches on is not known')
        return
    atoms = [sem.strip_site(a) for o in iouts for a, t in o.st.pc if thresholds.mentions(a, INNER)]
    thr = [a for a in atoms if thresholds.atom_ok(a, INNER)]
    other = [absx.fmt(a) for a in atoms if not thresholds.atom_ok(a, INNER) and not through_representation(a, INNER)]
    ctx.add('B5.partition-covers-conditions', 'i_e_into_structure', here, not other,
            'the INTEGER writer tells values apart by something that is neither a comparison of (+-value >> k) with a constant nor a look at the two\'s-complement representation '
            '(octets, sign, bit counts): %s - the finite partition its octets are decided on does not cover that' % sorted(set(other))[:3])
    # the writer's own constants: as octet values of the partition and (a mask, a bound written out) as values, with their neighbours
    lits = {n_['v'] for n_, c_ in walk(IE.root) if n_['k'] == 'Lit' and isinstance(n_.get('v'), int) and not isinstance(n_.get('v'), bool) and 0 <= n_['v'] < 2 ** 64}
    consts = {c for c in lits if c <= 255} | {x for c in lits if c > 255 for x in c.to_bytes(8, 'big')}
    LO, HI = -2 ** 63, 2 ** 63 - 1
    own = [v for c in lits for x in (c - 1, c, c + 1) for v in (x, -x, ~x)]
    pts = thresholds.change_points(thr, INNER, LO, HI, extra=integer_partition(consts) + own)
    wrong, n_panic = [], 0
    for v in pts:
        I5 = absx.Interp(f, IE, unroll=70, combinators=True)
        env = I5.param_env()
        env[ib] = ('lit', v)
        res = [o for o in I5.run(env=env) if o.kind in ('val', 'ret', 'div', 'loop')]
        want = shortest_twos_complement(v)
        if len(res) != 1 or res[0].kind not in ('val', 'ret'):
            wrong.append((v, 'a panic (overflow, index out of range)' if [o.kind for o in res] == ['div'] else 'outcomes: %s' % [o.kind for o in res], hexs(want)))
            continue
        val = res[0].val
        pl = dict(val[2]).get('payload') if val[0] == 'struct' else None
        got = known_octets(pl[2][0]) if pl is not None and pl[0] == 'ctor' and pl[1] == 'PL::P' and len(pl[2]) == 1 else None
        if got != want:
            wrong.append((v, hexs(got) if got is not None else 'not a primitive payload of known octets: %s' % absx.fmt(pl if pl is not None else val)[:60], hexs(want)))
    # the report leads with the values closest to zero (256 -> `00` says more than a 16-digit number)
    wrong.sort(key=lambda w: (abs(w[0]), w[0] < 0))
    ctx.add('B5.integer-octets-shortest-twos-complement', 'i_e_into_structure', here, not wrong,
            'interpreted exactly on each of %d literal values (every octet count 1..8 under both signs: boundaries, 0x00 / 0xFF octets below the top octet, powers of two; the writer\'s own change points): '
            'for %d of them the contents octets are not the shortest two\'s-complement form - an independent decoder reads another number - at (value, emitted, X.690 8.3): %s'
            % (len(pts), len(wrong), ['(%d, %s, %s)' % w for w in wrong[:6]]))
    ctx.floor('B5', 'literal values the INTEGER writer was interpreted on', len(pts), 1982)          # (the partition without any constant of the writer's own)

LVAR = ('var', 'L')

def length_in_var(t, latom):
    """The term t with every linear form in the content length (the atom `latom`) rewritten over the variable LVAR; a comparison
    between such forms is normalised to `LVAR op constant` (integers: x + c > k  <=>  x > k - c).  A form that involves the content
    length in any other way (another coefficient, mixed with other lengths) becomes ('unk', ..), which is not a threshold atom."""
    if not isinstance(t, tuple) or not t or not isinstance(t[0], str):
        return t
    def lin_var(x):
        d, c = rope.lin_of(x)
        if latom not in d:
            return None
        if d == {latom: 1}:
            return c
        return 'mixed'
    if t[0] == 'bin' and t[1] in ('Eq', 'Ne', 'Lt', 'Le', 'Gt', 'Ge'):
        (d1, c1), (d2, c2) = rope.lin_of(t[2]), rope.lin_of(t[3])
        d = dict(d1)
        for a, k in d2.items():
            d[a] = d.get(a, 0) - k
        d = {a: k for a, k in d.items() if k != 0}
        if latom in d:
            if d == {latom: 1}:
                return ('bin', t[1], LVAR, ('lit', c2 - c1))
            if d == {latom: -1}:
                return ('bin', t[1], ('lit', c1 - c2), LVAR)
            return ('unk', 'comparison that mixes the content length with other quantities')
    if t[0] in ('lin', 'call') or (t[0] == 'bin' and t[1] in ('Add', 'Sub')):
        r = lin_var(t)
        if r == 'mixed':
            return ('unk', 'content length in a non-unit linear form')
        if r is not None:
            return absx.bin_term('Add', LVAR, ('lit', r))
    return tuple(length_in_var(x, latom) for x in t)

IDVAR = ('var', 'T')
SUM = 'core::iter::traits::iterator::Iterator::sum'

def replace_terms(t, fn):
    """t with every sub-term for which fn answers a term replaced by that answer (outermost first)"""
    r = fn(t)
    if r is not None:
        return r
    if not isinstance(t, tuple):
        return t
    return tuple(replace_terms(x, fn) if isinstance(x, tuple) else x for x in t)

def sizing_sum(t, src, facts):
    """t is  sum over the elements el of `src` of SZ(el)  for a function SZ of the workspace: SZ, else None"""
    if t[0] == 'call' and t[1] == SUM and len(t[2]) == 1 and t[2][0][0] == 'many' and t[2][0][1] == src:
        m = t[2][0]
        if m[3][0] == 'call' and m[3][1] in facts.hir and m[3][2] == (m[2],):
            return m[3][1]
    return None

def emitted_count(f, W, pname, v, cache):
    """How many octets the writer function W appends when its integer parameter `pname` is the literal v and its other parameters are
    unknown: W's typed HIR is interpreted exactly on the literal (conditions and arithmetic fold, loops run as often as their
    literal conditions say) and the octets are counted off the write / push / extend events.  An integer, or a string saying why
    the count is not decided (more than one path: the count depends on something else; a panic; a slice of unknown length)."""
    key = (W.path, v)
    if key in cache:
        return cache[key]
    pb = [b for b, d in W.defs.items() if d['kind'] == 'param' and d['name'] == pname]
    I = absx.Interp(f, W, unroll=70, combinators=True)
    env = I.param_env()
    env[pb[0]] = ('lit', v)
    res = [o for o in I.run(env=env) if o.kind in ('val', 'ret', 'div', 'loop')]
    if len(res) != 1 or res[0].kind not in ('val', 'ret'):
        cache[key] = 'paths: %s' % [o.kind for o in res]
        return cache[key]
    n = 0
    for e in res[0].st.ev:
        # (what goes to the sink the function was given - a parameter -, not to a vector of its own)
        if e[0] == 'call' and e[1].rsplit('::', 1)[-1] in ('write', 'write_all', 'push', 'extend_from_slice', 'extend') and len(e[2]) == 2 and e[2][0][0] == 'param':
            a = e[2][1]
            if a[0] in ('array', 'vec'):
                n += len(a[1])
            elif a[0] == 'lit' and isinstance(a[1], bytes):
                n += len(a[1])
            elif e[1].rsplit('::', 1)[-1] == 'push':
                n += 1
            else:
                cache[key] = 'octets of unknown number: %s' % absx.fmt(a)[:60]
                return cache[key]
    cache[key] = n
    return n

def check_sizing(ctx, f, E, SZ, TAGF, per, pts_enc, pts_wl, WT, WLN):
    """B4 (encoder, declared length computed instead of measured).  The encoder hands write_length not the length of a buffer that
    holds the content but  sum over the children of SZ(child),  SZ a function of the workspace (a sizing pass).  The declared
    length is right iff for every tag tree t   SZ(t) = number of octets the encoder appends for t.   By induction over the tree:
    the encoder appends (its own paths, read above)  identifier(t.id) ++ LENGTH(L) ++ content of L octets,  L = the payload's length
    resp. the sum of what it appends for the children; SZ's paths are enumerated with the payload's length resp. the sum of SZ over
    the children - equal to L by the induction hypothesis - standing for L.  What is left is a claim about two integers,
        SZ(id, L) = #identifier octets written for id + #length octets written for L + L      for all id, L in 0..2^64-1,
    decided by the threshold-partition method: every path of SZ must depend on id and on L only through step functions (comparisons
    of the shifted variable with constants, ilog2 / leading_zeros ..., arithmetic over those - rules/thresholds.py) and return
    constant + step(id) + step(L) + L, so that the region of a path is a rectangle on which both sides are separable; both are
    then evaluated at every change point of either side and its neighbours - along one row and one column of every rectangle -,
    the written counts by exact literal evaluation of write_type / write_length (the encoder's own constant length octets counted
    as they are).  Rectangles must cover the domain; a path that is cut off, panics or has another shape and is live at some
    point fails closed."""
    S = hirq.Body(f, f.hir[SZ])
    ctx.analysed['bodies'].add(SZ)
    name = SZ.rsplit('::', 1)[-1]
    R = 'B4.encoder-sizing'
    tp = [('param', d['name']) for b, d in S.defs.items() if d['kind'] == 'param' and not d['proj']]
    if len(tp) != 1 or hirq.strip_refs((([d for b, d in S.defs.items() if d['kind'] == 'param' and not d['proj']][0].get('pat') or {}).get('ty')) or '') != 'lber::structure::StructureTag':
        ctx.fail(R + '.form', name, loc(S.root), 'the encoder declares a length computed by %s, which is not a function of one tag tree: that the declared length is the number of content octets is not decided' % name)
        return
    T = tp[0]
    PAYL, IDF = ('field', T, 'payload'), ('field', T, 'id')
    def to_vars(t, prim):
        def fn(x):
            if x == IDF:
                return IDVAR
            if x[0] == 'cast' and hirq.strip_refs(str(x[2] or '')) in ('usize', 'u64'):
                y = fn(x[1])
                if y == LVAR:
                    return LVAR             # a length (0 <= L < 2^64) converted between usize and u64 is the same number
            if prim is True and x[0] == 'call' and x[1].rsplit('::', 1)[-1] == 'len' and x[2] == (('variant', PAYL, 'PL::P', 0),):
                return LVAR
            if prim is False and sizing_sum(x, ('variant', PAYL, 'PL::C', 0), f) == SZ:
                return LVAR                 # induction hypothesis: SZ(child) octets are appended for every child
            return None
        return replace_terms(sem.strip_site(t), fn)
    paths = {True: [], False: []}            # structure -> [(id atoms, L atoms, (c, id terms, L terms) | why-not)]
    for o in absx.Interp(f, S, unroll=11, combinators=True).run():
        prim = sem.variant_truth(o.st.pc, lambda t: t == PAYL, 'PL::P', ['PL::P', 'PL::C'])
        ida, la, why = [], [], None
        for a, t in o.st.pc:
            if a[0] == 'is' and a[1] == PAYL:
                continue
            a2 = to_vars(a, prim)
            mi, ml = thresholds.mentions(a2, IDVAR), thresholds.mentions(a2, LVAR)
            if mi and not ml and thresholds.step_ok(a2, IDVAR):
                ida.append((a2, t))
            elif ml and not mi and thresholds.step_ok(a2, LVAR):
                la.append((a2, t))
            elif not mi and not ml and thresholds.step_ok(a2, LVAR):
                if thresholds.fold(a2, LVAR, 0) != ('lit', t):
                    why = 'infeasible'
            else:
                why = 'a condition that is not a step function of the tag number alone or of the content length alone: %s' % absx.fmt(a2)[:80]
        val = None
        if why is None:
            if o.kind not in ('val', 'ret'):
                why = {'loop': 'a loop that is not finished after 11 iterations', 'div': 'a panic'}.get(o.kind, o.kind)
            elif prim is None:
                why = 'a path that does not look at the payload'
            else:
                d, c = rope.lin_of(to_vars(o.val, prim))
                idt, lt = [], []
                if d.pop(LVAR, None) != 1:
                    why = 'the result is not the content length plus something: %s' % absx.fmt(to_vars(o.val, prim))[:80]
                for a, k in d.items():
                    mi, ml = thresholds.mentions(a, IDVAR), thresholds.mentions(a, LVAR)
                    if mi and not ml and thresholds.step_ok(a, IDVAR):
                        idt.append((a, k))
                    elif ml and not mi and thresholds.step_ok(a, LVAR):
                        lt.append((a, k))
                    else:
                        why = 'a summand that is not a step function of the tag number alone or of the content length alone: %s' % absx.fmt(a)[:80]
                val = (c, idt, lt)
        if why == 'infeasible':
            continue
        for k in ((prim,) if prim is not None else (True, False)):
            paths[k].append((ida, la, val if why is None else None, why))
    # the octets actually written
    Wt, Wl = hirq.Body(f, f.body(WT)), hirq.Body(f, f.body(WLN))
    idp = [d['name'] for b, d in Wt.defs.items() if d['kind'] == 'param' and (d.get('pat') or {}).get('ty') == 'u64']
    lnp = [d['name'] for b, d in Wl.defs.items() if d['kind'] == 'param' and (d.get('pat') or {}).get('ty') == 'usize']
    if len(idp) != 1 or len(lnp) != 1:
        ctx.fail('anchor-missing', 'identifier / length writer parameters', loc(S.root), 'write_type must take one u64 (the tag number), write_length one usize (the length)')
        return
    # write_type's own change points: its conditions on the tag number must be thresholds
    # (whether the k-th pop of a vector whose elements are listed yields Some depends on how many there are, not on their values)
    def shape_only(x):
        if x[0] == 'is' and x[1][0] == 'nth' and x[1][1][0] in ('vec', 'array') and x[1][2] == 'pop':
            return ('is', ('nth', (x[1][1][0], len(x[1][1][1])), 'pop') + tuple(x[1][3:])) + tuple(x[2:])
        return None
    wt_atoms = [a for o in absx.Interp(f, Wt, unroll=11).run() for a, t in o.st.pc if sem.has(replace_terms(a, shape_only), lambda x: x == ('param', idp[0]))]
    bad = [absx.fmt(a) for a in wt_atoms if not thresholds.atom_ok(a, ('param', idp[0]))]
    ctx.add(R + '.identifier-writer-conditions-are-thresholds', 'write_type', loc(Wt.root), not bad, 'branch conditions of the identifier writer that are not comparisons of (id >> k) with a constant: %s' % bad[:3])
    if bad:
        return
    cache = {}
    def written_id(v):
        return emitted_count(f, Wt, idp[0], v, cache)
    def written_len(prim, v):
        """number of length octets the encoder leaves between identifier and content at content length v"""
        ns = set()
        for conds, items in per[prim]:
            holds = True
            for a, t in conds:
                r = thresholds.subst(a, LVAR, v)
                if r not in (('lit', True), ('lit', False)):
                    return 'condition not decided at %d' % v
                if r[1] != t:
                    holds = False; break
            if holds:
                n = 0
                for it in items:
                    if it[0] == 'wl':
                        w = emitted_count(f, Wl, lnp[0], v, cache)
                        if not isinstance(w, int):
                            return w
                        n += w
                    else:
                        n += 1
                ns.add(n)
        return ns.pop() if len(ns) == 1 else 'paths of the encoder: %d' % len(ns)
    MAXV = 2 ** 64 - 1
    id_pts = thresholds.step_points([a for k in paths for p in paths[k] for a, t in p[0]] + [a for k in paths for p in paths[k] if p[2] for a, c in p[2][1]], IDVAR, 0, MAXV,
                                    extra=thresholds.change_points(wt_atoms, ('param', idp[0]), 0, MAXV))
    l_pts = thresholds.step_points([a for k in paths for p in paths[k] for a, t in p[1]] + [a for k in paths for p in paths[k] if p[2] for a, c in p[2][2]], LVAR, 0, MAXV,
                                   extra=list(pts_enc) + list(pts_wl))
    def live(atoms, var, v):
        for a, t in atoms:
            try:
                r = thresholds.fold(a, var, v)
            except thresholds.Panics:
                return None
            if r not in (('lit', True), ('lit', False)):
                return None
            if r[1] != t:
                return False
        return True
    def value(terms, var, v):
        n = 0
        for a, k in terms:
            r = thresholds.fold(a, var, v)
            if r[0] != 'lit' or not isinstance(r[1], int):
                raise thresholds.Panics('not a number: %s' % absx.fmt(r)[:40])
            if r[1] < 0:
                # the terms are evaluated in the integers; an octet count that comes out negative is a subtraction that wraps (or
                # panics) in the analysed code's unsigned arithmetic: not decided here
                raise thresholds.Panics('a negative count: %s = %d at %d' % (absx.fmt(a)[:40], r[1], v))
            n += k * int(r[1])
        return n
    n_rect = 0
    for prim in (True, False):
        if not per[prim]:
            continue
        inst = 'primitive' if prim else 'constructed'
        undecided, wrong_id, wrong_len, holes = [], [], [], []
        regions = []
        for ida, la, val, why in paths[prim]:
            li = {v: live(ida, IDVAR, v) for v in id_pts}
            ll = {v: live(la, LVAR, v) for v in l_pts}
            I_, J_ = [v for v in id_pts if li[v] is not False], [v for v in l_pts if ll[v] is not False]
            regions.append((frozenset(I_), frozenset(J_)))
            if not I_ or not J_:
                continue
            if None in li.values() or None in ll.values():
                undecided.append('a condition of %s does not fold at tag number %s / content length %s' % (name, [v for v in id_pts if li[v] is None][:1], [v for v in l_pts if ll[v] is None][:1]))
                continue
            if val is None:
                undecided.append('%s (live at tag number %d, content length %d)' % (why, I_[0], J_[0]))
                continue
            n_rect += 1
            c, idt, lt = val
            # a column and a row of the rectangle; the corner is moved to a point where the other side is right (if there is one),
            # so that a wrong count is attributed to the part - identifier or length octets - it belongs to
            try:
                def header(i, l):
                    return c + value(idt, IDVAR, i) + value(lt, LVAR, l)
                def column(i):
                    bad, good = [], []
                    for l in J_:
                        wi, wl_ = written_id(i), written_len(prim, l)
                        if not isinstance(wi, int) or not isinstance(wl_, int):
                            undecided.append('octets written at tag number %d, content length %d: %s' % (i, l, wi if not isinstance(wi, int) else wl_))
                            return None, None
                        if header(i, l) != wi + wl_:
                            bad.append((l, header(i, l) - wi, wl_))
                        else:
                            good.append(l)
                    return bad, good
                def row(l):
                    bad, good = [], []
                    for i in I_:
                        wi, wl_ = written_id(i), written_len(prim, l)
                        if not isinstance(wi, int) or not isinstance(wl_, int):
                            undecided.append('octets written at tag number %d, content length %d: %s' % (i, l, wi if not isinstance(wi, int) else wl_))
                            return None, None
                        if header(i, l) != wi + wl_:
                            bad.append((i, header(i, l) - wl_, wi))
                        else:
                            good.append(i)
                    return bad, good
                bad_l, good_l = column(I_[0])
                if bad_l is None:
                    continue
                if not good_l:
                    b2, g2 = row(J_[0])
                    if g2:
                        bad_l, good_l = column(g2[0])
                bad_i, good_i = row(good_l[0] if good_l else J_[0])
                if bad_i is None:
                    continue
                wrong_len += [x for x in bad_l if x not in wrong_len]
                wrong_id += [x for x in bad_i if x not in wrong_id]
            except thresholds.Panics as e:
                undecided.append('%s panics or is not a number where it is live: %s' % (name, e))
        # coverage: the rectangles of the paths cover every (tag number, content length)
        rows = {}
        for v in id_pts:
            rows.setdefault(frozenset(k for k, (I_, J_) in enumerate(regions) if v in I_), v)
        cols = {}
        for v in l_pts:
            cols.setdefault(frozenset(k for k, (I_, J_) in enumerate(regions) if v in J_), v)
        for ri, iv in rows.items():
            for cj, lv in cols.items():
                if not (ri & cj):
                    holes.append((iv, lv))
        ctx.add(R + '.decided', inst, loc(S.root), not undecided and not holes,
                'the encoder declares, for a constructed element, the sum of %s(child) as its content length; that %s(t) is the number of octets appended for t is not decided: %s'
                % (name, name, '; '.join(undecided[:3]) if undecided else 'no path of %s for (tag number, content length) = %s' % (name, holes[:3])))
        ctx.add(R + '.length-octets', inst + ' child', loc(S.root), not wrong_len,
                'decided at all %d change points of the content length L (0..2^64-1): the number of length octets %s predicts for a %s child differs from what the encoder writes for it, so the ENCLOSING element declares a content length that is not the number of content octets - at (L, length octets predicted, length octets written): %s'
                % (len(l_pts), name, inst, ['(%d, %d, %d: %d vs %d beyond the first)' % (l, a, b, a - 1, b - 1) for l, a, b in wrong_len[:4]]))
        ctx.add(R + '.identifier-octets', inst + ' child', loc(S.root), not wrong_id,
                'decided at all %d change points of the tag number (0..2^64-1): the number of identifier octets %s predicts for a %s child differs from what write_type writes, so the enclosing element declares a content length that is not the number of content octets - at (tag number, identifier octets predicted, written): %s'
                % (len(id_pts), name, inst, wrong_id[:4]))
    ctx.floor(R, 'rectangles (path of the sizing function x structure) evaluated', n_rect, 2)

def check_encoder(ctx, f, ref_len_octets, pts_wl):
    """B4 (encoder): what `encode_inner` leaves in its output buffer, read off the final buffer of every path (rules/rope.py) - not off
    the order of its calls.  On every path that returns Ok the buffer is
        what it held before ++ identifier(tag.class, structure of the payload, tag.id) ++ LENGTH ++ CONTENT
    with CONTENT the payload octets (primitive) resp. for every child in order what the encoder itself appends for it (constructed;
    induction over the tree), and LENGTH a sequence of octets each of which is a constant, the low octet of L, or what
    `write_length(L)` emits, L being *formally* the length of CONTENT - whether LENGTH was written before CONTENT or a placeholder
    was patched / replaced / inserted afterwards (that `write_length(n)` emits the minimal definite form of n is rule B2m's
    obligation and is assumed here, so a defect of the length writer is reported once, by B2m).  Which path is taken may depend on L through threshold comparisons only (checked);
    so the paths' conditions and LENGTH are evaluated at every change point of the partition induced by those comparisons and by
    write_length's own (0x7F / 0x80 / 0x81, every 2^k +- 1, ...) against the minimal definite length form.  Between two consecutive
    change points the path and the number of reference octets are fixed, the reference is injective in L and an emitted octet is a
    constant or L's low octet, so agreement at both ends of such an interval is agreement on all of it."""
    E = hirq.Body(f, f.body('lber::write::encode_inner'))
    ctx.analysed['bodies'].add(E.path)
    WT, WLN = 'lber::write::write_type', 'lber::write::write_length'
    outb = [(b, ('param', d['name'])) for b, d in E.defs.items() if d['kind'] == 'param' and not d['proj'] and rope.is_bytevec((d.get('pat') or {}).get('ty'))]
    tagp = [('param', d['name']) for b, d in E.defs.items() if d['kind'] == 'param' and not d['proj'] and hirq.strip_refs((d.get('pat') or {}).get('ty') or '') == 'lber::structure::StructureTag']
    if len(outb) != 1 or len(tagp) != 1:
        ctx.fail('anchor-missing', 'encoder parameters', loc(E.root), 'the encoder must take one byte buffer and one StructureTag')
        return
    (BUF, BUFP), TAG = outb[0], tagp[0]
    PAY = ('field', TAG, 'payload')
    # sinks: the identifier writer (decided by B1), the length writer (B2m) and the encoder itself (induction hypothesis: on Ok it has
    # appended the encoding of the tag it was given)
    outs = rope.RopeInterp(f, E, sinks=(WT, WLN, E.path), unroll=1).run()
    per = {True: [], False: []}          # structure -> [(L-conditions, length items)] of the well-formed Ok paths
    sized = []                           # sizing functions: a declared length computed as the sum of SZ(child) over the children
    n_ok = 0
    badform = []
    for o in outs:
        if o.kind == 'loop':
            ctx.fail('B4.encoder-order', 'unsummarised loop', loc(E.root), 'a loop of the encoder does more than append to the output for each element: what the buffer holds afterwards is not decided')
            continue
        if o.kind not in ('val', 'ret'):
            continue
        if sem.is_err_result(o.val):
            ctx.add('B4.encoder-fails-only-with-a-child', 'error path|%s' % absx.fmt(o.val)[:40], loc(E.root), sem.failed(o, lambda t: t[0] == 'call' and t[1] == E.path),
                    'the encoder gives up on a path on which no child failed to encode: a tag tree is refused')
            continue
        if not sem.is_ok_result(o.val):
            ctx.fail('B4.encoder-order', 'result', loc(E.root), 'the encoder returns something that is neither Ok nor a propagated error: %s' % absx.fmt(o.val)[:60])
            continue
        n_ok += 1
        prim = sem.variant_truth(o.st.pc, lambda t: t == PAY, 'PL::P', ['PL::P', 'PL::C'])
        inst = {True: 'primitive', False: 'constructed', None: 'structure not tested'}[prim]
        final = o.st.env.get(BUF, ('unk', 'no buffer'))
        why = None
        items, latom = [], None
        used, measured = [], (lambda x: x)
        if final[0] != 'rope':
            why = 'what the output buffer holds is not decided (%s)' % absx.fmt(final)[:80]
        elif prim is None:
            why = 'a path that does not depend on whether the payload is primitive or constructed'
        else:
            segs = final[1]
            want_id = ('emit', WT, (('field', TAG, 'class'), ('ctor', 'TagStructure::Primitive' if prim else 'TagStructure::Constructed', ()), ('field', TAG, 'id')))
            content = segs[-1] if len(segs) >= 3 else None
            src = ('variant', PAY, 'PL::P' if prim else 'PL::C', 0)
            no_content = len(segs) >= 3 and segs[-1][0] not in ('bytes', 'many') and any(says_empty(sem.strip_site(a), t, (), lambda x: x == src) for a, t in o.st.pc)
            if no_content:
                # a path on which the payload / the list of children is known to be empty may leave the content out: L = 0 there
                for sg in segs[2:]:
                    if sg[0] == 'emit' and sg[1] == WLN and len(sg[2]) == 1 and rope.lin_of(sg[2][0]) == ({}, 0):
                        items.append(('wl',))
                    elif sg[0] == 'byte' and sg[1][0] == 'lit' and isinstance(sg[1][1], int) and not isinstance(sg[1][1], bool):
                        items.append(('const', sg[1][1] & 0xff))
                    else:
                        why = 'on a path with empty content there is %s after the identifier' % absx.fmt(sg)[:80]
                if segs[0] != ('pre', BUFP) or segs[1] != want_id:
                    why = 'the buffer does not begin with what it held before, followed by the identifier octets of (tag.class, %s, tag.id)' % ('Primitive' if prim else 'Constructed')
            elif len(segs) < 3 or segs[0] != ('pre', BUFP):
                why = 'the buffer does not begin with what it held before, followed by identifier, length and content'
            elif segs[1] != want_id:
                why = 'after the earlier content comes %s, not the identifier octets of (tag.class, %s, tag.id)' % (absx.fmt(segs[1])[:80], 'Primitive' if prim else 'Constructed')
            elif prim and content != ('bytes', ('variant', PAY, 'PL::P', 0)):
                why = 'the buffer does not end with the payload octets: %s' % absx.fmt(content)[:80]
            elif not prim and not (content[0] == 'many' and content[1] == ('variant', PAY, 'PL::C', 0) and content[3] == (('emit', E.path, (content[2],)),)):
                why = 'the buffer does not end with the encodings of the children, one after the other in order: %s' % absx.fmt(content)[:100]
            else:
                latom = ('len', content[1]) if prim else ('seglen', content)
                def measured(x):
                    # a length that is computed instead of measured: the sum, over the children, of what a sizing function SZ
                    # answers for the child stands for the number of octets the encoder appends for the children - under the
                    # obligation, decided once by check_sizing, that SZ(t) is the number of octets it appends for t
                    def fn(y):
                        z = None if prim else sizing_sum(y, content[1], f)
                        if z is not None:
                            if z not in used:
                                used.append(z)
                            return rope.mk_lin({latom: 1}, 0)
                        return None
                    return replace_terms(x, fn)
                for sg in segs[2:-1]:
                    if sg[0] == 'emit' and sg[1] == WLN and len(sg[2]) == 1:
                        if rope.lin_of(measured(sg[2][0])) == ({latom: 1}, 0):
                            items.append(('wl',))
                        else:
                            why = 'write_length is given %s, which is not (formally) the length of the content that follows' % absx.fmt(sg[2][0])[:80]
                    elif sg[0] == 'byte' and sg[1][0] == 'lit' and isinstance(sg[1][1], int) and not isinstance(sg[1][1], bool):
                        items.append(('const', sg[1][1] & 0xff))
                    elif sg[0] == 'byte' and sg[1][0] == 'cast' and hirq.strip_refs(str(sg[1][2] or '')) == 'u8' and rope.lin_of(measured(sg[1][1])) == ({latom: 1}, 0):
                        items.append(('low8',))
                    else:
                        why = 'between identifier and content there is %s: neither write_length(content length) nor an octet that is a constant or the content length' % absx.fmt(sg)[:80]
                if not segs[2:-1]:
                    why = 'no length octets between identifier and content'
        ctx.add('B4.encoder-order', inst, loc(E.root), why is None,
                'the encoder must leave identifier, then the length of exactly the content, then the content in the buffer (in whatever order it writes them): %s' % why)
        if why is not None:
            continue
        conds = []
        if latom is None:
            conds.append((('bin', 'Eq', LVAR, ('lit', 0)), True))
        for a, t in (o.st.pc if latom is not None else ()):
            a2 = length_in_var(sem.strip_site(measured(a)), latom)
            if sem.has(a2, lambda x: x == LVAR) or (a2 != sem.strip_site(a) and sem.has(a2, lambda x: x[0] == 'unk')):
                conds.append((a2, t))
                if not thresholds.atom_ok(a2, LVAR):
                    badform.append(absx.fmt(a2))
        per[prim].append((conds, items))
        sized += [z for z in used if z not in sized]
    ctx.floor('B4', 'success paths of the encoder', n_ok, 2)
    ctx.add('B4.encoder-conditions-are-thresholds', 'encode_inner', loc(E.root), not badform,
            'the form of the length octets depends on the content length through something other than a comparison with a constant: %s' % badform[:3])
    if badform:
        return
    atoms = [a for k in per for conds, items in per[k] for a, t in conds]
    pts = sorted(set(pts_wl) | set(thresholds.change_points(atoms, LVAR, 0, 2 ** 64 - 1)))
    for z in sized:
        check_sizing(ctx, f, E, z, TAG, per, pts, pts_wl, WT, WLN)
    for prim in (True, False):
        if not per[prim]:
            continue
        wrong = []
        for v in pts:
            live = 0
            for conds, items in per[prim]:
                holds = True
                for a, t in conds:
                    r = thresholds.subst(a, LVAR, v)
                    if r not in (('lit', True), ('lit', False)):
                        holds = None; break
                    if r[1] != t:
                        holds = False; break
                if holds is False:
                    continue
                live += 1
                got = []
                for it in items:
                    if it[0] == 'wl':
                        got += ref_len_octets(v)        # what write_length emits for v is B2m's obligation, not decided again here
                    elif it[0] == 'const':
                        got.append(it[1])
                    else:
                        got.append(v & 0xff)
                if holds is None or got != ref_len_octets(v):
                    wrong.append((v, [hex(x) if x is not None else '?' for x in got], [hex(x) for x in ref_len_octets(v)]))
            if not live:
                wrong.append((v, 'no path', [hex(x) for x in ref_len_octets(v)]))
        ctx.add('B4.encoder-length-octets', 'primitive' if prim else 'constructed', loc(E.root), not wrong,
                'decided at all %d change points of the conditions on the content length L (0..2^64-1): between identifier and content the %s branch leaves length octets that are not the minimal definite form of L at (L, emitted, expected): %s'
                % (len(pts), 'primitive' if prim else 'constructed', wrong[:4]))

def run(ctx):
    f = ctx.facts
    # ------------------------------------------------------------------ B1 identifier octet
    check_identifier_octet(ctx, f)
    # discriminants vs from_u8, evaluated for all 256 inputs
    for enum, fn in (('lber::common::TagClass', 'lber::common::TagClass::from_u8'), ('lber::common::TagStructure', 'lber::common::TagStructure::from_u8')):
        discr = f.discr(enum)
        B = hirq.Body(f, f.body(fn))
        ctx.analysed['bodies'].add(fn)
        I = absx.Interp(f, B)
        pb = [b for b, d in B.defs.items() if d['kind'] == 'param'][0]
        wrong = []
        for n in range(256):
            vals = {o.val for o in I.run(env={pb: ('lit', n)}) if o.kind in ('val', 'ret')}
            exp = [k for k, v in discr.items() if v == n]
            want = ('ctor', 'Some', (('ctor', enum.split('::')[-1] + '::' + exp[0], ()),)) if exp else ('ctor', 'None', ())
            if vals != {want}:
                wrong.append((n, sorted(map(absx.fmt, vals))))
        ctx.add('B1.from_u8-equals-discriminants', enum, loc(B.root), not wrong, '%s(n) disagrees with `as u8` for n in %s' % (fn.split('::')[-1], wrong[:4]))
    want_cls = {'Universal': 0, 'Application': 1, 'Context': 2, 'Private': 3}
    ctx.add('B1.class-numbers', 'X.690', '', f.discr('lber::common::TagClass') == want_cls, 'TagClass numbering %s, X.690: %s' % (f.discr('lber::common::TagClass'), want_cls))
    ctx.add('B1.structure-numbers', 'X.690', '', f.discr('lber::common::TagStructure') == {'Primitive': 0, 'Constructed': 1}, 'TagStructure numbering')
    univ = f.discr('lber::universal::Types')
    need = {'Boolean': 1, 'Integer': 2, 'OctetString': 4, 'Null': 5, 'Enumerated': 10, 'Sequence': 16, 'Set': 17}
    ctx.add('B1.universal-numbers', 'X.680', '', all(univ.get(k) == v for k, v in need.items()), 'universal tag numbers %s' % {k: univ.get(k) for k in need})

    # ------------------------------------------------------------------ B2 length
    WL = hirq.Body(f, f.body('lber::write::write_length'))
    ctx.analysed['bodies'].add(WL.path)
    wouts = absx.Interp(f, WL, unroll=1).run()
    check_length_reader(ctx, f)

    check_parse_uint(ctx, f, 'B6')

    # ------------------------------------------------------------------ B2m minimal long form (threshold partition)
    def len8(I, cal, args, node, st):
        if cal.endswith('::len') and args and args[0][0] == 'call' and args[0][1].endswith('::to_be_bytes'):
            return [absx.Out('val', ('lit', 8), st)]
        return None
    LEN = ('param', 'length')
    louts = [o for o in absx.Interp(f, WL, unroll=9, summaries=[len8]).run() if o.kind == 'val']
    atoms = [a for o in louts for a, t in o.st.pc]
    badform = [absx.fmt(a) for a in atoms if not thresholds.atom_ok(a, LEN)]
    # (leading_zeros(length) is piecewise constant between powers of two: all 2^k and their neighbours are change points below)
    ctx.add('B2m.conditions-are-thresholds', 'write_length', loc(WL.root), not badform, 'branch conditions that are not comparisons of (length >> k) with a constant: %s' % badform[:3])
    def ref_len_octets(n):
        if n < 128:
            return [n]
        b = n.to_bytes((n.bit_length() + 7) // 8, 'big')
        return [0x80 | len(b)] + list(b)
    pow2 = [x for k in range(0, 64) for x in ((1 << k) - 1, 1 << k, (1 << k) + 1)]
    pts = pts_wl = thresholds.change_points(atoms, LEN, 0, 2 ** 64 - 1, extra=[128, 127, 255, 256, 65535, 65536, 2 ** 24 - 1, 2 ** 24, 2 ** 32 - 1, 2 ** 32, 0xFF00, 0xFF0000] + pow2)
    # exact evaluation on the literal length at every change point (see B5)
    wrong = []
    lb = [b_ for b_, d in WL.defs.items() if d['kind'] == 'param' and d['name'] == 'length']
    wl_cache = {}
    def wl_octets(v):
        """the octets write_length emits for the literal length v (list), or a string saying why they could not be read"""
        if v in wl_cache:
            return wl_cache[v]
        I2 = absx.Interp(f, WL, unroll=16, combinators=True)
        env = I2.param_env()
        env[lb[0]] = ('lit', v)
        res = [o for o in I2.run(env=env) if o.kind in ('val', 'ret', 'div')]
        if len(res) != 1 or res[0].kind == 'div':
            wl_cache[v] = 'paths=%d' % len(res)
            return wl_cache[v]
        got, okshape = [], True
        for e in res[0].st.ev:
            if e[0] == 'call' and e[1].rsplit('::', 1)[-1] in ('write', 'write_all', 'push', 'extend_from_slice'):
                a_ = e[2][1]
                if a_[0] == 'array' and all(x[0] == 'lit' for x in a_[1]):
                    got += [x[1] & 0xff for x in a_[1]]
                elif a_[0] == 'lit' and isinstance(a_[1], bytes):
                    got += list(a_[1])
                elif a_[0] == 'lit' and isinstance(a_[1], int):
                    got.append(a_[1] & 0xff)
                else:
                    okshape = False
        wl_cache[v] = got if okshape else 'octets not literal: %s' % [hex(x) for x in got]
        return wl_cache[v]
    for v in pts:
        got = wl_octets(v)
        if got != ref_len_octets(v):
            wrong.append((v, [hex(x) for x in got] if isinstance(got, list) else got, [hex(x) for x in ref_len_octets(v)]))
    ctx.add('B2m.length-octets-minimal', 'write_length', loc(WL.root), not wrong,
            'decided at all %d change points of the branch conditions (lengths 0..2^64-1): the emitted length octets differ from the minimal definite form at %s' % (len(pts), wrong[:4]))

    # ------------------------------------------------------------------ B5 INTEGER / ENUMERATED content octets
    check_integer_writer(ctx, f, len8)

    # ------------------------------------------------------------------ B3 constants and pass-through
    T = 'lber::structures::ASNTag>::into_structure'
    Bb = hirq.Body(f, f.body('<lber::structures::boolean::Boolean as ' + T))
    ctx.analysed['bodies'].add(Bb.path)
    got = {}
    for flag in (True, False):
        # evaluated exactly for both values of the boolean
        hook = lambda base, name, st, flag=flag: ('lit', flag) if (name == 'inner' and base == ('param', 'self')) else None
        for o in absx.Interp(f, Bb, field_hook=hook, combinators=True).run():
            fl = dict(o.val[2]) if o.val[0] == 'struct' else {}
            pl = fl.get('payload', ('unk',))
            octs = None
            if pl[0] == 'ctor' and pl[1] == 'PL::P' and pl[2] and pl[2][0][0] in ('vec', 'array'):
                octs = [x[1] if x[0] == 'lit' else None for x in pl[2][0][1]]
            got.setdefault(flag, []).append(octs)
            ctx.add('B3.passes-id-class', 'Boolean|%s' % flag, loc(Bb.root), fl.get('id') == ('field', ('param', 'self'), 'id') and fl.get('class') == ('field', ('param', 'self'), 'class'), 'id/class not passed through')
    ctx.add('B3.boolean-true-is-ff', 'Boolean', loc(Bb.root), got.get(True) == [[0xff]], 'BOOLEAN TRUE must be the single octet 0xFF (found %s)' % got.get(True))
    ctx.add('B3.boolean-false-is-00', 'Boolean', loc(Bb.root), got.get(False) == [[0]], 'BOOLEAN FALSE must be the single octet 0x00 (found %s)' % got.get(False))
    for ty, payload in (('null::Null', ('ctor', 'PL::P', (('vec', ()),))), ('octetstring::OctetString', ('ctor', 'PL::P', (('field', ('param', 'self'), 'inner'),)))):
        B = hirq.Body(f, f.body('<lber::structures::%s as %s' % (ty, T)))
        ctx.analysed['bodies'].add(B.path)
        for o in absx.Interp(f, B).run():
            fl = dict(o.val[2]) if o.val[0] == 'struct' else {}
            ok = fl.get('id') == ('field', ('param', 'self'), 'id') and fl.get('class') == ('field', ('param', 'self'), 'class') and fl.get('payload') == payload
            ctx.add('B3.primitive-pass-through', ty, loc(B.root), ok, '%s::into_structure must pass id, class and content through unchanged' % ty)
    for ty in ('sequence::Sequence', 'sequence::Set'):
        B = hirq.Body(f, f.body('<lber::structures::%s as %s' % (ty, T)))
        ctx.analysed['bodies'].add(B.path)
        for o in absx.Interp(f, B).run():
            fl = dict(o.val[2]) if o.val[0] == 'struct' else {}
            pl = fl.get('payload', ('unk',))
            ok = fl.get('id') == ('field', ('param', 'self'), 'id') and fl.get('class') == ('field', ('param', 'self'), 'class') and pl[0] == 'ctor' and pl[1] == 'PL::C' \
                and pl[2][0][0] == 'many' and pl[2][0][1] == ('field', ('param', 'self'), 'inner') and pl[2][0][3][0] == 'call' and pl[2][0][3][1].endswith('::into_structure') and pl[2][0][3][2] == (pl[2][0][2],)
            ctx.add('B3.constructed-pass-through', ty, loc(B.root), ok, '%s::into_structure must convert its children one by one, in order' % ty)
    B = hirq.Body(f, f.body('<lber::structures::explicit::ExplicitTag as ' + T))
    for o in absx.Interp(f, B).run():
        fl = dict(o.val[2]) if o.val[0] == 'struct' else {}
        pl = fl.get('payload', ('unk',))
        ok = pl[0] == 'ctor' and pl[1] == 'PL::C' and pl[2][0][0] == 'vec' and len(pl[2][0][1]) == 1 and fl.get('id') == ('field', ('param', 'self'), 'id')
        ctx.add('B3.explicit-wraps-one', 'ExplicitTag', loc(B.root), ok, 'an explicit tag must wrap exactly its inner element')

    # ------------------------------------------------------------------ B4 remainder and encoder order
    PT = [p for p in f.hir if p.startswith('lber::parse::parse_tag')]
    body = None
    for p in PT:
        if any(n['k'] == 'Match' and 'TagStructure' in (n['scrut'].get('ty') or '') for n, c in walk(f.hir[p]['body'])):
            body = p
    if body is None:
        ctx.fail('anchor-missing', 'TLV parser body', '', 'no function matching on TagStructure')
    else:
        B = hirq.Body(f, f.hir[body])
        ctx.analysed['bodies'].add(body)
        all_outs = absx.Interp(f, B, unroll=1, result_combinators=True).run()
        outs = [o for o in all_outs if o.kind in ('val', 'ret') and o.val[0] == 'ctor' and o.val[1] == 'Ok']
        announced_b4 = {sem.strip_site(e[2][0]) for o in all_outs for e in o.st.ev if e[0] == 'call' and e[1] == 'nom::bytes::streaming::take' and e[2]}
        seen = set()
        for o in outs:
            rem = o.val[2][0][1][0]
            st = o.val[2][0][1][1]
            tk = [e for e in o.st.ev if e[0] == 'call' and e[1] == 'nom::bytes::streaming::take']
            ok = len(tk) == 1
            if not tk and any(says_empty(sem.strip_site(a), t, announced_b4, lambda x: False) for a, t in o.st.pc) and rem[0] == 'field' and rem[2] == '0' and rem[1][0] == 'variant' \
                    and rem[1][1][0] == 'call' and rem[1][1][1] == '<indirect>' and not sem.has(rem[1][1], lambda x: x[0] == 'call' and x[1] == 'nom::bytes::streaming::take'):
                # no content announced (length 0 on this path): the slice after the announced length is the header's own remainder
                ctx.add('B4.remainder-after-announced-length', 'primitive=%s|empty' % sem.variant_truth(o.st.pc, lambda v: True, 'TagStructure::Primitive', ['TagStructure::Primitive', 'TagStructure::Constructed']), loc(B.root), True, '')
                seen.add(sem.variant_truth(o.st.pc, lambda v: True, 'TagStructure::Primitive', ['TagStructure::Primitive', 'TagStructure::Constructed']))
                continue
            if ok:
                # remainder = .0 of the application of take(len) to the input after the header
                ok = rem[0] == 'field' and rem[2] == '0' and rem[1][0] == 'variant' and rem[1][1][0] == 'call' and rem[1][1][1] == '<indirect>' and rem[1][1][2][0][0] == 'call' \
                    and rem[1][1][2][0][1] == 'nom::bytes::streaming::take'
            prim = sem.variant_truth(o.st.pc, lambda v: True, 'TagStructure::Primitive', ['TagStructure::Primitive', 'TagStructure::Constructed'])
            seen.add(prim)
            ctx.add('B4.remainder-after-announced-length', 'primitive=%s' % prim, loc(B.root), ok, 'the remainder returned is not the slice after take(len)')
            fl = dict(st[2]) if st[0] == 'struct' else {}
            okh = all(fl.get(k, ('unk',))[0] == 'field' for k in ('class', 'id'))
            ctx.add('B4.header-fields', 'primitive=%s' % prim, loc(B.root), okh, 'class/id of the result are not the parsed header fields')
        ctx.add('B4.both-arms', 'primitive+constructed', loc(B.root), seen >= {True, False}, 'no success path for both structures')
    check_tlv_parser(ctx, f, 'B7')
    check_tlv_literal(ctx, f, 'B7')
    check_encoder(ctx, f, ref_len_octets, pts_wl)
