"""Cancel safety of an async method of a stateful object (used by C10 for the stream's stepping functions).

A future returned by an `async fn (&mut self)` may be dropped at any await point (tokio::select!, tokio::time::timeout around it).
Whatever the function has moved out of `self` into its own locals by then is dropped with the future, and `self` stays behind
in a state the next call does not expect.  Rule: on every enumerated path, no field of `self` has been emptied (Option::take /
mem::take / assignment) and not yet restored at the moment an await is reached.  Decided on the interpreter's paths: the
store events of the path up to each await."""
import sem, absx
from facts import loc

def fields_missing_at_await(o, self_term=None):
    """[(await index, field name)] for every await reached while a field of self that was emptied earlier on the path has not
    been stored back."""
    out = []
    emptied = {}          # field -> index of the store that emptied it
    for i, e in enumerate(o.st.ev):
        if e[0] == 'store':
            place, val = e[1], e[2]
            if place[0] == 'field' and (self_term is None or place[1] == self_term):
                if val == ('ctor', 'None', ()) or val[0] == 'unk':
                    emptied[place[2]] = i
                else:
                    emptied.pop(place[2], None)
        elif e[0] == 'call' and e[1].endswith('Option::<T>::take') and e[3].get('k') == 'MethodCall':
            r = e[3]['recv']
            while r.get('k') in ('AddrOf',) or (r.get('k') == 'Unary' and r.get('op') == 'Deref'):
                r = r['e']
            if r.get('k') == 'Field':
                emptied[r['name']] = i
        elif e[0] == 'await':
            for fld in emptied:
                out.append((i, fld))
    return out

def check(ctx, rule, f, B, fields=None, **kw):
    outs, _I = sem.paths(f, B, combinators=True, **kw)
    bad = set()
    n_await = 0
    for o in outs:
        n_await += len(sem.awaits(o))
        for _i, fld in fields_missing_at_await(o):
            if fields is None or fld in fields:
                bad.add(fld)
    ctx.add(rule, B.path, loc(B.root), not bad,
            'the function waits (await) after moving %s out of the object: if the pending future is dropped there (select!, an outer timeout), the object is left without it and the next call panics or loses the rest of the stream' % sorted(bad))
    return n_await


def fields_bracketed_around_await(o, self_term):
    """[(field, value at the await)] for every field of self that is written before an await, does not hold its entry value when
    the await is reached, and is written again after it: a change meant to last only while the awaited callee runs (a chain
    position, a depth counter, a busy flag).  If the pending future is dropped at that await the second write never happens and the
    object keeps the temporary value."""
    out = []
    cur = {}              # field -> value after the last store so far
    ev = list(o.st.ev)
    # what a destructor does (events between ('drop', 'begin') and ('drop', 'end')) also happens when the pending future is
    # dropped, so a restore made there is not skipped by cancellation
    in_drop, depth = [], 0
    for e in ev:
        if e[0] == 'drop':
            depth += 1 if e[1] == 'begin' else -1
        in_drop.append(depth > 0)
    for i, e in enumerate(ev):
        if e[0] == 'store' and e[1][0] == 'field' and e[1][1] == self_term:
            cur[e[1][2]] = e[2]
        elif e[0] == 'await':
            for fld, val in cur.items():
                if sem.strip_site(val) == ('field', self_term, fld):
                    continue
                later = any(x[0] == 'store' and x[1][0] == 'field' and x[1][1] == self_term and x[1][2] == fld and not in_drop[j] for j, x in enumerate(ev) if j > i)
                if later and (fld, absx.fmt(val)[:40]) not in out:
                    out.append((fld, absx.fmt(val)[:40]))
    return out
