"""`Decoder::decode` around the frame decoder: on a connection without a security layer it *is* the frame decoder.

The codec's `decode` is what tokio-util's `Framed` calls; the frame decoder proper (the body that applies the TLV parser to the
buffer; C06 G1 / G2 decide it) sits behind it.  With the gssapi feature the codec carries the state of the SASL token layer and
`decode` first has to find out whether that layer is active.  What is decided here, for every configuration:

    with the codec in the state it is constructed in (nobody negotiated a security layer: that is what publishing the SASL
    parameters *means*, so "as constructed" is the plain connection, whatever the fields are called and however the flag is
    spelled), every path of `decode`
      (P1) answers what the frame decoder answers for the caller's buffer - the very term `frame_decoder(buf)`, or that term
           taken apart and put together again (`Ok(x?)`, a match that rebuilds both variants) - having touched neither the buffer
           before or after it nor the codec's state (so the next call starts from the same state and the argument repeats); or
      (P2) answers `Ok(None)` itself, having touched nothing, on a condition under which the frame decoder would have given the
           same answer with no side effect.  The frame decoder answers `Ok(None)` exactly while the outermost element is
           incomplete (G1: need-more only on Incomplete, Incomplete means need-more, the buffer intact), and the element is
           complete from len(buf) >= 1 identifier octet + length octets + announced length (the reader semantics C07 B2 decides;
           `framelen.HeaderClass.true_len`).  So the path condition must *contradict* `len(buf) >= true_len` for each of the 256
           values of the first length octet - the body is evaluated once per value (framelen.FramedInterp / FramedBuffer), so a
           pre-test may also look at header octets.  The shortest complete element is 2 octets (identifier + length octet 0x00):
           `len(buf) < N` passes for N <= 2 (dead code: the frame decoder says Ok(None) there anyway) and holds a complete
           element back for every N > 2 - for ever if the peer sends nothing more: it is neither delivered nor rejected.
    Anything else - an error of the wrapper's own, an answer after the decoder's was dropped, a path that goes on into the
    token layer - is a violation.  In particular `Ok(None)` on a path on which the frame decoder *delivered* a message (the
    decoder's answer passed through `.filter(pred)`, a `match` with a guard): the frame is complete and consumed, and Framed
    reads the socket before it decodes again - reported as such.  A test of the delivered message ID is decided under what the
    envelope rules establish about every delivered ID (`id_range`: 0 .. maxInt), so `filter(|&(id, _)| id >= 0)` is the
    decoder's answer (P1) and `id != 0` is not: what is judged is the composition of wrapper and body, in whichever of the two
    functions the adaptor sits (an adaptor inside the frame decoder's own function - also a new function around the renamed
    body, which the fact loader expands - is read by C06 G1 / G2 and the envelope trees on that function's paths).

The constructed state is read off the one struct literal that builds the codec: a field initialised to a literal is that
literal; `Arc::new(RwLock::new(v))` / `Arc::new(Mutex::new(v))` (also through `clone()` of a local bound to it) is a cell that
holds v, and acquiring it (`read` / `write` / `lock`) yields `Ok(v)` - a fresh lock is not poisoned and holds what it was built
with until somebody stores to it; a field whose initialiser the model cannot read stays symbolic (both branches of whatever
tests it are then paths that have to satisfy P1 / P2: fails closed).

No solver, no execution: 256 literal evaluations of a small body."""
from facts import walk, callee_of, loc
import hirq, absx, anchors, framelen
from absx import Out
from framelen import Lin

NEED_MORE = ('ctor', 'Ok', (('ctor', 'None', ()),))
# calls that take the buffer and leave it as it is (everything else that is handed the buffer counts as touching it: fails closed)
OBSERVERS = ('len', 'is_empty', 'get', 'first', 'last', 'split_first', 'split_last', 'remaining', 'has_remaining', 'chunk', 'capacity', 'as_ref', 'deref', 'iter',
             'starts_with', 'ends_with', 'contains', 'as_slice', 'borrow', 'eq', 'ne', 'to_vec', '#index')          # ('#index': a read buf[k] / buf[a..b] as framelen.FramedBuffer records it)
ACQUIRE = ('std::sync::poison::rwlock::RwLock::<T>::read', 'std::sync::poison::rwlock::RwLock::<T>::write',
           'std::sync::poison::mutex::Mutex::<T>::lock')
CELLS = ('std::sync::poison::rwlock::RwLock::<T>::new', 'std::sync::poison::mutex::Mutex::<T>::new')
TRANSPARENT = ('alloc::sync::Arc::<T>::new', 'alloc::rc::Rc::<T>::new', 'alloc::boxed::Box::<T>::new')


def codec_type(f, D):
    """the ADT `decode` is a method of (its `self` parameter's type)"""
    for b, d in D.defs.items():
        if d['kind'] == 'param' and d['name'] == 'self':
            return hirq.strip_refs(d['pat'].get('ty') or '')
    return None


def constructed_state(f, codec):
    """{field: term} for the fields of the codec as its (single) construction site initialises them; ('cell', v) for a lock
    that holds v.  A field the model cannot read is left out (stays symbolic)."""
    sites = []
    for p, h in f.hir.items():
        for n, _c in walk(h['body']):
            if n['k'] == 'Struct' and n.get('def') == codec and n.get('defkind') == 'Struct':
                sites.append((p, n))
    fields = [fl['name'] for v in (f.items.get(codec) or {}).get('variants', []) for fl in v['fields']]
    if not fields:
        return {}, len(sites)
    p, n = anchors.one('construction site of the codec (%s)' % codec, sites)
    B = hirq.Body(f, f.hir[p])
    if n.get('base') is not None:
        return {}, 1          # `..base`: not read
    def value(e, depth=0):
        if depth > 12 or e is None:
            return None
        e = hirq.peel_refs(hirq.resolve_expr(B, e))          # through immutable `let`s
        k = e['k']
        if k == 'Lit':
            return absx.lit(e.get('v'))
        if k == 'Tup':
            vs = [value(x, depth + 1) for x in e['elems']]
            return None if any(v is None for v in vs) else ('tuple', tuple(vs))
        if k == 'Path' and (e.get('defkind') or '').startswith('Ctor') and hirq.short_def(e.get('ctor_of') or e.get('def') or '') == 'None':
            return ('ctor', 'None', ())
        if k in ('Call', 'MethodCall'):
            cal = callee_of(e) or ''
            args = ([e['recv']] if k == 'MethodCall' else []) + list(e['args'])
            inst = e.get('inst') or ''
            if cal in TRANSPARENT and len(args) == 1:
                return value(args[0], depth + 1)          # the pointer is transparent: every access goes through Deref
            if cal in CELLS and len(args) == 1:
                v = value(args[0], depth + 1)
                return None if v is None else ('cell', v)
            if cal == 'core::clone::Clone::clone' and len(args) == 1 and (inst.startswith('<alloc::sync::Arc<') or inst.startswith('<alloc::rc::Rc<')):
                return value(args[0], depth + 1)          # a clone of the pointer is the same cell
        return None
    st = {}
    for fl in n['fields']:
        v = value(fl['e'])
        if v is not None:
            st[fl['name']] = v
    return st, 1


class ConstructedCodec:
    """absx hooks: the codec parameter's fields read as constructed (until stored to), acquiring a cell yields what it holds."""
    def __init__(self, state):
        self.state = state
        self.self_t = ('param', 'self')
    def field(self, base, name, st):
        if base == self.self_t and name in self.state and ('field', base, name) not in st.heap:
            v = self.state[name]
            return v if v[0] != 'cell' else None
        return None
    def __call__(self, I, cal, args, node, st):
        if cal in ACQUIRE and len(args) == 1 and args[0][0] == 'field' and args[0][1] == self.self_t:
            v = self.state.get(args[0][2])
            if v is not None and v[0] == 'cell':
                return [Out('val', ('ctor', 'Ok', (v[1],)), st.event(('call', cal, tuple(args), node)))]
        return None


def same_answer(v, t, pc):
    """is the returned term v the frame decoder's answer t (the call term), possibly taken apart and rebuilt on this path?"""
    if v == t:
        return True
    def known(var):
        for a, tr in pc:
            if a == ('is', t, 'Ok'):
                return tr if var == 'Ok' else not tr
        return None
    if v[0] == 'ctor' and v[1] == 'Ok' and len(v[2]) == 1 and known('Ok') is True:
        p = v[2][0]
        if p == ('variant', t, 'Ok', 0):
            return True
        if p[0] == 'tuple' and p[1] and all(e == ('field', ('variant', t, 'Ok', 0), str(i)) for i, e in enumerate(p[1])):
            # `let (a, b) = t?; Ok((a, b))`: the payload taken apart and put together again, every component in its place (the number
            # of components is the payload's own: the rebuilt value has the payload's type, or the function would not compile)
            return True
        # Ok(Some(x)) / Ok(None) rebuilt from the payload
        pay = ('variant', t, 'Ok', 0)
        if p[0] == 'ctor' and p[1] == 'Some' and len(p[2]) == 1 and p[2][0] == ('variant', pay, 'Some', 0):
            return True
        if p == ('ctor', 'None', ()) and any(a == ('is', pay, 'Some') and not tr for a, tr in pc):
            return True
    if v == ('tryerr', t) and known('Err') is True:
        return True          # `t?` on the failure side: Err(From::from(e)), the identity for the decoder's own error type (it compiles)
    e = v[1] if v[0] == 'tryerr' else v
    if e[0] == 'ctor' and e[1] == 'Err' and len(e[2]) == 1 and known('Err') is True:
        x = e[2][0]
        while x[0] == 'call' and x[1].rsplit('::', 1)[-1] in ('from', 'into') and len(x[2]) == 1:
            x = x[2][0]          # `?` converts with From: the identity for the decoder's own error type (the types agree: it compiles)
        return x == ('variant', t, 'Err', 0)
    return False


def cannot_be_complete(H, pc):
    """does the path condition contradict len(buf) >= true frame length (for the header class H)?  Also true for a dead path."""
    cs = H.constraints(pc)
    g = Lin(0, {'L': 1}).plus(H.true_len(), -1)
    neg = lambda c: c.rng(H.lmin)[1] < 0
    for i, c in enumerate(cs):
        if neg(c) or neg(c.plus(g)):
            return True
        for d in cs[i + 1:]:
            if neg(c.plus(d)) or neg(c.plus(d).plus(g)):
                return True
    return False


def show_bound(c):
    if c.k == {'L': -1}:
        return 'len(buf) <= %d' % c.c
    if c.k == {'L': 1}:
        return 'len(buf) >= %d' % -c.c
    return '%s >= 0' % c.show()


def shortest_frame():
    """the shortest complete element over all header forms, from the reader's frame-length function (not a frozen number)"""
    best = None
    for x in range(256):
        lo = framelen.HeaderClass(None, x).true_len().rng()[0]
        if best is None or lo < best[0]:
            best = (lo, x)
    return best


def check(ctx, f, D, dp, rule, interp_kw=None, id_range=None):
    """Obligations `rule` (one per kind of path) about Decoder::decode `D` (hirq.Body) around the frame decoder `dp`.
    Returns the number of paths that are the frame decoder's answer.
    id_range: (lo, hi) - what the caller's other rules establish about every message ID the frame decoder delivers (the envelope
    trees, rules/envelope.py: an ID is delivered exactly when its element denotes a number within 0 .. maxInt; C01 R1.message-id-exact,
    C11 H8).  A test of the delivered ID that Decoder::decode makes on the way (`.filter(|&(id, _)| id >= 0)`) is decided under it:
    the answer of the composition is judged, wherever the function boundary between the two is drawn."""
    buf_names = [d['name'] for b, d in D.defs.items() if d['kind'] == 'param' and d['name'] != 'self']
    buf = ('param', buf_names[0])
    codec = codec_type(f, D)
    state, nsites = constructed_state(f, codec)
    fields = [fl['name'] for v in (f.items.get(codec) or {}).get('variants', []) for fl in v['fields']]
    where = 'on a connection without a security layer (the codec as constructed: %s) ' % ', '.join('%s = %s' % (k, absx.fmt(v[1] if v[0] == 'cell' else v)) for k, v in sorted(state.items())) if fields else ''
    cc = ConstructedCodec(state)
    def decoder_call(I, cal, args, node, st):
        # the frame decoder's answer (the opaque call term, recorded as every call is) with the bounds of the ID it delivers
        if cal == dp and id_range is not None:
            t = ('call', cal, tuple(args), node.get('id'))
            delivered_id = ('field', ('variant', ('variant', t, 'Ok', 0), 'Some', 0), '0')
            return [Out('val', t, st.event(('call', cal, tuple(args), node)).assume(('range', delivered_id, id_range[0], id_range[1]), True))]
        return None
    smin, sx = shortest_frame()
    n_dec = n_pre = 0
    bad = {}          # message -> [x]
    held = {}         # pre-test condition -> [(x, frame length)] for which a complete element satisfies it
    def touches(o):
        out = []
        for e in o.st.ev:
            if e[0] == 'call' and e[1] != dp and any(a == buf for a in e[2]) and e[1].rsplit('::', 1)[-1] not in OBSERVERS:
                out.append(e[1].rsplit('::', 1)[-1])
            elif e[0] == 'store-unknown':
                out.append('an assignment through %s' % (e[1] if isinstance(e[1], str) else absx.fmt(e[1])[:30]))          # e.g. `buf[0] = ..`: whatever it writes, fails closed
            elif e[0] in ('store', 'update') and absx.leaves(e[1], lambda z: z == buf):
                out.append('a store to %s' % absx.fmt(e[1])[:30])
        return out
    def stores(o):
        """what the path may have changed of the codec: fields assigned; any call that is handed (part of) the codec other than a
        read acquisition of a cell or an observer - `write()` / `lock()` give mutable access, an unknown callee may do anything
        (fails closed: handed over = changed)"""
        rooted = lambda t: absx.leaves(t, lambda z: z == cc.self_t) != []
        return sorted({absx.fmt(k)[:40] for k in o.st.heap if isinstance(k, tuple) and rooted(k)} |
                      {'%s(%s)' % (e[1].rsplit('::', 1)[-1], ', '.join(absx.fmt(a)[:30] for a in e[2] if rooted(a))) for e in o.st.ev
                       if e[0] == 'call' and e[1] != dp and e[1] != ACQUIRE[0] and e[1].rsplit('::', 1)[-1] not in OBSERVERS + ('clone',) and any(rooted(a) for a in e[2])})
    for x in range(256):
        fb = framelen.FramedBuffer(buf, x, None)
        I = framelen.FramedInterp(f, D, summaries=[fb, cc, decoder_call], domain=fb, field_hook=cc.field, combinators=True, unroll=8, **(interp_kw or {}))
        H = framelen.HeaderClass(buf, x)
        for o in I.run():
            if o.kind == 'div':
                continue          # a panic: the panic cone's business (C11 H1)
            if o.kind not in ('val', 'ret'):
                bad.setdefault('a path of Decoder::decode that the evaluation could not finish (%s)' % o.kind, []).append(x); continue
            v = o.val
            dcalls = [e for e in o.st.ev if e[0] == 'call' and e[1] == dp]
            t = touches(o)
            s = stores(o)
            if len(dcalls) == 1 and dcalls[0][2] == (buf,) and same_answer(v, ('call', dp, (buf,), dcalls[0][3].get('id')), o.st.pc):
                if t or s:
                    bad.setdefault('the frame decoder\'s answer is returned, but the path also %s: the buffer / the codec is not as the frame decoder left it' %
                                   ('touches the buffer (%s)' % ', '.join(t) if t else 'stores to the codec (%s)' % ', '.join(s)), []).append(x)
                else:
                    n_dec += 1
                continue
            if v == NEED_MORE and not dcalls:
                if t or s:
                    bad.setdefault('Ok(None) is answered after %s' % ('touching the buffer (%s)' % ', '.join(t) if t else 'storing to the codec (%s)' % ', '.join(s)), []).append(x)
                elif cannot_be_complete(H, o.st.pc):
                    n_pre += 1
                else:
                    cs = [c for c in H.constraints(o.st.pc) if c.k.get('L')]
                    cond = ' and '.join(show_bound(c) for c in cs[:2]) or 'a condition that does not bound len(buf)'
                    held.setdefault(cond, []).append((x, H.true_len().show()))
                continue
            what = 'drops the frame decoder\'s answer and returns %s' % absx.fmt(v)[:60] if dcalls else 'returns %s without asking the frame decoder' % absx.fmt(v)[:60]
            if v == NEED_MORE and len(dcalls) == 1 and dcalls[0][2] == (buf,):
                msg_t = ('variant', ('call', dp, (buf,), dcalls[0][3].get('id')), 'Ok', 0)
                if any(a == ('is', msg_t, 'Some') and tr for a, tr in o.st.pc):
                    # the decoder delivered a message - the frame is complete and has been taken out of the buffer - and decode says Ok(None)
                    tests = [('' if tr else 'not ') + absx.fmt(a)[:60].replace(absx.fmt(('variant', msg_t, 'Some', 0)), 'message') for a, tr in o.st.pc
                             if a[0] not in ('is', 'range') and absx.leaves(a, lambda z: z == msg_t)]
                    what = ('answers Ok(None) although the frame decoder delivered a message%s: the frame is complete and already taken out of the buffer, and to the transport Ok(None) means '
                            '"nothing to decode yet, read the socket first" - the message is neither delivered nor rejected, and complete frames buffered behind it wait for the peer\'s next byte'
                            % (' (when %s)' % ', '.join(tests[:2]) if tests else ''))
            if dcalls and dcalls[0][2] and dcalls[0][2][0] == buf and len(dcalls[0][2]) > 1:
                what = 'hands the frame decoder more than the caller\'s buffer (%s): its answer depends on state kept across calls' % ', '.join(absx.fmt(a)[:40] for a in dcalls[0][2][1:])
            elif dcalls and dcalls[0][2] != (buf,):
                what = 'applies the frame decoder to %s, not to the caller\'s buffer' % (absx.fmt(dcalls[0][2][0])[:50] if dcalls[0][2] else 'nothing')
            bad.setdefault('a path of Decoder::decode %s' % what, []).append(x)
    argument = ('a pre-test may answer Ok(None) only where the frame decoder would, i.e. while the outermost element is incomplete; '
                'the shortest complete element is %d octets (identifier octet, length octet 0x%02x), so `len(buf) < N` is dead code for N <= %d '
                'and holds a complete element back for N > %d' % (smin, sx, smin, smin))
    for cond, xs in held.items():
        bad['Decoder::decode answers Ok(None) itself under a test on the buffer (%s) that a complete element satisfies: e.g. with first length '
            'octet 0x%02x the element is complete from len(buf) >= %s; the frame decoder would deliver or reject it, the pre-test holds it back - '
            'for ever if the peer sends nothing more' % (cond, xs[0][0], xs[0][1])] = [x for x, _l in xs]
    if not bad:
        ctx.ok(rule, D.path, loc(D.root), '%severy path of Decoder::decode is the frame decoder applied to the caller\'s buffer (%d per header class) or a pre-test '
               'under which the frame decoder would answer Ok(None) as well (%d); %s' % (where, n_dec // 256, n_pre // 256, argument))
    for msg, xs in sorted(bad.items(), key=lambda kv: (kv[1][0], kv[0]))[:3]:
        ctx.fail(rule, D.path, loc(D.root), '%s%s (first length octets %s; %s)' % (where, msg, framelen.classes(xs), argument))
    ctx.floor(rule, 'paths of Decoder::decode that are the frame decoder\'s answer (256 header classes)', n_dec, 256)
    return n_dec


def dead(H, pc):
    """the path condition cannot hold for any buffer of header class H (a linear fact it states, or the sum of two, is violated by
    every valuation)"""
    cs = H.constraints(pc)
    for i, c in enumerate(cs):
        if c.rng(H.lmin)[1] < 0 or any(c.plus(d).rng(H.lmin)[1] < 0 for d in cs[i + 1:]):
            return True
    return False


def most_buffered(H, pc):
    """the largest number of buffered octets the path condition allows (None: no upper bound is stated)"""
    best = None
    for c in H.constraints(pc):
        if c.k.get('L', 0) < 0:
            # c >= 0 with c = r - m * len(buf), r over the other atoms: len(buf) <= max(r) / m
            m = -c.k['L']
            hi = Lin(c.c, {a: v for a, v in c.k.items() if a != 'L'}).rng(H.lmin)[1] // m
            best = hi if best is None else min(best, hi)
    return best


def incomplete_answer(v):
    """the returned term is Err(nom::Err::Incomplete(..)) - possibly the failure side of a `?`"""
    while v[0] == 'tryerr':
        v = v[1]
    return v[0] == 'ctor' and v[1] == 'Err' and len(v[2]) == 1 and v[2][0][0] == 'ctor' and v[2][0][1].rsplit('::', 1)[-1] == 'Incomplete'


def check_parser_entry(ctx, f, P, tlv, rule):
    """The streaming entry point `P` (hirq.Body of `Parser::parse`) around the TLV parser `tlv` (def path): the same argument as
    `check` makes for Decoder::decode, one level down.  The body is evaluated once for every value of the first length octet (octet 1
    of the input a literal, every other octet and the number of octets buffered symbolic); every path
      (E1) answers what the TLV parser answers for the caller's input - the term `tlv(input)`, or that term taken apart and rebuilt -
           and then the question "is a short buffer answered with Incomplete?" is the TLV parser's (C07 B1 / B2 / B7, G3.streaming-
           primitives); or
      (E2) answers Err(Incomplete(..)) itself, without asking the TLV parser, on a condition that contradicts
           len(input) >= 1 identifier octet + length octets + announced length: there the TLV parser would ask for more as well, so
           the pre-test changes nothing (which Needed value it names is not read: the frame decoder does not look at it); or
      is a violation: an answer of its own that is not Incomplete (an error, a value) - reported with what the path condition says
      about the number of octets buffered, e.g. "fewer than the n length octets" -, or a pre-test that asks for more although the
      whole element may be buffered (it would be held back for ever).
    However the pre-tests are spelled - is_empty, len comparisons, first() / get(), slice patterns, a match or nested ifs."""
    import sem
    bufs = sem.params_of_type(f, P, lambda ty: ty == '[u8]')
    if len(bufs) != 1:
        ctx.fail('anchor-missing', 'input of the streaming entry point', loc(P.root), 'Parser::parse must take exactly one byte slice')
        return
    buf = ('param', bufs[0])
    n_tlv = n_pre = 0
    bad = {}          # (rule suffix, message) -> [x]
    for x in range(256):
        fb = framelen.FramedBuffer(buf, x, None)
        I = framelen.FramedInterp(f, P, summaries=[fb], domain=fb, combinators=True, unroll=8)
        H = framelen.HeaderClass(buf, x)
        n = x - 128 if x >= 128 else 0
        for o in I.run():
            if o.kind == 'div':
                continue          # a panic: the panic cone's business (C11 H1)
            if o.kind not in ('val', 'ret'):
                bad.setdefault(('short-buffer-is-incomplete', 'a path of the entry point that the evaluation could not finish (%s)' % o.kind), []).append(x); continue
            v = o.val
            tcalls = [e for e in o.st.ev if e[0] == 'call' and e[1] == tlv]
            if len(tcalls) == 1 and tcalls[0][2] == (buf,) and same_answer(v, ('call', tlv, (buf,), tcalls[0][3].get('id')), o.st.pc):
                n_tlv += 1
                continue
            if dead(H, o.st.pc):
                continue
            certainly_short = cannot_be_complete(H, o.st.pc)
            if incomplete_answer(v) and not tcalls:
                if certainly_short:
                    n_pre += 1
                else:
                    cs = [c for c in H.constraints(o.st.pc) if c.k.get('L')]
                    cond = ' and '.join(show_bound(c) for c in cs[:2]).replace('len(buf)', 'len(input)') or 'a condition that does not bound len(input)'
                    bad.setdefault(('pre-test-agrees-with-tlv-parser', 'the entry point answers Incomplete itself under a test (%s) that a completely buffered element satisfies: '
                                    'the TLV parser would deliver or reject it, the pre-test asks for more octets - for ever if the peer sends nothing more' % cond), []).append(x)
                continue
            ans = absx.fmt(v[1] if v[0] == 'tryerr' else v)[:60]
            kind = next((z[1].rsplit('::', 1)[-1] for z in absx.leaves(v, lambda z: z[0] == 'ctor' and z[1].startswith('Err::'))), None)
            how = ('drops the TLV parser\'s answer and answers %s' % ans) if tcalls and tcalls[0][2] == (buf,) else \
                  ('applies the TLV parser to %s, not to the caller\'s input' % (absx.fmt(tcalls[0][2][0])[:40] if tcalls[0][2] else 'nothing')) if tcalls else ('answers %s itself' % (kind or ans))
            top = most_buffered(H, o.st.pc)
            if certainly_short or (top is not None and top < H.true_len().rng(H.lmin)[1]):
                if x >= 128 and top is not None and top < 2 + n:
                    when = 'with fewer than the %d length octets buffered (len(input) <= %d)' % (n, top)
                elif top is not None:
                    when = 'with at most %d octets buffered' % top
                else:
                    when = 'while the element is still incomplete'
                bad.setdefault(('short-buffer-is-incomplete', 'the entry point %s @WHEN@: a frame that has not arrived completely is answered with %s instead of Incomplete (the connection dies '
                                'at a read boundary there) - whenever fewer octets are buffered than identifier octet, length octets and announced content need, the only answer is '
                                'Incomplete, whatever the entry point tests before it hands the input to the TLV parser' % (how, 'an error' if sem.is_err_result(v) else 'something else')), []).append((x, when))
            else:
                bad.setdefault(('pre-test-agrees-with-tlv-parser', 'the entry point %s on a path that does not go through the TLV parser (or drops its answer): what the caller gets is no longer '
                                'what the TLV parser says about the input' % how), []).append(x)
    for sfx in ('short-buffer-is-incomplete', 'pre-test-agrees-with-tlv-parser'):
        msgs = sorted(((m, xs) for (s_, m), xs in bad.items() if s_ == sfx), key=lambda kv: (kv[1][0] if not isinstance(kv[1][0], tuple) else kv[1][0][0], kv[0]))
        if not msgs:
            ctx.ok('%s.%s' % (rule, sfx), P.path, loc(P.root), 'evaluated for all 256 values of the first length octet: every path is the TLV parser applied to the caller\'s input (%d per header class) '
                   'or a pre-test answering Incomplete where the element cannot be complete (%d in all)' % (n_tlv // 256, n_pre))
        for m, xs in msgs[:3]:
            # (one message per kind of answer: the numbers are those of the first header class it occurs in)
            if isinstance(xs[0], tuple):
                m = m.replace('@WHEN@', xs[0][1])
                xs = [x for x, _w in xs]
            x0 = xs[0]
            ctx.fail('%s.%s' % (rule, sfx), P.path, loc(P.root), 'header 30 %02x: %s (evaluated for all 256 values of the first length octet with the other octets and the number of octets buffered symbolic; '
                     'first length octets %s)' % (x0, m, framelen.classes(xs)))
    ctx.floor(rule, 'paths of the entry point that are the TLV parser\'s answer (256 header classes)', n_tlv, 256)
