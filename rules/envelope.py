"""What the frame decoder makes of the element the TLV parser hands it - decided by exact interpretation of the decoder on element
*trees* (shared by C11 H8, C01 R1 and, through a takeover, C03).

The parser's answer is fixed to one tree at a time; the accessors of the tree type (match_class / match_id / expect_*) and the
unsigned reader are inlined; the element vector is tracked exactly (`places`).  Nothing of the decoder's spelling is read: which
child is popped / iterated / pattern-matched in which order, through which helper and under which name is all the same - what
counts is the single thing the decoder answers for the tree.

The trees are RFC 4511 4.1.1 (LDAPMessage ::= SEQUENCE { messageID INTEGER (0 .. maxInt), protocolOp CHOICE { [APPLICATION n] .. },
controls [0] Controls OPTIONAL }) and its single-field mutations.  Three kinds:
  good       a well-formed envelope: it must be delivered under the ID it holds, with the operation element it holds, and with the
             control list `parse_controls` makes of exactly the controls element it holds (no controls element: the empty list; a
             controls element that holds no control: either - the two are equal, C03 T3.empty-list-decodes-to-no-controls);
  bad        not an LDAPMessage: it must be answered with an error - not delivered, not "need more" (the frame is complete), no panic;
  tolerated  a deviation the decoder may accept (a non-minimal encoding of a valid ID; the trailing [10] element of Active
             Directory's Notice of Disconnection, which the decoder documents as ignored): delivered exactly as a good one, or an error.
Where the decoder must not care what an element holds, the tree has a *generic* leaf - a term, not a literal: the tag number and the
content of the protocolOp, the list inside the controls element, the content octets of the message ID.  The decoder then forks
where it does look, every outcome is judged, and what it delivers is judged for every value of the leaf at once (this is what a
finite set of literal trees cannot show, and what the path rule over a symbolic child cursor used to show for one spelling of the
decoder only)."""
import absx, hirq
from facts import loc

ST = 'lber::structure::StructureTag'
PARSE = 'lber::parse::Parser::parse'
PARSE_UINT = 'lber::parse::parse_uint'
PARSE_CONTROLS = 'ldap3::controls_impl::parse_controls'
MAXINT = 2 ** 31 - 1

def prim(cls, id_, octs):
    """a primitive element; octs: bytes, or a term (generic content)"""
    return ('struct', ST, (('class', ('ctor', 'TagClass::' + cls, ())), ('id', ('lit', id_) if isinstance(id_, int) else id_),
                           ('payload', ('ctor', 'PL::P', (('lit', octs) if isinstance(octs, bytes) else octs,)))), None)

def cons(cls, id_, kids):
    """a constructed element; kids: a list of element trees, or a term (generic list)"""
    return ('struct', ST, (('class', ('ctor', 'TagClass::' + cls, ())), ('id', ('lit', id_) if isinstance(id_, int) else id_),
                           ('payload', ('ctor', 'PL::C', (('vec', tuple(kids)) if isinstance(kids, list) else kids,)))), None)

def payload_of(tree):
    return dict(tree[2])['payload']

def kids_of(tree):
    """the children of a constructed element whose children are listed, else ()"""
    pl = payload_of(tree)
    return pl[2][0][1] if pl[0] == 'ctor' and pl[1] == 'PL::C' and pl[2][0][0] == 'vec' else ()

# ---- the leaves
ID = lambda octs=b'\x05': prim('Universal', 2, octs)
OP = cons('Application', 1, [prim('Universal', 10, b'\x00'), prim('Universal', 4, b''), prim('Universal', 4, b'')])      # a BindResponse
X = prim('Universal', 4, b'A')
def control(oid, crit=None, val=None):
    return cons('Universal', 16, [prim('Universal', 4, oid)] + ([prim('Universal', 1, crit)] if crit is not None else []) + ([prim('Universal', 4, val)] if val is not None else []))
CT0 = cons('Context', 0, [])
CT1 = cons('Context', 0, [control(b'1.2.840.113556.1.4.319', None, b'\x30\x05\x02\x01\x00\x04\x00')])
CT2 = cons('Context', 0, [control(b'1.3.6.1.1.13.2', b'\xff', b'\x30\x00'), control(b'2.16.840.1.113730.3.4.2')])
AD10 = prim('Context', 10, b'1.3.6.1.4.1.1466.20036')
# generic leaves (terms): every protocolOp is of class APPLICATION (RFC 4511 4.2 - 4.14); its tag number and content are any
G_OP_ID, G_OP_PL, G_CTRLS, G_ID_OCTETS = ('param', '<protocolOp tag number>'), ('param', '<protocolOp content>'), ('param', '<control list>'), ('param', '<messageID content octets>')
OP_ANY = ('struct', ST, (('class', ('ctor', 'TagClass::Application', ())), ('id', G_OP_ID), ('payload', G_OP_PL)), None)
CT_ANY = cons('Context', 0, G_CTRLS)
ID_ANY = prim('Universal', 2, G_ID_OCTETS)
env = lambda kids, cls='Universal', id_=16: cons(cls, id_, kids)

def id_vectors():
    vecs = [b'', b'\x00', b'\x01', b'\x05', b'\x7f', b'\x80', b'\xff', b'\x00\x80', b'\x00\xff', b'\x01\x00', b'\x7f\xff', b'\x80\x00', b'\xff\xff',
            b'\x00\x80\x00', b'\x01\x00\x00', b'\x7f\xff\xff\xff', b'\x00\x80\x00\x00\x00', b'\x80\x00\x00\x00', b'\x00\xff\xff\xff\xff', b'\x01\x00\x00\x00\x01',
            b'\x00\x00\x00\x01', b'\x00\x00\x00\x00\x00\x00\x00\x02', b'\x01\x00\x00\x00\x00\x00\x00\x02', b'\xff\xff\xff\xff\xff\xff\xff\xff',
            b'\x01\x00\x00\x00\x00\x00\x00\x00\x02', b'\x00\x00\x00\x00\x00\x00\x00\x00\x02', b'\x01' + b'\x00' * 8, b'\x01' + b'\x00' * 11 + b'\x03', b'\x7f' + b'\xff' * 7, b'\x80' + b'\x00' * 7]
    return sorted(set(vecs), key=lambda x: (len(x), x))

def id_case(octets):
    """(kind, number) of the content octets of a messageID element: a two's-complement INTEGER (X.690 8.3: at least one octet, no
    redundant leading octet) that is a MessageID (0 .. maxInt) is good; the same number with redundant leading octets is tolerated
    (delivered under exactly that number, or refused); everything else - no octets, negative, beyond maxInt - is bad"""
    v = int.from_bytes(octets, 'big', signed=True) if octets else None
    if v is None or not (0 <= v <= MAXINT):
        return 'bad', v
    minimal = octets == v.to_bytes(max(1, (v.bit_length() + 8) // 8), 'big', signed=True)
    return ('good' if minimal else 'tolerated'), v

class Case:
    __slots__ = ('name', 'tree', 'kind', 'family', 'want_id', 'op', 'ctl')
    def __init__(self, name, tree, kind, family, want_id=5, op=OP, ctl=None):
        self.name, self.tree, self.kind, self.family, self.want_id, self.op, self.ctl = name, tree, kind, family, want_id, op, ctl

def catalogue():
    """The trees.  family: 'shape' (what is an envelope, which child is what), 'id' (how the content octets of the message ID become
    the number), 'generic' (the same for every operation / control list / ID content)."""
    cs = [Case('id, op', env([ID(), OP]), 'good', 'shape'),
          Case('id, op, controls', env([ID(), OP, CT0]), 'good', 'shape', ctl=CT0),
          Case('id, op, one control', env([ID(), OP, CT1]), 'good', 'shape', ctl=CT1),
          Case('id, op, two controls', env([ID(), OP, CT2]), 'good', 'shape', ctl=CT2),
          Case('id, any operation', env([ID(), OP_ANY]), 'good', 'generic', op=OP_ANY),
          Case('id, any operation, any control list', env([ID(), OP_ANY, CT_ANY]), 'good', 'generic', op=OP_ANY, ctl=CT_ANY),
          Case('any id, op', env([ID_ANY, OP]), 'good', 'generic', want_id=None),
          Case('id, op, the [10] element of Active Directory\'s Notice of Disconnection', env([ID(), OP, AD10]), 'tolerated', 'shape')]
    for octets in id_vectors():
        kind, v = id_case(octets)
        cs.append(Case('message ID %s' % (octets.hex() or 'without content octets'), env([ID(octets), OP]), kind, 'id', want_id=v))
    bad = [('outer element of class %s' % c, env([ID(), OP], cls=c)) for c in ('Application', 'Context', 'Private')] + \
          [('outer element with tag number %d' % n, env([ID(), OP], id_=n)) for n in (17, 0, 2, 30)] + \
          [('primitive outer element', prim('Universal', 16, b'\x02\x01\x05')),
           ('no elements', env([])), ('message ID only', env([ID()])), ('operation only', env([OP])), ('operation and controls only', env([OP, CT1])),
           ('an OCTET STRING in front of the message ID', env([X, ID(), OP])), ('an OCTET STRING in front of the message ID, with controls', env([X, ID(), OP, CT0])),
           ('a second INTEGER in front of the message ID', env([ID(b'\x07'), ID(), OP])),
           ('message ID after the operation', env([OP, ID()])),
           ('message ID of class Context', env([prim('Context', 2, b'\x05'), OP])), ('message ID of class Application', env([prim('Application', 2, b'\x05'), OP])),
           ('message ID tagged ENUMERATED', env([prim('Universal', 10, b'\x05'), OP])), ('message ID tagged OCTET STRING', env([prim('Universal', 4, b'\x05'), OP])),
           ('constructed message ID', env([cons('Universal', 2, []), OP])),
           ('primitive controls element', env([ID(), OP, prim('Context', 0, b'')])), ('primitive controls element with content', env([ID(), OP, prim('Context', 0, b'\x30\x00')])),
           ('a second controls element', env([ID(), OP, CT1, CT0])), ('a second, empty controls element in front of the controls', env([ID(), OP, CT0, CT1])),
           ('controls element in front of the operation', env([ID(), CT1, OP])),
           ('an OCTET STRING after the operation', env([ID(), OP, X])), ('a [1] element after the operation', env([ID(), OP, cons('Context', 1, [])])),
           ('an element after the controls', env([ID(), OP, CT1, X]))]
    cs += [Case(n, t, 'bad', 'shape') for n, t in bad]
    return cs

class Outcome:
    __slots__ = ('kind', 'id', 'op', 'ctrls', 'pc', 'note', 'ev')
    def __init__(self, kind, pc=(), note='', id_=None, op=None, ctrls=None, ev=()):
        self.kind, self.pc, self.note, self.id, self.op, self.ctrls, self.ev = kind, pc, note, id_, op, ctrls, ev

class Decoder:
    """The frame decoder (a hirq.Body) as a function of the tree."""
    def __init__(self, f, B):
        self.f, self.B = f, B
        self.inl = lambda c: c.startswith('lber::structure::') or c.startswith('<lber::structure::') or c.startswith('lber::common::') or c == PARSE_UINT
        self.cache = {}

    def decide(self, tree):
        """every outcome of the decoder on the tree (one, unless the tree has a generic leaf the decoder looks at)"""
        if tree in self.cache:
            return self.cache[tree]
        def summary(I, cal, args, node, st):
            if cal == PARSE:
                return [absx.Out('val', ('ctor', 'Ok', (('tuple', (('lit', b''), tree)),)), st)]
            if cal == PARSE_UINT and args and not (args[0][0] == 'lit' and isinstance(args[0][1], bytes)):
                # the unsigned reader applied to octets that are not known: its answer is a function of exactly its argument (the
                # reader itself is decided by C07 check_parse_uint)
                return [absx.Out('val', ('call', cal, tuple(args), None), st)]
            return None
        I = absx.Interp(self.f, self.B, summaries=[summary], unroll=8, inline=self.inl, combinators=True, places=True, local_try=True)
        I.exact_seqs = True
        I.cast_ranges = True          # (a test of the delivered RequestId - `msgid >= 0` in a wrapper - is decided from the range test the ID was narrowed under)
        outs = []
        for o in I.run():
            if o.kind not in ('val', 'ret', 'div', 'loop'):
                outs.append(Outcome('?', o.st.pc, 'left by %s' % o.kind)); continue
            if o.kind == 'div':
                outs.append(Outcome('panic', o.st.pc, ev=o.st.ev)); continue
            if o.kind == 'loop':
                outs.append(Outcome('?', o.st.pc, 'a loop the interpretation did not finish')); continue
            v = o.val
            while v[0] == 'tryerr':
                v = ('ctor', 'Err', (v[1],)) if not (v[1][0] == 'ctor' and v[1][1] == 'Err') else v[1]
            if v[0] == 'ctor' and v[1] == 'Err':
                outs.append(Outcome('error', o.st.pc, ev=o.st.ev))
            elif v == ('ctor', 'Ok', (('ctor', 'None', ()),)):
                outs.append(Outcome('need-more', o.st.pc, ev=o.st.ev))
            elif v[0] == 'ctor' and v[1] == 'Ok' and len(v[2]) == 1 and v[2][0][0] == 'ctor' and v[2][0][1] == 'Some' and v[2][0][2][0][0] == 'tuple' \
                    and len(v[2][0][2][0][1]) == 2 and v[2][0][2][0][1][1][0] == 'tuple' and len(v[2][0][2][0][1][1][1]) == 2:
                idt, rest = v[2][0][2][0][1]
                opt, ctrls = rest[1]
                wrapped = opt[0] == 'ctor' and opt[1] == 'Tag::StructureTag' and len(opt[2]) == 1
                outs.append(Outcome('delivered', o.st.pc, '' if wrapped else 'the operation is not handed on as Tag::StructureTag', idt, opt[2][0] if wrapped else opt, ctrls, o.st.ev))
            else:
                outs.append(Outcome('?', o.st.pc, 'answers %s' % absx.fmt(v)[:60], ev=o.st.ev))
        if not outs:
            outs = [Outcome('?', (), 'no outcome')]
        self.cache[tree] = outs
        return outs

def list_is_empty(pc, lst):
    """the path condition says that the list term holds no element (however the test was written: is_empty, len() == 0, len() < 1)"""
    if lst[0] == 'vec':
        return not lst[1]
    fl = absx.length_facts(pc, lst)
    return fl is not None and fl[1] == 0

def bounded_above(pc, x, limit):
    """the path condition holds comparisons of x with literals that imply x <= limit (x <= n, x < n + 1, not x > n, x == n, n >= x ..)"""
    hi = absx.St(pc=pc).tested_bounds(x)[1]
    return hi is not None and hi <= limit

def generic_id_ok(o):
    """The ID delivered for a messageID element whose content octets are *any*: the unsigned reader applied to exactly those octets -
    all of them, nothing cut off, nothing put in front -, narrowed to the 32-bit RequestId only under a range test (on this very
    path) that keeps it within 0 .. maxInt, or by a checked conversion that succeeded; or a number written out in the decoder on a
    path whose condition says that the reader's value *is* that number (what must hold is that the delivered ID equals the number
    the element denotes, not how it is spelled).  (That the reader reads an unsigned number
    exactly is C07's check_parse_uint; that the octets are non-negative and at most eight is what the literal ID trees decide.)"""
    t = o.id
    want = ('field', ('variant', ('call', PARSE_UINT, (G_ID_OCTETS,), None), 'Ok', 0), '1')
    if t[0] == 'cast' and t[1][0] == 'lit':
        t = t[1]          # (a literal of another integer type: `0u8 as i32`; ev_Cast has evaluated a cast that changes the value)
    if t[0] == 'lit' and isinstance(t[1], int) and not isinstance(t[1], bool):
        # a number written out in the decoder: it is the ID the element denotes exactly on a path whose condition says that the
        # reader's value of the content octets equals that very number (`Ok((_, 0)) => .. Some((0, ..))`); what has to hold is
        # that the delivered ID equals the number, not that it is spelled as the reader's result
        if 0 <= t[1] <= MAXINT and absx.St(pc=o.pc).tested_bounds(want) == (t[1], t[1]):
            return True, ''
        return False, ('the message ID delivered is the number %d written out in the decoder, on a path whose condition does not say that the content octets '
                       'of the messageID element denote %d' % (t[1], t[1]))
    if t[0] == 'cast':
        if not bounded_above(o.pc, t[1], MAXINT):
            return False, ('the decoded message ID is narrowed to the 32-bit RequestId by a truncating cast without a range test: a response sent under an ID '
                           'wider than 31 bits (e.g. 2^32+1) is routed to the operation whose ID its low bits spell (1)')
        t = t[1]
    elif t[0] == 'variant' and t[2] == 'Ok' and t[1][0] == 'call' and t[1][1].endswith('::try_from') and len(t[1][2]) == 1:
        t = t[1][2][0]
    if t != want:
        return False, 'the message ID is not the unsigned reader\'s value of the whole content of the messageID element: %s' % absx.fmt(o.id)[:120]
    return True, ''

def consumed(o):
    """the calls on this outcome's path that remove octets from a buffer (names; the buffer-mutating methods C06 G1 lists)"""
    from props.C06 import MUTATORS
    return [e[1].rsplit('::', 1)[-1] for e in o.ev if e[0] == 'call' and e[1].rsplit('::', 1)[-1] in MUTATORS and e[1].startswith(('bytes::', '<bytes::'))]

def judge(case, outs):
    """(ok, what is wrong) for the outcomes of one tree"""
    wrong = []
    kids = kids_of(case.tree)
    def called(t):
        if t == case.op:
            return 'the operation element'
        if case.ctl is not None and t == case.ctl:
            return 'the controls element'
        if kids and t == kids[0]:
            return 'the message ID element'
        return absx.fmt(t)[:50]
    for o in outs:
        tests = [(a, t) for a, t in o.pc if a[0] != 'range' and absx.leaves(a, lambda x: x[0] == 'param')]          # (what the decoder tested of the generic leaves)
        # (the last tests are the ones that tell this outcome from its neighbours: the earlier ones are shared with them)
        cond = (' when ' + ('.. ' if len(tests) > 3 else '') + ', '.join(('' if t else 'not ') + absx.fmt(a)[:70] for a, t in tests[-3:])[:220]) if tests else ''
        if o.kind == 'error':
            if case.kind == 'good' and not (case.want_id is None):
                wrong.append('answered with a decoding error%s' % cond)
            continue
        if o.kind == 'need-more':
            # Ok(None) for a frame the parser has handed over whole: to tokio_util's Framed it means "no complete frame is buffered,
            # read the socket first" - the message is dropped without a word and complete frames already buffered behind it are not
            # looked at until the peer sends another byte (or closes)
            took = consumed(o)
            wrong.append('answered "need more" (Ok(None)) although the frame is complete%s%s: the transport takes that for "nothing to decode yet" and reads the socket before it '
                         'decodes again - the message is neither delivered nor rejected, and complete frames buffered behind it wait for the peer\'s next byte' % (
                             ' - and after it was taken out of the buffer (%s)' % ', '.join(took) if took else '', cond))
            continue
        if o.kind != 'delivered':
            wrong.append({'panic': 'a panic'}.get(o.kind, 'not decided (%s)' % o.note) + cond)
            continue
        if case.kind == 'bad':
            wrong.append('delivered - as message ID %s%s' % (absx.fmt(o.id)[:20], cond))
            continue
        parts = []
        if o.note:
            parts.append(o.note)
        if case.want_id is None:
            ok_id, why = generic_id_ok(o)
            if not ok_id:
                parts.append(why)
        elif o.id not in (('lit', case.want_id), ('cast', ('lit', case.want_id), 'i32')):
            parts.append('under the message ID %s, not %d' % (absx.fmt(o.id)[:24], case.want_id))
        if o.op != case.op:
            parts.append('with %s as the operation, not the protocolOp element' % called(o.op))
        if case.ctl is None:
            if o.ctrls != ('vec', ()):
                parts.append('with the controls %s although the message holds no controls element' % absx.fmt(o.ctrls)[:60])
        else:
            lst = payload_of(case.ctl)[2][0]
            decoded = o.ctrls[0] == 'call' and o.ctrls[1] == PARSE_CONTROLS and tuple(o.ctrls[2]) == (case.ctl,)
            if not decoded and not (o.ctrls == ('vec', ()) and list_is_empty(o.pc, lst)):
                parts.append('with the controls %s, not what parse_controls makes of the controls element of the message%s' % (
                    'left empty' if o.ctrls == ('vec', ()) else ('parse_controls makes of %s' % called(o.ctrls[2][0])) if o.ctrls[0] == 'call' and o.ctrls[1] == PARSE_CONTROLS and len(o.ctrls[2]) == 1
                    else absx.fmt(o.ctrls)[:60], ' (which holds controls)' if lst[0] != 'vec' or lst[1] else ''))
        if parts:
            wrong.append('delivered ' + '; '.join(parts) + cond)
    if case.kind == 'good' and case.want_id is None and not any(o.kind == 'delivered' for o in outs):
        wrong.append('never delivered, whatever the content octets of the message ID')
    return not wrong, '; '.join(wrong)

def guard_of_control_decoder(outs):
    """every call of the control-list decoder on these outcomes was handed a constructed element (its `expect_constructed().expect(..)`
    is reviewed as infeasible in the panic cone on that ground)"""
    bad = []
    for o in outs:
        for e in o.ev:
            if e[0] == 'call' and e[1] == PARSE_CONTROLS:
                a = e[2][0] if e[2] else ('unk',)
                pl = dict(a[2]).get('payload') if a[0] == 'struct' else None
                if not (pl is not None and pl[0] == 'ctor' and pl[1] == 'PL::C'):
                    bad.append(absx.fmt(a)[:60])
    return bad

def check(ctx, f, dp, rules, families=('shape', 'id', 'generic'), floor=40):
    """rules: the rule name per kind of tree {'good': .., 'bad': .., 'tolerated': ..}; optional: 'id' (the trees of the 'id' family under a
    rule of their own), 'generic-id' (the tree whose ID content is any), 'guard' (every call of the control-list decoder met on the
    way was handed a constructed element)"""
    B = hirq.Body(f, f.hir[dp])
    D = Decoder(f, B)
    n = 0
    unguarded = []
    for c in catalogue():
        if c.family not in families:
            continue
        n += 1
        outs = D.decide(c.tree)
        ok, why = judge(c, outs)
        unguarded += guard_of_control_decoder(outs)
        rule = rules['id'] if c.family == 'id' and 'id' in rules else rules['generic-id'] if c.want_id is None and 'generic-id' in rules else rules[c.kind]
        if c.kind == 'good':
            msg = 'a well-formed LDAPMessage (%s) is not delivered under the message ID%s it holds, with the operation element and the controls it holds: %s' % (
                c.name, '' if c.want_id is None else ' %d' % c.want_id, why)
        elif c.kind == 'bad':
            msg = 'an element that is not a well-formed LDAPMessage envelope (%s) must end the connection with a decoding error - no operation is handed it; the frame decoder answers: %s' % (c.name, why)
        else:
            msg = 'an envelope the decoder may accept or refuse (%s) is, when accepted, not delivered under the message ID %d with the operation element it holds and no controls: %s' % (c.name, c.want_id, why)
        ctx.add(rule, c.name, loc(B.root), ok, msg)
    if 'guard' in rules:
        ctx.add(rules['guard'], 'parse_controls', loc(B.root), not unguarded,
                'the control-list decoder is handed an element that is not constructed (%s): its expect_constructed().expect(..) panics the driver' % ', '.join(sorted(set(unguarded))[:3]))
    ctx.floor(rules['good'].split('.')[0], 'envelope trees the frame decoder was interpreted on', n, floor)
    return D
