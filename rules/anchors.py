"""Role-based anchors of the connection machinery (DESIGN.md section 4, "Anchoring principle").

Private items are found by their role in the resolved program (types of fields, channels they
touch), never by name or position, so that renaming or moving them raises no alarm.  A role that
resolves to zero or several candidates raises AnchorMissing (the check fails closed)."""
from facts import walk, callee_of, call_args, AnchorMissing
import hirq

T_CTRLS = 'alloc::vec::Vec<ldap3::controls_impl::Control>'
T_RESULT_PAYLOAD = '(lber::structures::Tag, %s)' % T_CTRLS
T_ITEM_PAYLOAD = '(ldap3::search::SearchItem, %s)' % T_CTRLS
T_RESULT_SENDER = 'tokio::sync::oneshot::Sender<%s>' % T_RESULT_PAYLOAD
T_ITEM_SENDER = 'tokio::sync::mpsc::unbounded::UnboundedSender<%s>' % T_ITEM_PAYLOAD
T_ITEM_RECEIVER = 'tokio::sync::mpsc::unbounded::UnboundedReceiver<%s>' % T_ITEM_PAYLOAD
T_RESULTMAP = 'std::collections::hash::map::HashMap<i32, %s>' % T_RESULT_SENDER
T_SEARCHMAP = 'std::collections::hash::map::HashMap<i32, %s>' % T_ITEM_SENDER
T_IDSET = 'std::collections::hash::set::HashSet<i32>'
T_IDPAIR = '(i32, %s)' % T_IDSET
T_IDTABLE = 'alloc::sync::Arc<std::sync::poison::mutex::Mutex<%s>>' % T_IDPAIR
T_IDGUARD_PREFIX = 'std::sync::poison::mutex::MutexGuard<'
T_REQ_TUPLE = '(i32, ldap3::protocol::LdapOp, lber::structures::Tag, core::option::Option<alloc::vec::Vec<ldap3::controls_impl::RawControl>>, %s)' % T_RESULT_SENDER
T_REQ_SENDER = 'tokio::sync::mpsc::unbounded::UnboundedSender<%s>' % T_REQ_TUPLE
T_REQ_RECEIVER = 'tokio::sync::mpsc::unbounded::UnboundedReceiver<%s>' % T_REQ_TUPLE
T_SCRUB_SENDER = 'tokio::sync::mpsc::unbounded::UnboundedSender<i32>'
T_SCRUB_RECEIVER = 'tokio::sync::mpsc::unbounded::UnboundedReceiver<i32>'
T_OPT = 'core::option::Option<%s>'
T_DECODED = '(i32, (lber::structures::Tag, %s))' % T_CTRLS

def is_idguard(t):
    t = hirq.strip_refs(t or '')
    return t.startswith(T_IDGUARD_PREFIX) and t.endswith(T_IDPAIR + '>')

def struct_fields_of_type(facts, ty):
    out = []
    for it in facts.items.values():
        if it.get('kind') == 'Struct':
            for v in it['variants']:
                for f in v['fields']:
                    if f['ty'] == ty:
                        out.append((it['path'], f['name']))
    return out

def one(what, xs):
    xs = list(xs)
    if len(xs) != 1:
        raise AnchorMissing('%s: expected exactly one candidate, found %d (%s)' % (what, len(xs), ', '.join(map(str, xs))[:300]))
    return xs[0]

def resolve_item_channel(facts):
    """The per-search item channel, by role: the search routing map is the struct field of type HashMap<RequestId, S<P>> with P the
    item payload (SearchItem, Vec<Control>) - S is whatever sender the program uses for it (tokio's unbounded sender today; how the
    alias that names it is spelled, or which mpsc flavour it resolves to, is not part of the role).  The type strings that other
    rules compare with (T_ITEM_SENDER, T_SEARCHMAP, T_ITEM_RECEIVER) are re-derived from the analysed program on every run."""
    global T_ITEM_SENDER, T_SEARCHMAP, T_ITEM_RECEIVER
    pre, suf = 'std::collections::hash::map::HashMap<i32, ', '<%s>>' % T_ITEM_PAYLOAD
    vals = set()
    for it in facts.items.values():
        if it.get('kind') == 'Struct':
            for v in it['variants']:
                for f in v['fields']:
                    t = f['ty']
                    if t.startswith(pre) and t.endswith(suf) and ',' not in t[len(pre):-len(suf)] and '<' not in t[len(pre):-len(suf)]:
                        vals.add(t[len(pre):-1])
    sender = one('item sender type (value type of the search routing map HashMap<RequestId, S<(SearchItem, Vec<Control>)>>)', vals)
    T_ITEM_SENDER = sender
    T_SEARCHMAP = pre + sender + '>'
    head = sender[:-len('<%s>' % T_ITEM_PAYLOAD)]
    T_ITEM_RECEIVER = (head[:-len('Sender')] + 'Receiver' if head.endswith('Sender') else head) + '<%s>' % T_ITEM_PAYLOAD

class Conn:
    """Resolved anchors of the driver / handle pair."""
    def __init__(self, facts):
        self.facts = facts
        resolve_item_channel(facts)
        # the driver struct: has both routing maps
        rm = struct_fields_of_type(facts, T_RESULTMAP)
        sm = struct_fields_of_type(facts, T_SEARCHMAP)
        self.driver_struct, self.resultmap = one('result routing map field (HashMap<RequestId, ResultSender>)', rm)
        ds2, self.searchmap = one('search routing map field (HashMap<RequestId, ItemSender>)', sm)
        if ds2 != self.driver_struct:
            raise AnchorMissing('routing maps live in different structs')
        idt = struct_fields_of_type(facts, T_IDTABLE)
        self.idtable_fields = idt
        if not any(s == self.driver_struct for s, _ in idt):
            raise AnchorMissing('driver struct has no ID table field')
        self.handle_struct = one('handle struct (ID table + request sender)',
                                 {s for s, _ in idt if s != self.driver_struct})
        # driver loop: the body with a select! arm over the request channel
        cands = []
        for path, h in facts.hir.items():
            arms = hirq.select_arms(h['body'])
            if any(a['ty'] == T_OPT % T_REQ_TUPLE for a in arms):
                cands.append((path, arms))
        self.loop_path, arms = one('driver loop (select! over the request channel)', cands)
        self.loop = hirq.Body(facts, facts.hir[self.loop_path])
        self.arms = {}
        for a in arms:
            t = a['ty']
            if t == T_OPT % T_REQ_TUPLE:
                self.arms['request'] = a
            elif t == T_OPT % 'i32':
                self.arms['scrub'] = a
            elif t == T_OPT % ('core::result::Result<%s, std::io::error::Error>' % T_DECODED):
                self.arms['response'] = a
            elif t == T_OPT % 'ldap3::protocol::MiscSender':
                self.arms['misc'] = a
            else:
                self.arms.setdefault('other', []).append(a)
        for r in ('request', 'scrub', 'response'):
            if r not in self.arms:
                raise AnchorMissing('driver loop arm: ' + r)
        # op_call: the unique body that sends on the request channel
        senders = []
        for path, h in facts.hir.items():
            for n, ctx in walk(h['body']):
                if n['k'] == 'MethodCall' and (callee_of(n) or '').endswith('UnboundedSender::<T>::send') \
                        and hirq.strip_refs(n['recv'].get('ty', '')) == T_REQ_SENDER:
                    senders.append(path)
        self.op_call_path = one('operation issue point (send on the request channel)', set(senders))
        self.op_call = hirq.Body(facts, facts.hir[self.op_call_path])
        # allocator: the unique body that inserts into the in-use set
        ins = []
        for path, h in facts.hir.items():
            for n, ctx in walk(h['body']):
                if n['k'] == 'MethodCall' and (callee_of(n) or '').endswith('HashSet::<T, S, A>::insert') \
                        and self.is_idset_place(n['recv']):
                    ins.append(path)
        self.alloc_path = one('ID allocator (insert into the in-use set)', set(ins))
        self.alloc = hirq.Body(facts, facts.hir[self.alloc_path])

    def is_idset_place(self, e):
        """e denotes the in-use set: `<guard>.1` where guard locks the ID table, or any place of the set's type (there is one
        HashSet<RequestId> in the program: a destructured `ref mut in_use` is the same set)."""
        e = peel(e)
        if e['k'] == 'Field' and e['name'] == '1' and is_idguard(peel(e['e']).get('ty')):
            return True
        return hirq.strip_refs(e.get('ty') or '') == T_IDSET

    def is_counter_place(self, e, B=None, depth=0):
        """e denotes the ID counter: component 0 of the locked ID table - `<guard>.0`, `(*guard).0`, `p.0` with p a reference to
        the (RequestId, HashSet<RequestId>) pair - or, when the body index B is given, a local that a pattern or a plain `let`
        bound to that place (`let (last, set) = &mut *guard;`, `let r = &mut guard.0;`): an alias is the place it names."""
        e = peel(e)
        if e['k'] == 'Field' and e['name'] == '0':
            bt = hirq.strip_refs(peel(e['e']).get('ty') or '')
            return is_idguard(bt) or bt == T_IDPAIR
        if B is not None and depth < 8 and e['k'] == 'Path' and e.get('res') == 'local' and (e.get('ty') or '').startswith('&'):
            d = B.defs.get(e['bind'])
            if d is None or d.get('src') is None:
                return False
            src = peel(d['src'])
            st = hirq.strip_refs(src.get('ty') or '')
            pr = tuple(p for p in d['proj'])
            if pr == (('tup', 0),) and (is_idguard(st) or st == T_IDPAIR):
                return True
            if pr == ():
                return self.is_counter_place(src, B, depth + 1)
            if pr and pr[-1] == ('tup', 0) and hirq.strip_refs(e.get('ty') or '') == 'i32' and T_IDPAIR in st:
                return True         # taken out of a larger pattern that contains the pair: read as the counter (fails closed)
        return False

    def is_map_place(self, e, which):
        """e is `<driver>.resultmap` / `.searchmap` (by field type)."""
        e = peel(e)
        want = T_RESULTMAP if which == 'result' else T_SEARCHMAP
        return e['k'] == 'Field' and hirq.strip_refs(e.get('ty', '')) == want

def peel(e):
    while True:
        if e['k'] == 'AddrOf':
            e = e['e']
        elif e['k'] == 'Unary' and e.get('op') == 'Deref':
            e = e['e']
        else:
            return e

def method_calls(root, suffix, recv_pred=None):
    out = []
    for n, ctx in walk(root):
        if n['k'] == 'MethodCall' and (callee_of(n) or '').endswith(suffix):
            if recv_pred is None or recv_pred(n['recv']):
                out.append((n, ctx))
    return out


class ConnSettings:
    """Role anchors of the connection settings struct (public, anchored by def-path).  Its fields are private: each is found as
    *the field its public setter sets*, never by name.  A setter - a public `fn(Self, T) -> Self` of the struct - is read by
    evaluating it: on every path the settings value it returns is taken apart into one term per field of the struct, over the
    parameters (`effects`).  How the value is put together is not read: `mut self` + assignment + `self`, the struct-update forms
    `LdapConnSettings { f: v, ..self }` / `Self { f, ..self }`, a local copy that is modified and returned all give the same terms
    (a base `..Default::default()` is followed into the Default impl, derived or hand-written).
      * the setter's own field is the one whose resulting value depends on the argument: for a value `v` the field that receives
        it, for a bool the field that differs between `set_x(true)` and `set_x(false)` (both evaluated exactly: the whole domain);
        for a bool request the polarity is read off the same two runs: `stored[v]` is what the field holds after `set_x(v)`;
      * every other field is expected to be `self`'s own (identity); the ones that are not are recorded in `effects[p]['resets']`
        and judged by C18 U6 (a setter that silently drops settings made before it in the builder chain).

      role            setter (public API)                 field holds
      verify-off      set_no_tls_verify(bool)             stored[true] when verification was explicitly disabled
      starttls        set_starttls(bool)                  stored[true] when StartTLS was requested
      connector       set_connector(c) / set_config(c)    Some(c): the caller's own TLS connector / configuration
      std-stream      set_std_stream(s)                   Some(s): a pre-opened stream
      conn-timeout    set_conn_timeout(d)                 Some(d)
    A setter of the table whose own field cannot be determined (its argument reaches no field, or several, or the result is not a
    settings value the interpreter can take apart) raises AnchorMissing; any other setter that cannot be read is left to U6."""
    ST = 'ldap3::conn::LdapConnSettings'
    BOOL = {'verify-off': ('set_no_tls_verify',), 'starttls': ('set_starttls',)}
    OPT = {'connector': ('set_connector', 'set_config'), 'std-stream': ('set_std_stream',), 'conn-timeout': ('set_conn_timeout',)}
    SELF = ('param', 'self')

    def __init__(self, facts):
        self.facts = facts
        it = facts.items.get(self.ST)
        if it is None or it.get('kind') != 'Struct':
            raise AnchorMissing('connection settings struct ' + self.ST)
        self.fields = {fl['name']: fl['ty'] for v in it['variants'] for fl in v['fields']}
        self.field = {}      # role -> field name
        self.stored = {}     # bool role -> {True: term, False: term}
        self.setter = {}     # role -> def path of the setter that resolved it
        self.effects = {}    # setter def path -> {'own': field, 'resets': {other field: term it ends up with}} | {'unreadable': why}
        roles = {'%s::%s' % (self.ST, nm): role for role, names in list(self.BOOL.items()) + list(self.OPT.items()) for nm in names}
        for p in self.setters():
            role = roles.get(p)
            try:
                eff = self.read_setter(p, role in self.BOOL or (role is None and (facts.items[p].get('inputs') or [None, None])[1] == 'bool'))
            except AnchorMissing as e:
                if role is not None:
                    raise
                self.effects[p] = {'unreadable': str(e)}
                continue
            self.effects[p] = eff
            if role is None:
                continue
            fname = eff['own']
            if role in self.field and self.field[role] != fname:
                if role == 'connector':
                    # both TLS back ends compiled in at once is not a supported configuration of the crate
                    raise AnchorMissing('two caller-supplied connector fields')
                raise AnchorMissing('%s: the field written depends on the argument' % p)
            if role in self.OPT:
                want = ('ctor', 'Some', (('param', eff['arg']),))
                if any(v != want for v in eff['values']):
                    raise AnchorMissing('%s does not store Some(<its argument>)' % p)
            else:
                self.stored[role] = eff['stored']
            self.field.setdefault(role, fname)
            self.setter.setdefault(role, p)

    def setters(self):
        """the builder methods, by signature: public `fn(LdapConnSettings, T) -> LdapConnSettings` of the struct's own impl"""
        out = []
        for p, it in self.facts.items.items():
            if it.get('kind') == 'AssocFn' and it.get('impl_self') == self.ST and not it.get('impl_trait') and it.get('vis') == 'pub' \
                    and (it.get('inputs') or []) [:1] == [self.ST] and len(it['inputs']) == 2 and it.get('output') == self.ST and p in self.facts.hir:
                out.append(p)
        return sorted(out)

    def result_fields(self, p, val=None):
        """[{field: term}] - one entry per returning path of setter p, the argument symbolic (val None) or the literal val"""
        import absx, sem
        B = hirq.Body(self.facts, self.facts.body(p))
        args = [(b, d) for b, d in B.defs.items() if d['kind'] == 'param' and d['idx'] == 1 and not d['proj']]
        selfs = [(b, d) for b, d in B.defs.items() if d['kind'] == 'param' and d['idx'] == 0 and not d['proj']]
        if len(args) != 1 or len(selfs) != 1:
            raise AnchorMissing('%s: expected (self, value)' % p)
        I = absx.Interp(self.facts, B, combinators=True, summaries=[sem.primitive_defaults], inline=lambda c: c.endswith('core::default::Default>::default'))
        env = I.param_env()
        env[selfs[0][0]] = self.SELF
        if val is not None:
            env[args[0][0]] = ('lit', val)
        short = hirq.short_def(self.ST)
        paths = []
        for o in I.run(env=env):
            if o.kind == 'div':
                continue
            v = o.val
            if o.kind not in ('val', 'ret') or not (v == self.SELF or (v[0] == 'struct' and v[1] == short)):
                raise AnchorMissing('%s does not return a settings value that can be taken apart field by field (%s)' % (p, absx.fmt(v)[:60]))
            got = {}
            for F in self.fields:
                t = absx.field_term(v, F) if v[0] == 'struct' else ('field', v, F)
                if t[0] == 'field' and t in o.st.heap:
                    t = o.st.heap[t]              # (a store to self.F made before self became the base of the returned value)
                got[F] = t
            paths.append(got)
        if not paths:
            raise AnchorMissing('%s never returns' % p)
        return paths, args[0][1]['name']

    def read_setter(self, p, is_bool):
        import absx
        ident = lambda F: ('field', self.SELF, F)
        if is_bool:
            runs = {}
            for val in (True, False):
                paths, arg = self.result_fields(p, val)
                if any(q != paths[0] for q in paths[1:]):
                    raise AnchorMissing('%s: the field written depends on the path' % p)
                runs[val] = paths[0]
            own = [F for F in self.fields if runs[True][F] != runs[False][F]]
            if not own:
                # the argument changes nothing: the field the setter writes all the same (the polarity test then fails on it)
                own = [F for F in self.fields if runs[True][F] != ident(F) and runs[True][F][0] == 'lit']
            allp = [runs[True], runs[False]]
        else:
            allp, arg = self.result_fields(p)
            A = ('param', arg)
            own = sorted({F for q in allp for F in self.fields if absx.leaves(q[F], lambda x: x == A)})
            if any(not absx.leaves(q[F], lambda x: x == A) for q in allp for F in own):
                raise AnchorMissing('%s: the field written depends on the path' % p)
        if len(own) != 1:
            raise AnchorMissing('%s does not return `self` with exactly one field set from its argument (%s)' % (p, sorted(own)))
        own = own[0]
        resets = {}
        for q in allp:
            for F in self.fields:
                if F != own and q[F] != ident(F):
                    resets.setdefault(F, q[F])
        eff = {'own': own, 'resets': resets, 'arg': arg, 'values': [q[own] for q in allp]}
        if is_bool:
            eff['stored'] = {v: runs[v][own] for v in (True, False)}
        return eff

    def role_of_field(self, F):
        return next((r for r, x in self.field.items() if x == F), None)

    def polarity_ok(self, role):
        """the setter records the request: what it stores for `true` and for `false` are the two distinct boolean constants"""
        s = self.stored.get(role)
        return s is not None and {s[True], s[False]} == {('lit', True), ('lit', False)}

    def requested(self, role, truth):
        """Given the truth value a path found for the role's field: was the request made (set_x(true))?"""
        return ('lit', truth) == self.stored[role][True]
