"""Role-based anchors of the connection machinery (DESIGN.md section 4, "Anchoring principle").

Private items are found by their role in the resolved program (types of fields, channels they
touch), never by name or position, so that renaming or moving them raises no alarm.  A role that
resolves to zero or several candidates raises AnchorMissing (the check fails closed)."""
from facts import walk, callee_of, call_args, AnchorMissing
import hirq

T_CTRLS = 'alloc::vec::Vec<ldap3::controls_impl::Control>'
T_RESULT_PAYLOAD = '(lber::structures::Tag, %s)' % T_CTRLS
T_ITEM_PAYLOAD = '(ldap3::search::SearchItem, %s)' % T_CTRLS
T_RESULT_SENDER = 'tokio::sync::oneshot::Sender<%s>' % T_RESULT_PAYLOAD
T_ITEM_SENDER = 'tokio::sync::mpsc::unbounded::UnboundedSender<%s>' % T_ITEM_PAYLOAD
T_ITEM_RECEIVER = 'tokio::sync::mpsc::unbounded::UnboundedReceiver<%s>' % T_ITEM_PAYLOAD
T_RESULTMAP = 'std::collections::hash::map::HashMap<i32, %s>' % T_RESULT_SENDER
T_SEARCHMAP = 'std::collections::hash::map::HashMap<i32, %s>' % T_ITEM_SENDER
T_IDSET = 'std::collections::hash::set::HashSet<i32>'
T_IDPAIR = '(i32, %s)' % T_IDSET
T_IDTABLE = 'alloc::sync::Arc<std::sync::poison::mutex::Mutex<%s>>' % T_IDPAIR
T_IDGUARD_PREFIX = 'std::sync::poison::mutex::MutexGuard<'
T_REQ_TUPLE = '(i32, ldap3::protocol::LdapOp, lber::structures::Tag, core::option::Option<alloc::vec::Vec<ldap3::controls_impl::RawControl>>, %s)' % T_RESULT_SENDER
T_REQ_SENDER = 'tokio::sync::mpsc::unbounded::UnboundedSender<%s>' % T_REQ_TUPLE
T_REQ_RECEIVER = 'tokio::sync::mpsc::unbounded::UnboundedReceiver<%s>' % T_REQ_TUPLE
T_SCRUB_SENDER = 'tokio::sync::mpsc::unbounded::UnboundedSender<i32>'
T_SCRUB_RECEIVER = 'tokio::sync::mpsc::unbounded::UnboundedReceiver<i32>'
T_OPT = 'core::option::Option<%s>'
T_DECODED = '(i32, (lber::structures::Tag, %s))' % T_CTRLS

def is_idguard(t):
    t = hirq.strip_refs(t or '')
    return t.startswith(T_IDGUARD_PREFIX) and t.endswith(T_IDPAIR + '>')

def struct_fields_of_type(facts, ty):
    out = []
    for it in facts.items.values():
        if it.get('kind') == 'Struct':
            for v in it['variants']:
                for f in v['fields']:
                    if f['ty'] == ty:
                        out.append((it['path'], f['name']))
    return out

def one(what, xs):
    xs = list(xs)
    if len(xs) != 1:
        raise AnchorMissing('%s: expected exactly one candidate, found %d (%s)' % (what, len(xs), ', '.join(map(str, xs))[:300]))
    return xs[0]

def resolve_item_channel(facts):
    """The per-search item channel, by role: the search routing map is the struct field of type HashMap<RequestId, S<P>> with P the
    item payload (SearchItem, Vec<Control>) - S is whatever sender the program uses for it (tokio's unbounded sender today; how the
    alias that names it is spelled, or which mpsc flavour it resolves to, is not part of the role).  The type strings that other
    rules compare with (T_ITEM_SENDER, T_SEARCHMAP, T_ITEM_RECEIVER) are re-derived from the analysed program on every run."""
    global T_ITEM_SENDER, T_SEARCHMAP, T_ITEM_RECEIVER
    pre, suf = 'std::collections::hash::map::HashMap<i32, ', '<%s>>' % T_ITEM_PAYLOAD
    vals = set()
    for it in facts.items.values():
        if it.get('kind') == 'Struct':
            for v in it['variants']:
                for f in v['fields']:
                    t = f['ty']
                    if t.startswith(pre) and t.endswith(suf) and ',' not in t[len(pre):-len(suf)] and '<' not in t[len(pre):-len(suf)]:
                        vals.add(t[len(pre):-1])
    sender = one('item sender type (value type of the search routing map HashMap<RequestId, S<(SearchItem, Vec<Control>)>>)', vals)
    T_ITEM_SENDER = sender
    T_SEARCHMAP = pre + sender + '>'
    head = sender[:-len('<%s>' % T_ITEM_PAYLOAD)]
    T_ITEM_RECEIVER = (head[:-len('Sender')] + 'Receiver' if head.endswith('Sender') else head) + '<%s>' % T_ITEM_PAYLOAD

class Conn:
    """Resolved anchors of the driver / handle pair."""
    def __init__(self, facts):
        self.facts = facts
        resolve_item_channel(facts)
        # the driver struct: has both routing maps
        rm = struct_fields_of_type(facts, T_RESULTMAP)
        sm = struct_fields_of_type(facts, T_SEARCHMAP)
        self.driver_struct, self.resultmap = one('result routing map field (HashMap<RequestId, ResultSender>)', rm)
        ds2, self.searchmap = one('search routing map field (HashMap<RequestId, ItemSender>)', sm)
        if ds2 != self.driver_struct:
            raise AnchorMissing('routing maps live in different structs')
        idt = struct_fields_of_type(facts, T_IDTABLE)
        self.idtable_fields = idt
        if not any(s == self.driver_struct for s, _ in idt):
            raise AnchorMissing('driver struct has no ID table field')
        self.handle_struct = one('handle struct (ID table + request sender)',
                                 {s for s, _ in idt if s != self.driver_struct})
        # driver loop: the body with a select! arm over the request channel
        cands = []
        for path, h in facts.hir.items():
            arms = hirq.select_arms(h['body'])
            if any(a['ty'] == T_OPT % T_REQ_TUPLE for a in arms):
                cands.append((path, arms))
        self.loop_path, arms = one('driver loop (select! over the request channel)', cands)
        self.loop = hirq.Body(facts, facts.hir[self.loop_path])
        self.arms = {}
        for a in arms:
            t = a['ty']
            if t == T_OPT % T_REQ_TUPLE:
                self.arms['request'] = a
            elif t == T_OPT % 'i32':
                self.arms['scrub'] = a
            elif t == T_OPT % ('core::result::Result<%s, std::io::error::Error>' % T_DECODED):
                self.arms['response'] = a
            elif t == T_OPT % 'ldap3::protocol::MiscSender':
                self.arms['misc'] = a
            else:
                self.arms.setdefault('other', []).append(a)
        for r in ('request', 'scrub', 'response'):
            if r not in self.arms:
                raise AnchorMissing('driver loop arm: ' + r)
        # op_call: the unique body that sends on the request channel
        senders = []
        for path, h in facts.hir.items():
            for n, ctx in walk(h['body']):
                if n['k'] == 'MethodCall' and (callee_of(n) or '').endswith('UnboundedSender::<T>::send') \
                        and hirq.strip_refs(n['recv'].get('ty', '')) == T_REQ_SENDER:
                    senders.append(path)
        self.op_call_path = one('operation issue point (send on the request channel)', set(senders))
        self.op_call = hirq.Body(facts, facts.hir[self.op_call_path])
        # allocator: the unique body that inserts into the in-use set
        ins = []
        for path, h in facts.hir.items():
            for n, ctx in walk(h['body']):
                if n['k'] == 'MethodCall' and (callee_of(n) or '').endswith('HashSet::<T, S, A>::insert') \
                        and self.is_idset_place(n['recv']):
                    ins.append(path)
        self.alloc_path = one('ID allocator (insert into the in-use set)', set(ins))
        self.alloc = hirq.Body(facts, facts.hir[self.alloc_path])

    def is_idset_place(self, e):
        """e denotes the in-use set: `<guard>.1` where guard locks the ID table, or any place of the set's type (there is one
        HashSet<RequestId> in the program: a destructured `ref mut in_use` is the same set)."""
        e = peel(e)
        if e['k'] == 'Field' and e['name'] == '1' and is_idguard(peel(e['e']).get('ty')):
            return True
        return hirq.strip_refs(e.get('ty') or '') == T_IDSET

    def is_counter_place(self, e, B=None, depth=0):
        """e denotes the ID counter: component 0 of the locked ID table - `<guard>.0`, `(*guard).0`, `p.0` with p a reference to
        the (RequestId, HashSet<RequestId>) pair - or, when the body index B is given, a local that a pattern or a plain `let`
        bound to that place (`let (last, set) = &mut *guard;`, `let r = &mut guard.0;`): an alias is the place it names."""
        e = peel(e)
        if e['k'] == 'Field' and e['name'] == '0':
            bt = hirq.strip_refs(peel(e['e']).get('ty') or '')
            return is_idguard(bt) or bt == T_IDPAIR
        if B is not None and depth < 8 and e['k'] == 'Path' and e.get('res') == 'local' and (e.get('ty') or '').startswith('&'):
            d = B.defs.get(e['bind'])
            if d is None or d.get('src') is None:
                return False
            src = peel(d['src'])
            st = hirq.strip_refs(src.get('ty') or '')
            pr = tuple(p for p in d['proj'])
            if pr == (('tup', 0),) and (is_idguard(st) or st == T_IDPAIR):
                return True
            if pr == ():
                return self.is_counter_place(src, B, depth + 1)
            if pr and pr[-1] == ('tup', 0) and hirq.strip_refs(e.get('ty') or '') == 'i32' and T_IDPAIR in st:
                return True         # taken out of a larger pattern that contains the pair: read as the counter (fails closed)
        return False

    def is_map_place(self, e, which):
        """e is `<driver>.resultmap` / `.searchmap` (by field type)."""
        e = peel(e)
        want = T_RESULTMAP if which == 'result' else T_SEARCHMAP
        return e['k'] == 'Field' and hirq.strip_refs(e.get('ty', '')) == want

def peel(e):
    while True:
        if e['k'] == 'AddrOf':
            e = e['e']
        elif e['k'] == 'Unary' and e.get('op') == 'Deref':
            e = e['e']
        else:
            return e

def method_calls(root, suffix, recv_pred=None):
    out = []
    for n, ctx in walk(root):
        if n['k'] == 'MethodCall' and (callee_of(n) or '').endswith(suffix):
            if recv_pred is None or recv_pred(n['recv']):
                out.append((n, ctx))
    return out


class ConnSettings:
    """Role anchors of the connection settings struct (public, anchored by def-path), and what its builder interface *means*.

    The struct's fields are private and how a setting is represented is the maintainer's business: one bool field per setting, one
    bit of an integer field, a variant of a fieldless enum.  Nothing here reads a representation.  A setting is what its readers
    see:
      role            setter (public API)                 read through
      starttls        set_starttls(bool)                  the public getter starttls()
      verify-off      set_no_tls_verify(bool)             what the default connector / configuration of the handshake helper does
                                                          (certificate verification switched off or not)
      connector       set_connector(c) / set_config(c)    the payload of the one field that receives c  (an opaque value: by data flow;
      std-stream      set_std_stream(s)                   ... s                                         taken out by create_tls_stream /
      conn-timeout    set_conn_timeout(d)                 ... d                                         new_tcp, new_unix / from_url_with_settings)

    *State space.*  The fields of a closed scalar type (bool, the integer types, fieldless enums of the workspace) form the
    settings' finite state.  Its reachable part is enumerated exactly, by literal evaluation (no sampling): the initial states
    are the values the constructors build (`new`, the `Default` impl - derived or written by hand -, evaluated), and every builder
    method - a public `fn(Self, T) -> Self` of the struct - is evaluated in every reachable state with every argument (`true` and
    `false` for a bool; a symbolic value otherwise), the state fields of `self` holding literals, until nothing new appears.  Bit
    operations on literals are exact in the interpreter (`|=`, `&=`, `&= !C`, `^=` in the field's integer type), so a setting
    that is one bit of a flags byte is decided the same way as one that is a bool of its own.  Each reachable node carries what
    was *requested* along a shortest chain of builder calls that reaches it (per bool role the argument of the last call of its
    setter, `false` when it was never called) and that chain, for the report.  A scalar field that receives a value the
    interpreter cannot reduce to a literal is taken out of the state and treated like the opaque fields (by term identity).

    *Readers* are evaluated on a state the same way (the state fields of the settings parameter hold that state's literals):
    `read(role, state)` answers True / False, or None when the reader's paths do not agree on a literal (rules fail closed on it).

    How a settings value is put together is not read either: `mut self` + assignment + `self`, the struct-update forms
    `LdapConnSettings { f: v, ..self }` / `Self { f, ..self }`, a local copy that is modified and returned all give the same
    field terms (a base `..Default::default()` is followed into the Default impl).

    A setter of the table that cannot be evaluated (the result is not a settings value the interpreter can take apart; an Option
    role whose argument reaches no field, or several) raises AnchorMissing; any other setter that cannot be read is left to U6.
    Whether an Option-valued setter stores its argument on *every* path - in particular when the field is already set - is not a
    matter of the anchor: every transition carries its path condition, `opt_reading` says what the setting reads after it, and
    C18 U6.request-recorded states the clause (see "the Option-valued settings" below)."""
    ST = 'ldap3::conn::LdapConnSettings'
    BOOL = {'verify-off': ('set_no_tls_verify',), 'starttls': ('set_starttls',)}
    OPT = {'connector': ('set_connector', 'set_config'), 'std-stream': ('set_std_stream',), 'conn-timeout': ('set_conn_timeout',)}
    GETTER = {'starttls': 'ldap3::conn::LdapConnSettings::starttls'}
    # the handshake helper and the builders of the default connector / configuration it falls back to, with the call that switches
    # certificate verification off in each TLS back end
    TS = 'ldap3::conn::LdapConnAsync::create_tls_stream'
    DANGER = {'ldap3::conn::LdapConnAsync::create_connector': 'danger_accept_invalid_certs', 'ldap3::conn::LdapConnAsync::create_config': 'set_certificate_verifier'}
    SELF = ('param', 'self')
    SCALARS = ('bool', 'u8', 'u16', 'u32', 'u64', 'u128', 'usize', 'i8', 'i16', 'i32', 'i64', 'i128', 'isize')
    MAX_NODES = 512

    class _Demote(Exception):
        pass

    def __init__(self, facts):
        self.facts = facts
        it = facts.items.get(self.ST)
        if it is None or it.get('kind') != 'Struct':
            raise AnchorMissing('connection settings struct ' + self.ST)
        self.fields = {fl['name']: fl['ty'] for v in it['variants'] for fl in v['fields']}
        self.short = hirq.short_def(self.ST)
        self.field = {}      # Option role -> name of the field that receives Some(<argument>)
        self.setter = {}     # role -> def path of the setter that resolved it
        self.effects = {}    # setter def path -> {'own': field | None, 'resets': {opaque field: term it ends up with}, 'arg': name} | {'unreadable': why}
        self.role_of_setter = {'%s::%s' % (self.ST, nm): role for role, names in list(self.BOOL.items()) + list(self.OPT.items()) for nm in names}
        self.setter_paths = self.setters()
        self.is_bool = {p: (facts.items[p].get('inputs') or [None, None])[1] == 'bool' for p in self.setter_paths}
        for p in self.setter_paths:
            if self.role_of_setter.get(p) in self.BOOL:
                if not self.is_bool[p]:
                    raise AnchorMissing('%s does not take a bool' % p)
                self.setter.setdefault(self.role_of_setter[p], p)
        self.S = [F for F, ty in sorted(self.fields.items()) if self.closed_type(ty)]
        while True:
            try:
                self._cache = {}
                self.explore()
                break
            except self._Demote as d:
                self.S.remove(d.args[0])
        self.resolve_opaque_roles()

    # ------------------------------------------------------------------ the struct and its builder methods
    def closed_type(self, ty):
        if ty in self.SCALARS:
            return True
        it = self.facts.items.get(ty)
        return bool(it) and it.get('kind') == 'Enum' and all(not v.get('fields') for v in it.get('variants') or [])

    @staticmethod
    def closed(t):
        """a completely known scalar: a literal, or a variant without payload"""
        return t[0] == 'lit' or (t[0] == 'ctor' and not t[2])

    @staticmethod
    def copied(t):
        """t with `clone()` / `to_owned()` of a value taken off: the copy of a value is that value"""
        while t and t[0] == 'call' and t[1].rsplit('::', 1)[-1] in ('clone', 'to_owned') and len(t[2]) == 1:
            t = t[2][0]
        return t

    def setters(self):
        """the builder methods, by signature: public `fn(LdapConnSettings, T) -> LdapConnSettings` of the struct's own impl"""
        out = []
        for p, it in self.facts.items.items():
            if it.get('kind') == 'AssocFn' and it.get('impl_self') == self.ST and not it.get('impl_trait') and it.get('vis') == 'pub' \
                    and (it.get('inputs') or []) [:1] == [self.ST] and len(it['inputs']) == 2 and it.get('output') == self.ST and p in self.facts.hir:
                out.append(p)
        return sorted(out)

    def key(self, state):
        return tuple(sorted(state.items()))

    def seed(self, base, state):
        """the heap in which the settings value `base` is in `state`: its state fields hold the state's literals"""
        return {('field', base, F): v for F, v in state.items()}

    def interp(self, B, **kw):
        import absx, sem
        return absx.Interp(self.facts, B, combinators=True, summaries=kw.pop('summaries', []) + [sem.primitive_defaults],
                           inline=kw.pop('inline', lambda c: c.endswith('core::default::Default>::default')), **kw)

    def taken_apart(self, v, o):
        """{field: term} of the settings value v as path o leaves it (None when v is not one the interpreter can take apart)"""
        import absx
        if not (v == self.SELF or v[0] == 'param' or (v[0] == 'struct' and v[1] == self.short)):
            return None
        got = {}
        for F in self.fields:
            if ('field', v, F) in o.st.heap:
                t = o.st.heap[('field', v, F)]      # (a store to the field made after the value was put together: `let mut s = Self { .. }; s.f = x; s`)
            else:
                t = absx.field_term(v, F) if v[0] == 'struct' else ('field', v, F)
                if t[0] == 'field' and t in o.st.heap:
                    t = o.st.heap[t]              # (a store to self.F made before self became the base of the returned value; a seeded state field)
            got[F] = self.copied(t) if self.closed(self.copied(t)) else t
        return got

    def apply_setter(self, p, state, val):
        """[{field: term}] - one entry per returning path of builder method p called on a settings value in `state` with the literal
        argument val (None: the argument stays symbolic).  Cached."""
        import absx
        k = (p, self.key(state), val)
        if k in self._cache:
            return self._cache[k]
        B = hirq.Body(self.facts, self.facts.body(p))
        args = [(b, d) for b, d in B.defs.items() if d['kind'] == 'param' and d['idx'] == 1 and not d['proj']]
        selfs = [(b, d) for b, d in B.defs.items() if d['kind'] == 'param' and d['idx'] == 0 and not d['proj']]
        if len(args) != 1 or len(selfs) != 1:
            raise AnchorMissing('%s: expected (self, value)' % p)
        I = self.interp(B)
        env = I.param_env()
        env[selfs[0][0]] = self.SELF
        if val is not None:
            env[args[0][0]] = ('lit', val)
        paths = []
        for o in I.run(env=env, heap=self.seed(self.SELF, state)):
            if o.kind == 'div':
                continue
            got = self.taken_apart(o.val, o) if o.kind in ('val', 'ret') else None
            if got is None:
                raise AnchorMissing('%s does not return a settings value that can be taken apart field by field (%s)' % (p, absx.fmt(o.val)[:60]))
            # (the path's condition: what it found in the fields outside the scalar state - `self.x.get_or_insert(v)` stores v on
            # the path that found x unset and keeps x on the path that found it set)
            paths.append((got, tuple(o.st.pc)))
        if not paths:
            raise AnchorMissing('%s never returns' % p)
        self._cache[k] = (paths, args[0][1]['name'])
        return self._cache[k]

    def built(self, p, state=None):
        """(settings parameters of body p, [{field: term}]): every settings value that a non-diverging path of body p builds with a
        struct expression (a value that only serves as the `..base` of another one is judged through the outer one).  With `state`,
        the body's settings parameters are in that state."""
        import absx, sem
        B = hirq.Body(self.facts, self.facts.body(p))
        sparams = [('param', x) for x in sem.params_of_type(self.facts, B, lambda t: t == self.ST)]
        heap = {}
        for sp in sparams:
            heap.update(self.seed(sp, state or {}))
        out = []
        for o in self.interp(B).run(root=B.root['body'] if B.root['k'] == 'Closure' else B.root, heap=heap):
            if o.kind == 'div':
                continue
            where = [o.val] + [x for e in o.st.ev if e[0] in ('call', 'store') for x in (e[2] if e[0] == 'call' else (e[2],))] + list(o.st.heap.values())
            structs = []
            for t in where:
                for x in absx.leaves(t, lambda x: x[0] == 'struct' and x[1] == self.short):
                    if x not in structs:
                        structs.append(x)
            bases = [y[3] for y in structs if y[3] is not None]
            out.extend(self.taken_apart(x, o) for x in structs if x not in bases)
        return sparams, out

    def constructors(self):
        """the bodies (closures aside) that build a settings value with a struct expression and are not builder methods"""
        out = []
        for p in sorted(self.facts.hir):
            if '{' in p or p in self.setter_paths:
                continue
            if any(nd['k'] == 'Struct' and (nd.get('ctor_of') or nd.get('def') or '') == self.ST for nd, _c in walk(self.facts.hir[p]['body'])):
                out.append(p)
        return out

    # ------------------------------------------------------------------ the reachable states
    def explore(self):
        import absx
        self.initial = []        # (constructor def path, state)
        self.nodes = []          # {'state', 'req': {bool role: bool}, 'chain': ('set_x(true)', ..), 'from': (node index, setter, arg) | None}
        self.trans = []          # {'node': i, 'setter': p, 'arg': True|False|None, 'fields': {field: term}, 'state': {..}, 'to': j}
        self.unreadable = {}
        index = {}
        def node(state, req, chain, origin):
            k = (self.key(state), tuple(sorted(req.items())))
            if k not in index:
                if len(self.nodes) >= self.MAX_NODES:
                    raise AnchorMissing('the settings struct has more than %d reachable scalar states' % self.MAX_NODES)
                index[k] = len(self.nodes)
                self.nodes.append({'state': state, 'req': req, 'chain': chain, 'origin': origin})
            return index[k]
        def origin_of(p):
            return 'LdapConnSettings::new()' if p == self.ST + '::new' else 'LdapConnSettings::default()' if p.endswith(' as core::default::Default>::default') else p.replace(self.ST, 'LdapConnSettings') + '(..)'
        for p in sorted(self.constructors(), key=lambda p: (p != self.ST + '::new', p)):
            sparams, vals = self.built(p)
            if sparams:
                continue         # a copy (Clone) or a conversion of another settings value: not a starting point
            for got in vals:
                if got is None or any(not self.closed(got[F]) for F in self.S):
                    bad = [F for F in self.S if got is None or not self.closed(got[F])]
                    if got is not None and bad:
                        raise self._Demote(bad[0])
                    raise AnchorMissing('%s builds a settings value that cannot be taken apart' % p)
                st = {F: got[F] for F in self.S}
                if st not in [s for _p, s in self.initial]:
                    self.initial.append((p, st))
                node(st, {r: False for r in self.setter if r in self.BOOL}, (), origin_of(p))
        if not self.initial:
            raise AnchorMissing('no constructor of the connection settings (new / Default) could be evaluated')
        i = 0
        while i < len(self.nodes):
            n = self.nodes[i]
            for p in self.setter_paths:
                if p in self.unreadable:
                    continue
                role = self.role_of_setter.get(p)
                for val in ((True, False) if self.is_bool[p] else (None,)):
                    try:
                        paths, arg = self.apply_setter(p, n['state'], val)
                    except AnchorMissing as e:
                        if role is not None:
                            raise
                        self.unreadable[p] = str(e)
                        break
                    for got, pc in paths:
                        for F in self.S:
                            if not self.closed(got[F]):
                                raise self._Demote(F)
                        st = {F: got[F] for F in self.S}
                        req = dict(n['req'])
                        if role in self.BOOL and val is not None:
                            req[role] = val
                        call = '%s(%s)' % (p.rsplit('::', 1)[-1], '..' if val is None else 'true' if val else 'false')
                        j = node(st, req, n['chain'] + (call,), n['origin'])
                        self.trans.append({'node': i, 'setter': p, 'arg': val, 'argname': arg, 'fields': got, 'state': st, 'to': j, 'call': call, 'pc': pc})
            i += 1

    def resolve_opaque_roles(self):
        """what every builder method does to the fields outside the scalar state (term identity, as the values are opaque)"""
        import absx
        ident = lambda F: ('field', self.SELF, F)
        opaque = [F for F in self.fields if F not in self.S]
        self.find_opaque_cases(opaque)
        for p in self.setter_paths:
            if p in self.unreadable:
                self.effects[p] = {'unreadable': self.unreadable[p]}
                continue
            ts = [t for t in self.trans if t['setter'] == p]
            role = self.role_of_setter.get(p)
            A = ('param', ts[0]['argname'])
            own = sorted({F for t in ts for F in opaque if absx.leaves(t['fields'][F], lambda x: x == A)}) if not self.is_bool[p] else []
            if role in self.OPT:
                # the field of an Option-valued setting is the one field that receives the setter's argument (on some path, in some
                # state): whether it receives it on *every* path and in every state is a clause of its own (C18 U6.request-recorded),
                # not a matter of the anchor
                if len(own) != 1:
                    raise AnchorMissing('%s does not return `self` with exactly one field set from its argument (%s)' % (p, own))
                if role in self.field and self.field[role] != own[0]:
                    # both TLS back ends compiled in at once is not a supported configuration of the crate
                    raise AnchorMissing('two caller-supplied connector fields' if role == 'connector' else '%s: the field written depends on the argument' % p)
                self.field.setdefault(role, own[0])
                self.setter.setdefault(role, p)
            resets = {}
            for t in ts:
                for F in opaque:
                    if F not in own and t['fields'][F] != ident(F) and self.feasible(t):
                        resets.setdefault(F, t['fields'][F])
            self.effects[p] = {'own': own[0] if len(own) == 1 else None, 'owns': own, 'resets': resets, 'arg': ts[0]['argname']}

    # ------------------------------------------------------------------ the Option-valued settings (opaque payloads)
    # An Option-valued setting (connection timeout, caller's connector / configuration, pre-opened stream) has no literal to be
    # evaluated on; its state is which *case* its field is in - unset (None) or set (Some of an earlier argument) - and a builder
    # method is evaluated for both at once: the interpreter forks wherever the method's outcome depends on the case (Option's
    # `&mut self` methods are modelled exactly, absx.option_writer), and the path condition of each transition says which case it
    # stands for.  A case is *reachable* when a constructor builds it or a feasible transition leaves it behind (fixpoint below).
    # What such a setting *reads* is what its consumer takes out of the field - the payload of `Some`, under the test that it is
    # Some: from_url_with_settings for the timeout (C18 U4 compares the duration handed to tokio's timeout with that payload),
    # new_tcp / new_unix for the pre-opened stream (C18 U3), create_tls_stream for the connector / configuration (C17
    # W4.connector-choice) - each of those rules is anchored on `self.field[role]`, the field resolved here.
    def find_opaque_cases(self, opaque):
        def cases_of(t, F):
            if t[0] == 'ctor' and t[1] in ('Some', 'None'):
                return {t[1]}
            return set() if t == ('field', self.SELF, F) else {'Some', 'None'}
        self.opaque_cases = {F: set() for F in opaque}
        for p in self.constructors():
            sparams, vals = self.built(p)
            if sparams:
                continue
            for got in vals:
                for F in opaque:
                    self.opaque_cases[F] |= cases_of(got[F], F) if got is not None else {'Some', 'None'}
        changed = True
        while changed:
            changed = False
            for t in self.trans:
                if not self.feasible(t):
                    continue
                for F in opaque:
                    new = cases_of(t['fields'][F], F) - self.opaque_cases[F]
                    if new:
                        self.opaque_cases[F] |= new; changed = True

    def prior_case(self, t, F):
        """what transition t found in the Option-valued field F of `self`: 'Some' / 'None', or None when its path did not ask"""
        for a, truth in t['pc']:
            if a == ('is', ('field', self.SELF, F), 'Some'):
                return 'Some' if truth else 'None'
        return None

    def feasible(self, t):
        """the case of every Option-valued field that the transition's path presupposes is a reachable one"""
        cases = getattr(self, 'opaque_cases', None)
        return cases is None or all(self.prior_case(t, F) in (None,) + tuple(cases[F]) for F in cases)

    def opt_reading(self, role, t):
        """What the Option-valued setting `role` reads after transition t of its setter - what its consumer will take out of the
        field: ('arg',) the setter's argument; ('earlier',) the value an earlier call stored (the field is left as it was found, and
        it was found set); ('unset',) nothing; ('as-before',) the field is left as it was found, in either case; ('other', term)."""
        F = self.field[role]
        v = t['fields'][F]
        if v == ('ctor', 'Some', (('param', t['argname']),)):
            return ('arg',)
        if v == ('field', self.SELF, F):
            return {'Some': ('earlier',), 'None': ('unset',), None: ('as-before',)}[self.prior_case(t, F)]
        if v == ('ctor', 'None', ()):
            return ('unset',)
        return ('other', v)

    OPT_READER = {'conn-timeout': 'the duration LdapConnAsync::from_url_with_settings bounds the establishment with',
                  'std-stream': 'the pre-opened stream new_tcp / new_unix use instead of dialling',
                  'connector': 'the connector / configuration create_tls_stream runs the handshake with'}

    def role_of_field(self, F):
        return next((r for r, x in self.field.items() if x == F), None)

    def where(self, n):
        """the shortest chain of builder calls that reaches node n, as the caller would write it"""
        n = n if isinstance(n, dict) else self.nodes[n]
        return n['origin'] + ''.join('.' + c for c in n['chain'])

    # ------------------------------------------------------------------ readers
    def read(self, role, state):
        """(what the setting `role` reads in `state`: True / False / None, why None)"""
        k = ('read', role, self.key(state))
        if k not in self._cache:
            self._cache[k] = self.read_starttls(state) if role == 'starttls' else self.read_verify_off(state) if role == 'verify-off' else (None, 'no reader')
        return self._cache[k]

    def reads(self, state):
        return {r: self.read(r, state)[0] for r in self.setter if r in self.BOOL}

    def read_starttls(self, state):
        """the public getter, evaluated on a settings value in `state`: the literal every returning path answers"""
        import absx
        g = self.GETTER['starttls']
        if g not in self.facts.hir:
            return None, 'no getter %s' % g
        B = hirq.Body(self.facts, self.facts.body(g))
        selfs = [b for b, d in B.defs.items() if d['kind'] == 'param' and d['idx'] == 0 and not d['proj']]
        I = self.interp(B)
        env = I.param_env()
        for b in selfs:
            env[b] = self.SELF
        vals = {o.val for o in I.run(env=env, heap=self.seed(self.SELF, state)) if o.kind in ('val', 'ret')}
        if len(vals) == 1 and next(iter(vals)) in (('lit', True), ('lit', False)):
            return next(iter(vals))[1], ''
        return None, 'starttls() answers %s' % ' / '.join(sorted(absx.fmt(v)[:40] for v in vals))

    def read_verify_off(self, state):
        """What a connection opened with settings in `state` does about certificate verification when the caller supplied no
        connector of his own: the handshake helper is evaluated with its settings parameter in that state, the builder of the
        default connector / configuration followed into (whatever it is handed: the settings, or a flag read from them); the
        reading is True when every path that builds the default connector switches verification off (native-tls:
        danger_accept_invalid_certs(true); rustls: a certificate verifier of the crate's own installed), False when none does."""
        import absx, sem
        f = self.facts
        if self.TS not in f.hir:
            return None, 'no handshake helper %s' % self.TS
        T = hirq.Body(f, f.body(self.TS))
        sparams = sem.params_of_type(f, T, lambda t: t == self.ST)
        if len(sparams) != 1:
            return None, 'the handshake helper has no single settings parameter'
        def follow(I, cal, args, node, st):
            if cal in self.DANGER:
                return I.inline_call(cal, args, node, st.event(('default-connector', cal, tuple(args), node)))
            return None
        I = self.interp(T, summaries=[follow])
        seen = set()
        for o in I.run(root=T.root['body'] if T.root['k'] == 'Closure' else T.root, heap=self.seed(('param', sparams[0]), state)):
            if o.kind == 'div':
                continue
            b = [e for e in o.st.ev if e[0] == 'default-connector']
            if not b:
                continue
            danger = self.DANGER[b[0][1]]
            # the switch inside a closure that is handed to a function the interpreter has no model of (OnceLock::get_or_init,
            # a thread, ...): whether it runs - now, once per process, never - is not decided by this connection's settings
            for e in o.st.ev[o.st.ev.index(b[0]):]:
                if e[0] != 'call':
                    continue
                for c in [y for x in e[2] for y in absx.leaves(x, lambda y: y[0] == 'closure')]:
                    for body in [self.facts.hir.get(b[0][1]), self.facts.hir.get(self.TS)]:
                        for nd, _c in walk(body['body']) if body else ():
                            if nd['k'] == 'Closure' and nd.get('def') == c[1] and any(m['k'] == 'MethodCall' and (callee_of(m) or '').endswith(danger) for m, _c2 in walk(nd['body'])):
                                return None, 'the call that switches verification off sits in a closure handed to %s: whether it runs is not decided by this connection\'s settings' % e[1].rsplit('::', 1)[-1]
            d = [e for e in o.st.ev if e[0] == 'call' and e[1].endswith(danger)]
            if d and danger == 'danger_accept_invalid_certs' and d[0][2][1] != ('lit', True):
                if d[0][2][1] == ('lit', False):
                    d = []
                else:
                    return None, 'danger_accept_invalid_certs(%s)' % absx.fmt(d[0][2][1])[:40]
            seen.add(bool(d))
        if len(seen) == 1:
            return next(iter(seen)), ''
        return None, ('no path of the handshake helper builds the default connector' if not seen else 'the default connector\'s verification does not depend on the settings alone')

    # ------------------------------------------------------------------ the builder interface as an algebra (interpreter summary)
    def algebra(self, I, cal, args, node, st):
        """Interpreter summary for bodies that *use* settings (the constructors): a getter applied to a value that went through
        builder calls, `set_y(.. set_x(s, v) ..).x()`, is v when the last call of x's setter on the way is in sight, and `s.x()`
        when no call of it is - whatever the representation.  This is what C17 W7 (set_x(v) makes x read v) and C18 U6 (no builder
        method changes what another setting reads) establish for every reachable state; where they fail they are reported there."""
        import absx
        role = next((r for r, g in self.GETTER.items() if g == cal), None)
        if role is None or len(args) != 1 or role not in self.setter:
            return None
        t, through = args[0], False
        while t[0] == 'call' and t[1] in self.setter_paths and len(t[2]) == 2:
            if t[1] == self.setter[role]:
                return [absx.Out('val', t[2][1], st)]
            t, through = t[2][0], True
        if not through:
            return None
        return [absx.Out('val', ('call', cal, (t,), node.get('id')), st.event(('call', cal, (t,), node)))]
