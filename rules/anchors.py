"""Role-based anchors of the connection machinery (DESIGN.md section 4, "Anchoring principle").

Private items are found by their role in the resolved program (types of fields, channels they
touch), never by name or position, so that renaming or moving them raises no alarm.  A role that
resolves to zero or several candidates raises AnchorMissing (the check fails closed)."""
from facts import walk, callee_of, call_args, AnchorMissing
import hirq

T_CTRLS = 'alloc::vec::Vec<ldap3::controls_impl::Control>'
T_RESULT_PAYLOAD = '(lber::structures::Tag, %s)' % T_CTRLS
T_ITEM_PAYLOAD = '(ldap3::search::SearchItem, %s)' % T_CTRLS
T_RESULT_SENDER = 'tokio::sync::oneshot::Sender<%s>' % T_RESULT_PAYLOAD
T_ITEM_SENDER = 'tokio::sync::mpsc::unbounded::UnboundedSender<%s>' % T_ITEM_PAYLOAD
T_ITEM_RECEIVER = 'tokio::sync::mpsc::unbounded::UnboundedReceiver<%s>' % T_ITEM_PAYLOAD
T_RESULTMAP = 'std::collections::hash::map::HashMap<i32, %s>' % T_RESULT_SENDER
T_SEARCHMAP = 'std::collections::hash::map::HashMap<i32, %s>' % T_ITEM_SENDER
T_IDSET = 'std::collections::hash::set::HashSet<i32>'
T_IDPAIR = '(i32, %s)' % T_IDSET
T_IDTABLE = 'alloc::sync::Arc<std::sync::poison::mutex::Mutex<%s>>' % T_IDPAIR
T_IDGUARD_PREFIX = 'std::sync::poison::mutex::MutexGuard<'
T_REQ_TUPLE = '(i32, ldap3::protocol::LdapOp, lber::structures::Tag, core::option::Option<alloc::vec::Vec<ldap3::controls_impl::RawControl>>, %s)' % T_RESULT_SENDER
T_REQ_SENDER = 'tokio::sync::mpsc::unbounded::UnboundedSender<%s>' % T_REQ_TUPLE
T_REQ_RECEIVER = 'tokio::sync::mpsc::unbounded::UnboundedReceiver<%s>' % T_REQ_TUPLE
T_SCRUB_SENDER = 'tokio::sync::mpsc::unbounded::UnboundedSender<i32>'
T_SCRUB_RECEIVER = 'tokio::sync::mpsc::unbounded::UnboundedReceiver<i32>'
T_OPT = 'core::option::Option<%s>'
T_DECODED = '(i32, (lber::structures::Tag, %s))' % T_CTRLS

def is_idguard(t):
    t = hirq.strip_refs(t or '')
    return t.startswith(T_IDGUARD_PREFIX) and t.endswith(T_IDPAIR + '>')

def struct_fields_of_type(facts, ty):
    out = []
    for it in facts.items.values():
        if it.get('kind') == 'Struct':
            for v in it['variants']:
                for f in v['fields']:
                    if f['ty'] == ty:
                        out.append((it['path'], f['name']))
    return out

def one(what, xs):
    xs = list(xs)
    if len(xs) != 1:
        raise AnchorMissing('%s: expected exactly one candidate, found %d (%s)' % (what, len(xs), ', '.join(map(str, xs))[:300]))
    return xs[0]

class Conn:
    """Resolved anchors of the driver / handle pair."""
    def __init__(self, facts):
        self.facts = facts
        # the driver struct: has both routing maps
        rm = struct_fields_of_type(facts, T_RESULTMAP)
        sm = struct_fields_of_type(facts, T_SEARCHMAP)
        self.driver_struct, self.resultmap = one('result routing map field (HashMap<RequestId, ResultSender>)', rm)
        ds2, self.searchmap = one('search routing map field (HashMap<RequestId, ItemSender>)', sm)
        if ds2 != self.driver_struct:
            raise AnchorMissing('routing maps live in different structs')
        idt = struct_fields_of_type(facts, T_IDTABLE)
        self.idtable_fields = idt
        if not any(s == self.driver_struct for s, _ in idt):
            raise AnchorMissing('driver struct has no ID table field')
        self.handle_struct = one('handle struct (ID table + request sender)',
                                 {s for s, _ in idt if s != self.driver_struct})
        # driver loop: the body with a select! arm over the request channel
        cands = []
        for path, h in facts.hir.items():
            arms = hirq.select_arms(h['body'])
            if any(a['ty'] == T_OPT % T_REQ_TUPLE for a in arms):
                cands.append((path, arms))
        self.loop_path, arms = one('driver loop (select! over the request channel)', cands)
        self.loop = hirq.Body(facts, facts.hir[self.loop_path])
        self.arms = {}
        for a in arms:
            t = a['ty']
            if t == T_OPT % T_REQ_TUPLE:
                self.arms['request'] = a
            elif t == T_OPT % 'i32':
                self.arms['scrub'] = a
            elif t == T_OPT % ('core::result::Result<%s, std::io::error::Error>' % T_DECODED):
                self.arms['response'] = a
            elif t == T_OPT % 'ldap3::protocol::MiscSender':
                self.arms['misc'] = a
            else:
                self.arms.setdefault('other', []).append(a)
        for r in ('request', 'scrub', 'response'):
            if r not in self.arms:
                raise AnchorMissing('driver loop arm: ' + r)
        # op_call: the unique body that sends on the request channel
        senders = []
        for path, h in facts.hir.items():
            for n, ctx in walk(h['body']):
                if n['k'] == 'MethodCall' and (callee_of(n) or '').endswith('UnboundedSender::<T>::send') \
                        and hirq.strip_refs(n['recv'].get('ty', '')) == T_REQ_SENDER:
                    senders.append(path)
        self.op_call_path = one('operation issue point (send on the request channel)', set(senders))
        self.op_call = hirq.Body(facts, facts.hir[self.op_call_path])
        # allocator: the unique body that inserts into the in-use set
        ins = []
        for path, h in facts.hir.items():
            for n, ctx in walk(h['body']):
                if n['k'] == 'MethodCall' and (callee_of(n) or '').endswith('HashSet::<T, S, A>::insert') \
                        and self.is_idset_place(n['recv']):
                    ins.append(path)
        self.alloc_path = one('ID allocator (insert into the in-use set)', set(ins))
        self.alloc = hirq.Body(facts, facts.hir[self.alloc_path])

    def is_idset_place(self, e):
        """e denotes the in-use set: `<guard>.1` where guard locks the ID table, or any place of the set's type (there is one
        HashSet<RequestId> in the program: a destructured `ref mut in_use` is the same set)."""
        e = peel(e)
        if e['k'] == 'Field' and e['name'] == '1' and is_idguard(peel(e['e']).get('ty')):
            return True
        return hirq.strip_refs(e.get('ty') or '') == T_IDSET

    def is_counter_place(self, e):
        e = peel(e)
        return e['k'] == 'Field' and e['name'] == '0' and is_idguard(peel(e['e']).get('ty'))

    def is_map_place(self, e, which):
        """e is `<driver>.resultmap` / `.searchmap` (by field type)."""
        e = peel(e)
        want = T_RESULTMAP if which == 'result' else T_SEARCHMAP
        return e['k'] == 'Field' and hirq.strip_refs(e.get('ty', '')) == want

def peel(e):
    while True:
        if e['k'] == 'AddrOf':
            e = e['e']
        elif e['k'] == 'Unary' and e.get('op') == 'Deref':
            e = e['e']
        else:
            return e

def method_calls(root, suffix, recv_pred=None):
    out = []
    for n, ctx in walk(root):
        if n['k'] == 'MethodCall' and (callee_of(n) or '').endswith(suffix):
            if recv_pred is None or recv_pred(n['recv']):
                out.append((n, ctx))
    return out


class ConnSettings:
    """Role anchors of the connection settings struct (public, anchored by def-path).  Its fields are private: each is found as
    *the field the public setter writes*, never by name.  For a bool request the polarity is read from the setter too: `stored[v]`
    is the value the field holds after `set_x(v)` (the setter is evaluated exactly for v = true and v = false, the whole domain).

      role            setter (public API)                 field holds
      verify-off      set_no_tls_verify(bool)             stored[true] when verification was explicitly disabled
      starttls        set_starttls(bool)                  stored[true] when StartTLS was requested
      connector       set_connector(c) / set_config(c)    Some(c): the caller's own TLS connector / configuration
      std-stream      set_std_stream(s)                   Some(s): a pre-opened stream
      conn-timeout    set_conn_timeout(d)                 Some(d)
    A setter that exists but does not store (on every path, exactly) one field of `self` raises AnchorMissing."""
    ST = 'ldap3::conn::LdapConnSettings'
    BOOL = {'verify-off': ('set_no_tls_verify',), 'starttls': ('set_starttls',)}
    OPT = {'connector': ('set_connector', 'set_config'), 'std-stream': ('set_std_stream',), 'conn-timeout': ('set_conn_timeout',)}

    def __init__(self, facts):
        import absx
        self.facts = facts
        it = facts.items.get(self.ST)
        if it is None or it.get('kind') != 'Struct':
            raise AnchorMissing('connection settings struct ' + self.ST)
        self.fields = {fl['name']: fl['ty'] for v in it['variants'] for fl in v['fields']}
        self.field = {}      # role -> field name
        self.stored = {}     # bool role -> {True: term, False: term}
        self.setter = {}     # role -> def path of the setter that resolved it
        SELF = ('param', 'self')
        for role, names in list(self.BOOL.items()) + list(self.OPT.items()):
            for nm in names:
                p = '%s::%s' % (self.ST, nm)
                if p not in facts.hir:
                    continue
                B = hirq.Body(facts, facts.body(p))
                args = [(b, d) for b, d in B.defs.items() if d['kind'] == 'param' and d['idx'] == 1 and not d['proj']]
                if len(args) != 1:
                    raise AnchorMissing('%s: expected (self, value)' % p)
                runs = {}
                for val in ((True, False) if role in self.BOOL else (None,)):
                    I = absx.Interp(facts, B, combinators=True)
                    env = I.param_env()
                    if val is not None:
                        env[args[0][0]] = ('lit', val)
                    written = set()
                    for o in I.run(env=env):
                        if o.kind == 'div':
                            continue
                        mine = {k[2]: v for k, v in o.st.heap.items() if k[0] == 'field' and k[1] == SELF}
                        if o.kind not in ('val', 'ret') or o.val != SELF or len(mine) != 1:
                            raise AnchorMissing('%s does not return `self` with exactly one field written (%s)' % (p, sorted(mine)))
                        written.add(tuple(mine.items())[0])
                    if len(written) != 1:
                        raise AnchorMissing('%s: the field written depends on the path' % p)
                    runs[val] = written.pop()
                fnames = {fv[0] for fv in runs.values()}
                if len(fnames) != 1 or (role in self.field and self.field[role] not in fnames and role != 'connector'):
                    raise AnchorMissing('%s: the field written depends on the argument' % p)
                fname = fnames.pop()
                if role in self.OPT:
                    want = ('ctor', 'Some', (('param', args[0][1]['name']),))
                    if runs[None][1] != want:
                        raise AnchorMissing('%s does not store Some(<its argument>)' % p)
                else:
                    self.stored[role] = {v: runs[v][1] for v in (True, False)}
                self.field.setdefault(role, fname)
                self.setter.setdefault(role, p)
                if role == 'connector' and self.field[role] != fname:
                    # both TLS back ends compiled in at once is not a supported configuration of the crate
                    raise AnchorMissing('two caller-supplied connector fields')

    def polarity_ok(self, role):
        """the setter records the request: what it stores for `true` and for `false` are the two distinct boolean constants"""
        s = self.stored.get(role)
        return s is not None and {s[True], s[False]} == {('lit', True), ('lit', False)}

    def requested(self, role, truth):
        """Given the truth value a path found for the role's field: was the request made (set_x(true))?"""
        return ('lit', truth) == self.stored[role][True]
